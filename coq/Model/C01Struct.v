(* C01Struct.v (phase 6) — the panic sites of the struct rules (`impl Linter for`, not PatternLinter) that are guarded
   by the SHAPE of the loop they sit in: neighbouring word indices (tuple_windows over iter_word_indices), indices an
   index iterator yields, a copy of run_on_chunk over sentences, a slice pattern `[.., a, b, c]`, a `len == 1 &&` /
   `!is_empty() &&` test, a literal match.  Written after the Rust line by line, every index / slice / unwrap / usize
   subtraction a checked operation of Base.v.  tools/tables/bodyshapes.py pins the Rust text of each function
   (sha256 of the comment-free, whitespace-free text) and raises when it changes.

     AnA::lint, starts_with_vowel (head)     harper-core/src/linting/an_a.rs
     LinkingVerbs::lint                      harper-core/src/linting/linking_verbs.rs
     NoOxfordComma::{lint,match_to_lint}     harper-core/src/linting/no_oxford_comma.rs
     OxfordComma::lint                       harper-core/src/linting/oxford_comma.rs
     Spaces::lint                            harper-core/src/linting/spaces.rs
     SentenceCapitalization::lint (head)     harper-core/src/linting/sentence_capitalization.rs
     CapitalizePersonalPronouns::lint        harper-core/src/linting/capitalize_personal_pronouns.rs
     MergeWords::lint (the two `[0]`)        harper-core/src/linting/merge_words.rs
   No proofs here. *)
Require Import Base Overlap TokenSeq Pattern C01Bodies.

(* `for x in it { body(x) }` where the body may panic *)
Fixpoint each_chk {A} (f : A -> res unit) (l : list A) : res unit :=
  match l with
  | [] => Ok tt
  | x :: r => do _u <- f x; each_chk f r
  end.

(* ---------- AnA::lint ----------
   for chunk in document.iter_chunks() {
     for (first_idx, second_idx) in chunk.iter_word_indices().tuple_windows() {
       if chunk[first_idx..second_idx].iter_unlintables().count() > 0
          || chunk[first_idx + 1..second_idx].iter_word_like_indices().count() > 0 { continue; }
       let first = &chunk[first_idx]; let second = &chunk[second_idx]; …
   The model evaluates all four on every pair (the code evaluates a prefix of them: `||`, `continue`). *)
Definition ana_use (chunk : list tok) (ab : nat * nat) : res unit :=
  do _u <- slice_chk chunk (fst ab) (snd ab);                     (* chunk[first_idx..second_idx] *)
  do _w <- slice_chk chunk (fst ab + 1) (snd ab);                 (* chunk[first_idx + 1..second_idx] *)
  do _x <- nth_chk chunk (fst ab);                                (* &chunk[first_idx] *)
  do _y <- nth_chk chunk (snd ab);                                (* &chunk[second_idx] *)
  Ok tt.
Definition ana_uses (chunk : list tok) : res unit :=
  each_chk (ana_use chunk) (pairs_adjacent (word_indices chunk)).

(* starts_with_vowel: let is_likely_initialism = word.iter().all(|c| c.is_uppercase());
   if is_likely_initialism && !word.is_empty() { return matches!(word[0], 'A' | …) } *)
Definition is_nil {A} (l : list A) : bool := match l with [] => true | _ => false end.
Definition vowel_head (is_upper : N -> bool) (word : text) : res (option N) :=
  if forallb is_upper word && negb (is_nil word)
  then do c <- nth_chk word 0; Ok (Some c)                        (* word[0] *)
  else Ok None.

(* ---------- LinkingVerbs::lint ----------
   for idx in chunk.iter_linking_verb_indices() {          = iter_word_indices().filter(..)
     let linking_verb = &chunk[idx];
     if let Some(prev_word) = &chunk[0..idx].last_word() {  = .iter().rev().find(|v| v.kind.is_word())
       if let Some(metadata) = prev_word.kind.as_word().unwrap() { …
   `lv`: which of the word indices are linking verbs (dictionary metadata) — any predicate.
   as_word() is the derived accessor of the variant is_word() tests: Some exactly on TokenKind::Word(_). *)
Definition last_word (l : list tok) : option tok := find (flag F_WORD) (rev l).
Definition as_word_unwrap (t : tok) : res unit := if flag F_WORD t then Ok tt else Panic PUnwrap.
Definition linking_use (chunk : list tok) (idx : nat) : res unit :=
  do _v <- nth_chk chunk idx;                                     (* &chunk[idx] *)
  do pre <- slice_chk chunk 0 idx;                                (* &chunk[0..idx] *)
  match last_word pre with
  | None => Ok tt
  | Some w => as_word_unwrap w                                    (* prev_word.kind.as_word().unwrap() *)
  end.
Definition linking_verbs_uses (lv : nat -> bool) (chunk : list tok) : res unit :=
  each_chk (linking_use chunk) (filter lv (word_indices chunk)).

(* ---------- NoOxfordComma ----------
   match_to_lint: let last_comma_index = matched_toks.last_comma_index()?;
                  let offender = &matched_toks[last_comma_index];      span: offender.span
   `f`: kind.is_comma() — any predicate.  last_index is TokenSeq's model of last_<thing>_index (checked len - i - 1). *)
Definition last_index_body (f : tok -> bool) (mt : list tok) : res (option span) :=
  do li <- last_index f mt;
  match li with
  | None => Ok None
  | Some i => do t <- nth_chk mt i; Ok (Some (tspan t))           (* &matched_toks[last_comma_index] *)
  end.

Section Loops.
  Variable leaf : nat -> tok -> text -> res bool.
  Variable oracle : nat -> list tok -> text -> res bool.

  (* NoOxfordComma::lint: for sentence in document.iter_sentences() { let mut tok_cursor = 0; loop { … } } — the loop
     is run_on_chunk verbatim (`&sentence[tok_cursor..]`, `&sentence[tok_cursor..tok_cursor + match_len]`), the body is
     last_index_body: rule_lint_chunks of C01Bodies.v over the sentences *)
  Definition no_oxford_comma_lint (is_comma : tok -> bool) (p : pat) (toks : list tok) (src : text)
    : res (list (option span)) :=
    do ss <- iter_sentences toks;
    rule_lint_chunks leaf oracle (fun mt _ => last_index_body is_comma mt) p ss src.

  (* OxfordComma::lint: the same loop, but tok_cursor may start at the first comma:
       if first.preposition && second.is_likely_homograph() {
         tok_cursor = sentence.iter().position(|t| t.kind.is_comma()).unwrap_or(sentence.iter().len()) }
     `skip`: that condition on the first two words (dictionary metadata) — any boolean *)
  Definition oxford_start (skip : bool) (is_comma : tok -> bool) (sentence : list tok) : nat :=
    if skip then match position is_comma sentence with Some i => i | None => length sentence end else 0.
  Definition oxford_loop (skip : bool) (is_comma : tok -> bool) (p : pat) (sentence : list tok) (src : text)
    : res (list (nat * nat)) :=
    roc_loop (fun ts => matches leaf oracle p ts src) sentence (S (length sentence)) (oxford_start skip is_comma sentence).
  Fixpoint oxford_sentences (skip : list tok -> bool) (is_comma : tok -> bool) (p : pat) (ss : list (list tok)) (src : text)
    : res (list (list (nat * nat))) :=
    match ss with
    | [] => Ok []
    | s :: r => do x <- oxford_loop (skip s) is_comma p s src; do tl <- oxford_sentences skip is_comma p r src; Ok (x :: tl)
    end.
  Definition oxford_comma_loops skip is_comma p (toks : list tok) (src : text) : res (list (list (nat * nat))) :=
    do ss <- iter_sentences toks; oxford_sentences skip is_comma p ss src.
End Loops.

(* ---------- Spaces::lint ----------
   for space in sentence.iter_spaces() { let TokenKind::Space(count) = space.kind else { panic!(..) }; … }
   iter_spaces = iter_space_indices().map(|i| &self[i]), is_space() the derived test of that variant *)
Definition spaces_kinds (is_space : tok -> bool) (sentence : list tok) : res unit :=
  each_chk (fun t => if is_space t then Ok tt else Panic PUnwrap) (filter is_space sentence).
(* if matches!(sentence, [.., Token{kind: Word(_)}, Token{kind: Space(_)}, Token{kind: Punctuation(_)}]) {
     span: sentence[sentence.len() - 2..sentence.len() - 1].span().unwrap() *)
Definition spaces_tail (is_space is_punct : tok -> bool) (sentence : list tok) : res (option span) :=
  match rev sentence with
  | p :: s :: w :: _ =>
      if flag F_WORD w && is_space s && is_punct p then
        do a <- sub_chk (length sentence) 2;                      (* sentence.len() - 2 *)
        do b <- sub_chk (length sentence) 1;                      (* sentence.len() - 1 *)
        do sl <- slice_chk sentence a b;                          (* sentence[a..b] *)
        do sp <- hull_unwrap sl;                                  (* .span().unwrap() *)
        Ok (Some sp)
      else Ok None
  | _ => Ok None
  end.

(* ---------- SentenceCapitalization::lint, the head of the paragraph loop ----------
   if paragraph.iter_sentences().count() == 1 { let only_sentence = paragraph.iter_sentences().next().unwrap(); … *)
Definition only_sentence (paragraph : list tok) : res (option (list tok)) :=
  do ss <- iter_sentences paragraph;
  if length ss =? 1 then do s <- first_chk ss; Ok (Some s)        (* .next().unwrap() *)
  else Ok None.
(* without the guard: .next().unwrap() on whatever iter_sentences yields *)
Definition first_sentence (paragraph : list tok) : res (list tok) :=
  do ss <- iter_sentences paragraph; first_chk ss.

(* ---------- CapitalizePersonalPronouns::lint ----------
   if matches!(span_content, ['i'] | ['i','\'','d'] | ['i','\'','d','\\','v','e'] | ['i','\'','l','l'] | ['i','\'','m']
               | ['i','\'','v','e']) { let mut replacement = span_content.to_vec(); replacement[0] = 'I'; *)
Definition cpp_forms : list text :=
  [ch [105]; ch [105; 39; 100]; ch [105; 39; 100; 92; 118; 101]; ch [105; 39; 108; 108]; ch [105; 39; 109];
   ch [105; 39; 118; 101]].
Definition text_eq_dec : forall a b : text, {a = b} + {a <> b} := list_eq_dec N.eq_dec.
Definition cpp_replacement (content : text) : res (option text) :=
  if existsb (fun f => if text_eq_dec content f then true else false) cpp_forms
  then do r <- set_nth content 0 73%N; Ok (Some r)                (* replacement[0] = 'I' *)
  else Ok None.

(* ---------- MergeWords::lint ----------
   if (a_chars.len() == 1 && a_chars[0].is_uppercase()) || (b_chars.len() == 1 && b_chars[0].is_uppercase()) { continue; } *)
Definition single_upper (is_upper : N -> bool) (c : text) : res bool :=
  if length c =? 1 then do x <- nth_chk c 0; Ok (is_upper x) else Ok false.
Definition merge_words_skip (is_upper : N -> bool) (a b : text) : res bool :=
  do x <- single_upper is_upper a; if x then Ok true else single_upper is_upper b.

(* ================= rules that walk the whole document with document.get_token(i) ================= *)
(* Document::get_token(i) = self.tokens.get(i) *)
Definition get_token (doc : list tok) (i : nat) : option tok := nth_error doc i.
Definition unwrap_chk {A} (o : option A) : res A := match o with Some x => Ok x | None => Panic PUnwrap end.
Definition is_none {A} (o : option A) : bool := match o with Some _ => false | None => true end.

(* ---------- AdjectiveOfA::lint ----------
   for i in document.iter_adjective_indices() {
     let adjective = document.get_token(i).unwrap();
     let space_1 = document.get_token(i + 1); let word_of = ..(i + 2); let space_2 = ..(i + 3); let a_or_an = ..(i + 4);
     … three `continue`s that look at the adjective only (`skip`) …
     if space_1.is_none() || word_of.is_none() || space_2.is_none() || a_or_an.is_none() { continue; }
     let space_1 = space_1.unwrap(); if !space_1.kind.is_whitespace() { continue; }
     let word_of = word_of.unwrap(); if !word_of.kind.is_word() { continue; } if word_of != ['o','f'] { continue; }
     let space_2 = space_2.unwrap(); if !space_2.kind.is_whitespace() { continue; }
     let a_or_an = a_or_an.unwrap(); …
   `skip`, `is_of`: any predicates *)
Definition adjective_of_a_use (skip is_of : tok -> bool) (doc : list tok) (i : nat) : res unit :=
  do adjective <- unwrap_chk (get_token doc i);                   (* document.get_token(i).unwrap() *)
  let space_1 := get_token doc (i + 1) in
  let word_of := get_token doc (i + 2) in
  let space_2 := get_token doc (i + 3) in
  let a_or_an := get_token doc (i + 4) in
  if skip adjective then Ok tt
  else if is_none space_1 || is_none word_of || is_none space_2 || is_none a_or_an then Ok tt
  else
    do s1 <- unwrap_chk space_1;                                  (* space_1.unwrap() *)
    if negb (flag F_WS s1) then Ok tt else
    do wo <- unwrap_chk word_of;                                  (* word_of.unwrap() *)
    if negb (flag F_WORD wo) then Ok tt else
    if negb (is_of wo) then Ok tt else
    do s2 <- unwrap_chk space_2;                                  (* space_2.unwrap() *)
    if negb (flag F_WS s2) then Ok tt else
    do _aa <- unwrap_chk a_or_an;                                 (* a_or_an.unwrap() *)
    Ok tt.
Definition adjective_of_a_uses (is_adj skip is_of : tok -> bool) (doc : list tok) : res unit :=
  each_chk (adjective_of_a_use skip is_of doc) (term_indices is_adj doc).

(* ---------- InflectedVerbAfterTo::lint ----------
   for pi in document.iter_preposition_indices() { let prep = document.get_token(pi).unwrap(); …
     let chars = document.get_span_content(&word.span);
     if chars.len() < 4 { continue; }
     if chars.ends_with(&['e','d']) { check_stem(&chars[..chars.len() - 2]); check_stem(&chars[..chars.len() - 1]); }
     if chars.ends_with(&['e','s']) { check_stem(&chars[..chars.len() - 2]); }
     if chars.ends_with(&['s'])     { check_stem(&chars[..chars.len() - 1]); }
   the three ends_with tests: any booleans (the slices are safe by the length test alone) *)
Definition stem_cut (chars : text) (k : nat) : res unit :=
  do n <- sub_chk (length chars) k;                               (* chars.len() - k *)
  do _s <- slice_chk chars 0 n;                                   (* &chars[..n] *)
  Ok tt.
Definition inflected_stems (ends_ed ends_es ends_s : bool) (chars : text) : res unit :=
  if length chars <? 4 then Ok tt else
  do _a <- (if ends_ed then do _x <- stem_cut chars 2; stem_cut chars 1 else Ok tt);
  do _b <- (if ends_es then stem_cut chars 2 else Ok tt);
  if ends_s then stem_cut chars 1 else Ok tt.
Definition inflected_preps (is_prep : tok -> bool) (doc : list tok) : res unit :=
  each_chk (fun pi => do _p <- unwrap_chk (get_token doc pi); Ok tt) (term_indices is_prep doc).

(* ---------- CommaFixes::lint ----------
   for ci in document.iter_comma_indices() {
     let mut toks = (None, None, document.get_token(ci).unwrap(), None, None);
     toks.0 = (ci >= 2).then(|| document.get_token(ci - 2).unwrap());
     toks.1 = (ci >= 1).then(|| document.get_token(ci - 1).unwrap());
     toks.3 = document.get_token(ci + 1); toks.4 = document.get_token(ci + 2);
     let kinds = (toks.0.map(|t| &t.kind), toks.1.map(|t| &t.kind), …);
     match kinds { (.., Some(Space(_)), ..) => ( toks.1.unwrap().span / Span::new(toks.1.unwrap().span.start, ..) …   (4 arms) *)
Definition comma_toks (doc : list tok) (ci : nat) : res (option tok * option tok * tok) :=
  do t2 <- unwrap_chk (get_token doc ci);                         (* document.get_token(ci).unwrap() *)
  do t0 <- (if 2 <=? ci then do a <- sub_chk ci 2; do t <- unwrap_chk (get_token doc a); Ok (Some t) else Ok None);
  do t1 <- (if 1 <=? ci then do a <- sub_chk ci 1; do t <- unwrap_chk (get_token doc a); Ok (Some t) else Ok None);
  Ok (t0, t1, t2).
(* an arm whose pattern has Some(Space(_)) in position 1, then toks.1.unwrap() *)
Definition comma_space_before (is_space : tok -> bool) (t1 : option tok) : res (option tok) :=
  match option_map is_space t1 with
  | Some true => do t <- unwrap_chk t1; Ok (Some t)               (* toks.1.unwrap() *)
  | _ => Ok None
  end.
Definition comma_fixes_use (is_space : tok -> bool) (doc : list tok) (ci : nat) : res unit :=
  do ts <- comma_toks doc ci;
  do _x <- comma_space_before is_space (snd (fst ts));
  Ok tt.
Definition comma_fixes_uses (is_comma is_space : tok -> bool) (doc : list tok) : res unit :=
  each_chk (comma_fixes_use is_space doc) (term_indices is_comma doc).

(* ================= SpellCheck / SpelledNumbers: the sites that do not depend on the dictionary ================= *)
(* SpellCheck::new: LruCache::new(NonZero::new(10000).unwrap()) *)
Definition nonzero_new (n : N) : option N := if N.eqb n 0 then None else Some n.
Definition lru_capacity : res N := unwrap_chk (nonzero_new 10000%N).
(* for word in document.iter_words() { … if let Some(metadata) = word.kind.as_word().unwrap() { *)
Definition spell_check_words (doc : list tok) : res unit := each_chk as_word_unwrap (filter (flag F_WORD) doc).
(* if possibilities.len() > 3 { possibilities.resize_with(3, || panic!()); }
   Vec::resize_with(n, f): truncates when n <= len, calls f for every missing slot otherwise *)
Definition resize_with_panic {A} (l : list A) (n : nat) : res (list A) :=
  if length l <? n then Panic PUnwrap else Ok (firstn n l).
Definition spell_possibilities {A} (poss : list A) : res (list A) :=
  if 3 <? length poss then resize_with_panic poss 3 else Ok poss.
(* let suggestions = possibilities.iter().map(..);
   if suggestions.len() == 1 { … possibilities.last().unwrap() … } *)
Definition spell_message {A} (poss : list A) : res (option A) :=
  if length poss =? 1 then do x <- last_chk poss; Ok (Some x) else Ok None.

(* SpelledNumbers::lint: for number_tok in document.iter_numbers() { … number_tok.kind.as_number().unwrap() … *)
Definition as_number_unwrap (t : tok) : res unit := if flag F_NUMBER t then Ok tt else Panic PUnwrap.
Definition spelled_numbers_toks (doc : list tok) : res unit := each_chk as_number_unwrap (filter (flag F_NUMBER) doc).
(* fn spell_out_number(num: u64) -> Option<String>: None = `return None`, Some tt = a string (its text is not modelled).
     if num > 999 { return None; }
     match num { 0..=20 | 30 | 40 | … | 90 => literal,
       hundred if hundred % 100 == 0 => format!("{} hundred", spell_out_number(hundred / 100).unwrap()),
       _ => { let n = 10u64.pow((num as f32).log10() as u32); let parent = (num / n) * n; let child = num % n;
              format!(.., spell_out_number(parent).unwrap(), .., spell_out_number(child).unwrap()) } }
   `(num as f32).log10() as u32` for 21 <= num <= 999 is 1 below 100 and 2 from 100 on (modelled, not verified: f32). *)
Definition ilog10_small (num : nat) : nat := if num <? 10 then 0 else if num <? 100 then 1 else 2.
Definition spell_literal (num : nat) : bool := (num <=? 20) || existsb (Nat.eqb num) [30; 40; 50; 60; 70; 80; 90].
Fixpoint spell_out_number (fuel num : nat) : res (option unit) :=
  match fuel with
  | 0 => Panic PFuel
  | S f =>
      if 999 <? num then Ok None
      else if spell_literal num then Ok (Some tt)
      else if num mod 100 =? 0 then
        do r <- spell_out_number f (num / 100); do _u <- unwrap_chk r; Ok (Some tt)   (* spell_out_number(hundred / 100).unwrap() *)
      else
        let n := 10 ^ ilog10_small num in
        let parent := (num / n) * n in
        let child := num mod n in
        do r1 <- spell_out_number f parent; do _a <- unwrap_chk r1;                    (* spell_out_number(parent).unwrap() *)
        do r2 <- spell_out_number f child; do _b <- unwrap_chk r2;                     (* spell_out_number(child).unwrap() *)
        Ok (Some tt)
  end.
(* in lint: value is a whole number below 10 (`value as u64` of it: 0..9); spell_out_number(value as u64).unwrap() *)
Definition spelled_numbers_use (v : nat) : res unit :=
  do r <- spell_out_number 4 v; do _u <- unwrap_chk r; Ok tt.
