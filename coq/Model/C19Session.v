(* C19Session.v — harper-ls as a writer of the statistics log: which handler does what to the records, when
   (harper-ls/src/backend.rs; no proofs here).
     execute_command "HarperRecordLint": stats.records.push(Record::now(kind))          — the only site that makes a record
     save_stats(): opens the log in append mode and writes ALL records held in memory; it only read-locks them and
                   nothing ever drains them — so each call appends the whole in-memory list again
     the handlers that call save_stats(): the generated table ls_save_stats_callers (today: shutdown alone)
     a new server process starts with no records in memory
   The model is parametric in the list of callers so that it says what the code does whatever that list is. *)
Require Import Base JsonEscape Stats Tables_statssession.
From Coq Require Import List String Bool.
Import ListNotations.

(* the handlers a session history is made of (index = what the harness and the driver call them) *)
Definition handler_names : list string :=
  ["did_open"%string; "did_change"%string; "did_save"%string; "did_close"%string; "did_change_configuration"%string; "shutdown"%string].

Section Session.
  Variable A : Type.                                 (* a record *)

  Inductive ls_event :=
  | EvRecord (r : A)                                 (* workspace/executeCommand HarperRecordLint, accepted *)
  | EvHandler (h : string).                          (* any other handler, by the name of its fn *)

  Definition calls_save (callers : list string) (h : string) : bool := existsb (String.eqb h) callers.

  (* state: the records held in memory, the records on the log (in file order) *)
  Definition ls_step (callers : list string) (st : list A * list A) (ev : ls_event) : list A * list A :=
    let '(mem, log) := st in
    match ev with
    | EvRecord r => (mem ++ [r], log)
    | EvHandler h => if calls_save callers h then (mem, log ++ mem) else (mem, log)
    end.

  (* one server process on an existing log: its events, then the `shutdown` request *)
  Definition ls_session (callers : list string) (log : list A) (evs : list ls_event) : list A :=
    snd (fold_left (ls_step callers) (evs ++ [EvHandler "shutdown"%string]) ([], log)).
  (* several processes, one after the other, on the same statsPath *)
  Definition ls_history (callers : list string) (log : list A) (ss : list (list ls_event)) : list A :=
    fold_left (ls_session callers) ss log.

  (* the lints applied in a session, in order *)
  Fixpoint recorded (evs : list ls_event) : list A :=
    match evs with
    | [] => []
    | EvRecord r :: t => r :: recorded t
    | EvHandler _ :: t => recorded t
    end.
  Definition no_shutdown (evs : list ls_event) : Prop :=
    forall h, In (EvHandler h) evs -> h <> "shutdown"%string.
End Session.

(* the extracted driver: records are numbers, a handler is its index in handler_names *)
Definition ev_of (e : N + nat) : ls_event N :=
  match e with inl r => EvRecord N r | inr i => EvHandler N (nth i handler_names ""%string) end.
Definition run_ls_history (callers : list string) (ss : list (list (N + nat))) : list N :=
  ls_history N callers [] (map (map ev_of) ss).
(* with the callers of save_stats as the sources have them now *)
Definition run_ls_history_src (ss : list (list (N + nat))) : list N := run_ls_history ls_save_stats_callers ss.
