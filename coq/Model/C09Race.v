(* C09Race.v — C09, add-word commands and configuration changes in flight with didChange (the rest of F17a):
   the trace of READS, WRITES and critical sections of a schedule, the shape `race_overtaken` read off it, and an
   exhaustive explorer of the dispatcher of Model/Server.v (every schedule from a given system).
   Executable definitions only (no proofs); extracted with the C09 driver.

   Events (in the order the schedule executes them):
     XReadU id / XReadF id      update_document of handler id reads the user / the file dictionary
     XWriteU chg / XWriteF u chg  save_dict of an add-word command renames the new file in (chg: the file changed)
     XUpd id u t eff snap reb   handler id reaches the critical section of update_document(u, t, ..): eff = it
                                leaves u's entry with text t (not outdated, the entry exists or is created),
                                snap = the settings it copied, reb = it builds a new linter (with snap)
     XRebuild c ks              did_change_configuration rebuilds the linter of every document of ks with settings c
     XPub u c                   publish_diagnostics(u) with severity settings c
   The shape for a document u (plain text / markdown) that is open at the end with newest text tn, final settings cF:
     its last word is WRONG iff
       the LAST effective critical section of u does not carry tn                         (text overtaken)
    or a dictionary file of u is changed after that handler read it                      (dictionary overtaken)
    or that critical section copied settings other than cF                               (parser settings overtaken)
    or the last linter built for u (critical section with reb / XRebuild) has settings other than cF
    or the last publication of u was sent under severity settings other than cF. *)
Require Import Base Server C09Batch C09Seq.

Inductive xevent :=
| XReadU (id : nat)
| XReadF (id : nat)
| XWriteU (chg : bool)
| XWriteF (u : url) (chg : bool)
| XUpd (id : nat) (u : url) (t : text) (eff : bool) (snap : cfg) (reb : bool)
| XRebuild (c : cfg) (ks : list url)
| XPub (u : url) (c : cfg).

(* what IUpdate is about to do (Server.exec, IUpdate) *)
Definition upd_entry0 (l : locals) (w : world) : entry :=
  match lookup (l_url l) (s_docs w) with
  | Some e => e
  | None => new_entry (l_lang l) (mkdict (l_ud l) (l_fd l) 0) (l_snap l)
  end.
Definition upd_eff (l : locals) (w : world) : bool :=
  let e0 := upd_entry0 l w in
  negb (stale (l_ver l) (e_ver e0)) &&
  match e_lang e0 with Some lg => sq_has_parser lg | None => false end.
Definition upd_reb (l : locals) (w : world) : bool :=
  match lookup (l_url l) (s_docs w) with
  | Some e => negb (dictv_eqb (e_base e) (mkdict (l_ud l) (l_fd l) 0))
  | None => true
  end.

Definition xevents (c : choice) (y : sys) : list xevent :=
  match c with
  | CAdmit => []
  | CRun id =>
      match find_h id (y_flight y) with
      | Some hs =>
          let l := h_loc hs in
          let w := y_world y in
          match h_prog hs with
          | IReadUD :: _ => [XReadU id]
          | IReadFD :: _ => [XReadF id]
          | IWriteUD :: _ => [XWriteU (negb (list_eqb (add_word (l_word l) (l_ud l)) (w_udict w)))]
          | IWriteFD :: _ => [XWriteF (l_url l) (negb (list_eqb (add_word (l_word l) (l_fd l)) (fdict_of w (l_url l))))]
          | IUpdate :: _ =>
              match l_text l with
              | Some t => [XUpd id (l_url l) t (upd_eff l w) (l_snap l) (upd_reb l w)]
              | None => []
              end
          | ICfgRebuild _ :: _ => [XRebuild (s_cfg w) (keys (s_docs w))]
          | IPublish :: _ => [XPub (l_url l) (s_cfg w)]
          | _ => []
          end
      | None => []
      end
  end.

Fixpoint xtrace (cs : list choice) (y : sys) : list xevent :=
  match cs with
  | [] => []
  | c :: cs' => match step c y with Some y' => xevents c y ++ xtrace cs' y' | None => [] end
  end.

(* ---------- the shape ---------- *)
Definition eff_upd (u : url) (e : xevent) : bool :=
  match e with XUpd _ u' _ eff _ _ => url_eqb u' u && eff | _ => false end.

(* (events before, the last event satisfying p, events after) *)
Fixpoint split_last (p : xevent -> bool) (pre : list xevent) (tr : list xevent)
                    (best : option (list xevent * xevent * list xevent)) : option (list xevent * xevent * list xevent) :=
  match tr with
  | [] => best
  | e :: r => split_last p (e :: pre) r (if p e then Some (rev pre, e, r) else best)
  end.

(* the events after the last one satisfying p (all of them when there is none) *)
Fixpoint after_last (p : xevent -> bool) (l : list xevent) : list xevent :=
  match l with
  | [] => []
  | x :: r => if existsb p r then after_last p r else if p x then r else x :: r
  end.

Definition is_readU (id : nat) (e : xevent) : bool := match e with XReadU i => i =? id | _ => false end.
Definition is_readF (id : nat) (e : xevent) : bool := match e with XReadF i => i =? id | _ => false end.
Definition chg_writeU (e : xevent) : bool := match e with XWriteU chg => chg | _ => false end.
Definition chg_writeF (u : url) (e : xevent) : bool := match e with XWriteF u' chg => url_eqb u' u && chg | _ => false end.

(* the settings of the last linter built for u *)
Definition linter_of (u : url) (e : xevent) : option cfg :=
  match e with
  | XUpd _ u' _ eff snap reb => if url_eqb u' u && eff && reb then Some snap else None
  | XRebuild c ks => if mem_url u ks then Some c else None
  | _ => None
  end.
Definition pub_of (u : url) (e : xevent) : option cfg :=
  match e with XPub u' c => if url_eqb u' u then Some c else None | _ => None end.
Fixpoint last_some {A} (f : xevent -> option A) (tr : list xevent) (d : option A) : option A :=
  match tr with
  | [] => d
  | e :: r => last_some f r (match f e with Some a => Some a | None => d end)
  end.

Record race_flags := mkflags { rf_text : bool; rf_dict : bool; rf_pcfg : bool; rf_lcfg : bool; rf_scfg : bool }.

(* w0: the world the batch starts in; wf: the world it ends in (only the CLIENT's part of wf is looked at:
   newest text, final settings); true = that component of u's last word is overtaken *)
Definition race_shape (w0 wf : world) (u : url) (tr : list xevent) : race_flags :=
  let cF := w_ccfg wf in
  let tn := match lookup u (w_open wf) with Some cd => Some (cd_text cd) | None => None end in
  let e0 := lookup u (s_docs w0) in
  let same_text (t : option text) := match t, tn with Some a, Some b => text_eqb a b | _, _ => false end in
  let best := split_last (eff_upd u) [] tr None in
  mkflags
    (negb (match best with
           | Some (_, XUpd _ _ t _ _ _, _) => same_text (Some t)
           | _ => same_text (match e0 with Some e => e_text e | None => None end)
           end))
    (match best with
     | Some (pre, XUpd id _ _ _ _ _, post) =>
         existsb chg_writeU (after_last (is_readU id) pre ++ post) ||
         existsb (chg_writeF u) (after_last (is_readF id) pre ++ post)
     | _ => existsb chg_writeU tr || existsb (chg_writeF u) tr
     end)
    (negb (match best with
           | Some (_, XUpd _ _ _ _ snap _, _) => snap =? cF
           | _ => match e0 with Some e => e_pcfg e =? cF | None => false end
           end))
    (negb (match last_some (linter_of u) tr (match e0 with Some e => Some (e_lcfg e) | None => None end) with
           | Some c => c =? cF
           | None => false
           end))
    (negb (match last_some (pub_of u) tr (match lastword w0 u with PDiag a => Some (a_scfg a) | PEmpty => None end) with
           | Some c => c =? cF
           | None => false
           end)).

Definition race_overtaken (w0 wf : world) (u : url) (tr : list xevent) : bool :=
  let f := race_shape w0 wf u tr in rf_text f || rf_dict f || rf_pcfg f || rf_lcfg f || rf_scfg f.

(* ---------- the class ---------- *)
(* messages of a race batch, relative to the client's final copy cd of u: didOpen / didChange (of u: as sess_op),
   add-word commands, configuration changes *)
Definition race_op (u : url) (cd : cdoc) (o : op) : bool :=
  match o with
  | Open _ _ _ _ | Change _ _ _ => sess_op u cd o
  | AddUser _ _ | AddFile _ _ | CfgChange _ _ => true
  | _ => false
  end.
Definition has_cmd (o : op) : bool :=
  match o with AddUser _ _ | AddFile _ _ | CfgChange _ _ => true | _ => false end.
(* u: plain text / markdown, open at the end; at the start closed, or open with an up-to-date entry and last word *)
Definition race_okb (w0 : world) (h : list op) (u : url) : bool :=
  match lookup u (w_open (client_after h w0)) with
  | Some cd =>
      match kind (cd_lang cd) with
      | KPlain =>
          forallb (race_op u cd) h && init_okb w0 u cd &&
          match lookup u (w_open w0) with
          | Some _ => freshb w0 u && negb (lagb w0 u) && match lookup u (s_docs w0) with Some _ => true | None => false end
          | None => match lookup u (s_docs w0) with Some _ => false | None => true end
          end
      | _ => false
      end
  | None => false
  end.

(* ---------- every schedule ---------- *)
Definition enabled (y : sys) : list choice := CAdmit :: map (fun hs => CRun (h_id hs)) (y_flight y).

(* P holds of (trace, final system) at every quiescent end of every schedule from y; None: fuel exhausted.
   acc: the events so far, newest first *)
Fixpoint check_all (fuel : nat) (P : list xevent -> sys -> bool) (acc : list xevent) (y : sys) : option bool :=
  match fuel with
  | 0 => None
  | S f =>
      if quiescentb y then Some (P (rev acc) y)
      else fold_left (fun r c =>
                        match r with
                        | Some true =>
                            match step c y with
                            | Some y' => check_all f P (rev (xevents c y) ++ acc) y'
                            | None => Some true
                            end
                        | _ => r
                        end) (enabled y) (Some true)
  end.

(* how many schedules end quiescent (for the Examples: the statement is not vacuous) and how many of them satisfy Q *)
Fixpoint count_all (fuel : nat) (Q : list xevent -> sys -> bool) (acc : list xevent) (y : sys) : N * N :=
  match fuel with
  | 0 => (0%N, 0%N)
  | S f =>
      if quiescentb y then (1%N, if Q (rev acc) y then 1%N else 0%N)
      else fold_left (fun r c =>
                        match step c y with
                        | Some y' => let s := count_all f Q (rev (xevents c y) ++ acc) y' in (N.add (fst r) (fst s), N.add (snd r) (snd s))
                        | None => r
                        end) (enabled y) (0%N, 0%N)
  end.

(* driver: the trace of a client-interaction schedule, through its expansion *)
Definition race_krun (w0 : world) (h : list op) (ks : list kchoice) : option (sys * list xevent) :=
  match kexpand ks (init h w0) with
  | Some cs => match run cs (init h w0) with Some y => Some (y, xtrace cs (init h w0)) | None => None end
  | None => None
  end.
