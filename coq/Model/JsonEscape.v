(* JsonEscape.v — how serde_json 1.0.140 writes and reads a JSON string, at the level it works on: BYTES.
   Mirrors serde_json/src/ser.rs (format_escaped_str_contents, the 256-entry ESCAPE table, write_char_escape)
   and serde_json/src/read.rs (parse_str_bytes, parse_escape, parse_unicode_escape with validate = true,
   decode_hex_escape), plus Rust's UTF-8 encoding / validation (char::encode_utf8, str::from_utf8).
   byte = N, code point = N, no proofs here. *)
Require Import Base.
Local Open Scope N_scope.

Definition byte := N.
Definition bytes := list byte.

(* ---------- UTF-8 ---------- *)
(* char::encode_utf8 *)
Definition utf8_enc_char (c : N) : bytes :=
  if c <? 128 then [c]
  else let q1 := c / 64 in
    if c <? 2048 then [192 + q1; 128 + c mod 64]
    else let q2 := q1 / 64 in
      if c <? 65536 then [224 + q2; 128 + q1 mod 64; 128 + c mod 64]
      else let q3 := q2 / 64 in [240 + q3; 128 + q2 mod 64; 128 + q1 mod 64; 128 + c mod 64].

Definition utf8_enc (s : text) : bytes := flat_map utf8_enc_char s.

(* a Rust `char`: a Unicode scalar value *)
Definition scalarb (c : N) : bool := (c <? 55296) || ((57344 <=? c) && (c <? 1114112)).
Definition scalar (c : N) : Prop := c < 55296 \/ (57344 <= c /\ c < 1114112).

Definition is_cont (b : byte) : bool := (128 <=? b) && (b <? 192).

(* str::from_utf8 followed by .chars(): None = invalid UTF-8 (overlong forms, surrogates, > U+10FFFF,
   stray continuation bytes, truncated sequences, bytes F8..FF are all rejected) *)
Fixpoint utf8_dec (bs : bytes) : option text :=
  match bs with
  | [] => Some []
  | b0 :: t =>
    if b0 <? 128 then option_map (cons b0) (utf8_dec t)
    else if b0 <? 192 then None
    else if b0 <? 224 then
      match t with
      | b1 :: t1 =>
        if is_cont b1 then
          let c := (b0 - 192) * 64 + (b1 - 128) in
          if 128 <=? c then option_map (cons c) (utf8_dec t1) else None
        else None
      | _ => None
      end
    else if b0 <? 240 then
      match t with
      | b1 :: b2 :: t2 =>
        if is_cont b1 && is_cont b2 then
          let c := ((b0 - 224) * 64 + (b1 - 128)) * 64 + (b2 - 128) in
          if (2048 <=? c) && scalarb c then option_map (cons c) (utf8_dec t2) else None
        else None
      | _ => None
      end
    else if b0 <? 248 then
      match t with
      | b1 :: b2 :: b3 :: t3 =>
        if is_cont b1 && is_cont b2 && is_cont b3 then
          let c := (((b0 - 240) * 64 + (b1 - 128)) * 64 + (b2 - 128)) * 64 + (b3 - 128) in
          if (65536 <=? c) && (c <? 1114112) then option_map (cons c) (utf8_dec t3) else None
        else None
      | _ => None
      end
    else None
  end.

(* ---------- writing a string (ser.rs) ---------- *)
(* HEX_DIGITS = b"0123456789abcdef" *)
Definition hexdig (n : N) : byte := if n <? 10 then 48 + n else 87 + n.

(* the class serde_json's ESCAPE table assigns to a byte: 0 = not escaped, otherwise the letter written
   after the backslash ('u' = 117 for the \u00XX form).  Compared entry by entry with the table read from
   the serde_json sources in Proofs/StatsProofs.v (escape_class_matches_serde_table). *)
Definition escape_class (b : byte) : N :=
  if b =? 34 then 34            (* QU  backslash quote *)
  else if b =? 92 then 92       (* BS  \\  *)
  else if b =? 8 then 98        (* BB  \b  *)
  else if b =? 9 then 116       (* TT  \t  *)
  else if b =? 10 then 110      (* NN  \n  *)
  else if b =? 12 then 102      (* FF  \f  *)
  else if b =? 13 then 114      (* RR  \r  *)
  else if b <? 32 then 117      (* UU  \u00XX *)
  else 0.                       (* __  verbatim, bytes >= 0x80 included *)

(* write_char_escape / write_string_fragment for one byte *)
Definition escape_byte (b : byte) : bytes :=
  let k := escape_class b in
  if k =? 0 then [b]
  else if k =? 117 then [92; 117; 48; 48; hexdig (b / 16); hexdig (b mod 16)]
  else [92; k].

Definition escape_bytes (bs : bytes) : bytes := flat_map escape_byte bs.

(* serde_json::to_string(&str) / serialize_str: quote, escaped contents of the UTF-8 bytes, quote *)
Definition ser_str (s : text) : bytes := 34 :: escape_bytes (utf8_enc s) ++ [34].

(* ---------- reading a string (read.rs) ---------- *)
(* decode_hex_escape accepts 0-9 a-f A-F *)
Definition hexval (b : byte) : option N :=
  if (48 <=? b) && (b <=? 57) then Some (b - 48)
  else if (97 <=? b) && (b <=? 102) then Some (b - 87)
  else if (65 <=? b) && (b <=? 70) then Some (b - 55)
  else None.

Definition hex4 (a b c d : byte) : option N :=
  match hexval a, hexval b, hexval c, hexval d with
  | Some x, Some y, Some z, Some w => Some (((x * 16 + y) * 16 + z) * 16 + w)
  | _, _, _, _ => None
  end.

(* the one-character escapes of parse_escape *)
Definition simple_unescape (e : byte) : option byte :=
  if e =? 34 then Some 34 else if e =? 92 then Some 92 else if e =? 47 then Some 47
  else if e =? 98 then Some 8 else if e =? 102 then Some 12 else if e =? 110 then Some 10
  else if e =? 114 then Some 13 else if e =? 116 then Some 9 else None.

Definition prepend (pre : bytes) (r : option (bytes * bytes)) : option (bytes * bytes) :=
  match r with Some (body, rest) => Some (pre ++ body, rest) | None => None end.

(* parse_str_bytes with validate = true, entered just after the opening quote: returns the decoded bytes
   and what follows the closing quote.  None = any serde_json error (EOF inside the string, raw control
   character, invalid escape, bad hex digit, lone or unpaired surrogate). *)
Fixpoint unescape_body (s : bytes) : option (bytes * bytes) :=
  match s with
  | [] => None                                            (* EofWhileParsingString *)
  | c :: t =>
    if c =? 34 then Some ([], t)
    else if c =? 92 then
      match t with
      | [] => None
      | e :: t1 =>
        if e =? 117 then
          match t1 with
          | a :: b :: c1 :: d :: t2 =>
            match hex4 a b c1 d with
            | None => None
            | Some n =>
              if (56320 <=? n) && (n <=? 57343) then None          (* lone trailing surrogate *)
              else if (n <? 55296) || (56319 <? n) then prepend (utf8_enc_char n) (unescape_body t2)
              else                                                  (* leading surrogate: \uXXXX must follow *)
                match t2 with
                | b5 :: u5 :: a2 :: b2 :: c2 :: d2 :: t3 =>
                  if (b5 =? 92) && (u5 =? 117) then
                    match hex4 a2 b2 c2 d2 with
                    | None => None
                    | Some n2 =>
                      if (56320 <=? n2) && (n2 <=? 57343)
                      then prepend (utf8_enc_char (((n - 55296) * 1024 + (n2 - 56320)) + 65536)) (unescape_body t3)
                      else None
                    end
                  else None
                | _ => None
                end
            end
          | _ => None
          end
        else
          match simple_unescape e with
          | Some v => prepend [v] (unescape_body t1)
          | None => None                                            (* InvalidEscape *)
          end
      end
    else if c <? 32 then None                             (* ControlCharacterWhileParsingString *)
    else prepend [c] (unescape_body t)
  end.

(* JSON whitespace, skipped by from_str before the value and required to be all that follows it *)
Definition is_ws (b : byte) : bool := (b =? 32) || (b =? 10) || (b =? 9) || (b =? 13).
Fixpoint skip_ws (s : bytes) : bytes :=
  match s with
  | b :: t => if is_ws b then skip_ws t else s
  | [] => []
  end.

(* serde_json::from_slice::<String> = validate UTF-8 of what the escapes and verbatim bytes produced *)
Definition de_str (bs : bytes) : option text :=
  match skip_ws bs with
  | q :: t =>
    if q =? 34 then
      match unescape_body t with
      | Some (body, rest) => match skip_ws rest with [] => utf8_dec body | _ => None end
      | None => None
      end
    else None
  | [] => None
  end.

(* ---------- a serialised record as serde writes it: fixed fragments and escaped strings ---------- *)
(* Everything serde_json writes for a Record that is not a string value or a map key written through
   serialize_str — punctuation, field names, numbers, true/false/null, the hyphenated uuid — is a `Lit`;
   the harness checks on every real record that those fragments consist of bytes 0x20..0x7E only. *)
Inductive piece := Lit (bs : bytes) | Str (s : text).

Definition render_piece (p : piece) : bytes :=
  match p with Lit bs => bs | Str s => ser_str s end.
Definition render (ps : list piece) : bytes := flat_map render_piece ps.

Definition printableb (b : byte) : bool := (32 <=? b) && (b <? 127).
Definition lit_okb (p : piece) : bool :=
  match p with Lit bs => forallb printableb bs | Str _ => true end.

(* entry points for the extracted driver *)
Definition run_ser_str (s : text) : bytes := ser_str s.
Definition run_de_str (bs : bytes) : option text := de_str bs.
Definition run_utf8_dec (bs : bytes) : option text := utf8_dec bs.
Definition run_render (ps : list piece) : bytes := render ps.
