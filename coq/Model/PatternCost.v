(* PatternCost.v — the same evaluator as Pattern.matches, instrumented with a step counter.
   A step is one call of some `Pattern::matches` (one node visit) plus, for the impls that scan
   tokens themselves (WhitespacePattern, NominalPhrase, the slice/hull of IsNotTitleCase), one per
   token on offer.  Closures and oracles (edit distance, title case, dictionary) count as one step:
   their own cost belongs to C15/C18/C06.
   Proofs/PatternCostProofs.v shows that erasing the counter gives back Pattern.matches exactly and
   bounds the counter by a polynomial in the number of tokens.   No proofs here. *)
Require Import Base Overlap TokenSeq Pattern.

Definition rc (A : Type) : Type := (res A * nat)%type.
Definition lift {A} (r : res A) : rc A := (r, 0).
Definition tick {A} (n : nat) (r : rc A) : rc A := (fst r, n + snd r).
Definition bindc {A B} (r : rc A) (k : A -> rc B) : rc B :=
  match fst r with
  | Ok a => (fst (k a), snd r + snd (k a))
  | Panic w => (Panic w, snd r)
  end.

Section CombinatorsC.
  Variable P : Type.
  Variable mc : P -> list tok -> rc nat.

  Fixpoint seq_go_c (toks : list tok) (ps : list P) (cursor : nat) : rc nat :=
    match ps with
    | [] => lift (Ok cursor)
    | q :: r =>
        bindc (lift (slice_from toks cursor)) (fun rest =>
        bindc (mc q rest) (fun n =>
        if n =? 0 then lift (Ok 0) else seq_go_c toks r (cursor + n)))
    end.

  Fixpoint either_go_c (toks : list tok) (ps : list P) (longest : nat) : rc nat :=
    match ps with
    | [] => lift (Ok longest)
    | q :: r => bindc (mc q toks) (fun n => either_go_c toks r (if longest <? n then n else longest))
    end.

  Fixpoint all_go_c (toks : list tok) (ps : list P) (mx : nat) : rc nat :=
    match ps with
    | [] => lift (Ok mx)
    | q :: r => bindc (mc q toks) (fun n => if n =? 0 then lift (Ok 0) else all_go_c toks r (if mx <? n then n else mx))
    end.

  Fixpoint first_go_c (toks : list tok) (ps : list P) : rc nat :=
    match ps with
    | [] => lift (Ok 0)
    | q :: r => bindc (mc q toks) (fun n => if n =? 0 then first_go_c toks r else lift (Ok n))
    end.

  Section RepC.
    Variable q : P.
    Variable required : nat.
    Variable toks : list tok.
    Fixpoint rep_go_c (fuel cursor repetition : nat) : rc nat :=
      match fuel with
      | 0 => lift (Panic PFuel)
      | S f =>
          bindc (lift (slice_from toks cursor)) (fun rest =>
          bindc (mc q rest) (fun n =>
          if n =? 0 then (if required <=? repetition then lift (Ok cursor) else lift (Ok 0))
          else rep_go_c f (cursor + n) (S repetition)))
      end.
  End RepC.

  Fixpoint keyed_go_c {K} (hit : K -> bool) (toks : list tok) (l : list (K * P)) : rc nat :=
    match l with
    | [] => lift (Ok 0)
    | (k, q) :: r => if hit k then mc q toks else keyed_go_c hit toks r
    end.
End CombinatorsC.

Section MatchesC.
  Variable leaf : nat -> tok -> text -> res bool.
  Variable oracle : nat -> list tok -> text -> res bool.

  Fixpoint matches_c (p : pat) (toks : list tok) (src : text) {struct p} : rc nat :=
    tick 1
    match p with
    | PPred i => lift (m_pred leaf i toks src)
    | PFlag b => lift (m_flag b toks)
    | PExactWord w => lift (m_exact_word w toks src)
    | PAny => lift (m_any toks)
    | PWhitespace => tick (length toks) (lift (Ok (ws_go toks)))
    | PAnyCap w => lift (m_anycap w toks src)
    | PWordSet ws => lift (m_wordset ws toks src)
    | PWithinEdit o => lift (m_within_edit oracle o toks src)
    | PImpliesQuantity => lift (m_implies toks src)
    | PNominal => tick (length toks) (lift (Ok (nominal_go toks 0)))
    | PSeq ps => seq_go_c pat (fun q ts => matches_c q ts src) toks ps 0
    | PEither ps => either_go_c pat (fun q ts => matches_c q ts src) toks ps 0
    | PAll ps => all_go_c pat (fun q ts => matches_c q ts src) toks ps 0
    | PNaive ps => first_go_c pat (fun q ts => matches_c q ts src) toks ps
    | PMap ps => first_go_c pat (fun q ts => matches_c q ts src) toks ps
    | PRepeat q required => rep_go_c pat (fun q ts => matches_c q ts src) q required toks (rep_fuel toks) 0 0
    | PInvert q =>
        match toks with
        | [] => lift (Ok 0)
        | _ => bindc (matches_c q toks src) (fun n => lift (Ok (if n =? 0 then 1 else 0)))
        end
    | PConsumes q =>
        bindc (matches_c q toks src) (fun n => lift (Ok (if n =? length toks then n else 0)))
    | PNotTitle q o =>
        bindc (matches_c q toks src) (fun n =>
        if n =? 0 then lift (Ok 0)
        else tick (length toks)
             (lift (do sl <- slice_chk toks 0 n;
                    do sp <- hull_unwrap sl;
                    do _c <- get_content sp src;
                    do differs <- oracle o sl src;
                    Ok (if differs then n else 0))))
    | PExactPhrase ps => seq_go_c pat (fun q ts => matches_c q ts src) toks ps 0
    | PIndefArticle => tick 2 (lift (m_indef_article toks src))
    | PSimilar ps fs =>
        bindc (seq_go_c pat (fun q ts => matches_c q ts src) toks ps 0) (fun exact =>
        bindc (seq_go_c pat (fun q ts => matches_c q ts src) toks fs 0) (fun fuzzy =>
        lift (Ok (if (exact =? 0) && (0 <? fuzzy) then Nat.max exact fuzzy else 0))))
    | PSplitCompound o => tick (3 + length toks) (lift (m_split_compound oracle o toks src))
    | PKindGroup m =>
        match toks with
        | [] => lift (Ok 0)
        | t :: _ => keyed_go_c pat (fun q ts => matches_c q ts src) (fun k => k =? tkid t) toks m
        end
    | PWordGroup m =>
        match toks with
        | [] => lift (Ok 0)
        | t :: _ =>
            if negb (flag F_WORD t) then lift (Ok 0)
            else bindc (lift (get_content (tspan t) src)) (fun c =>
                 keyed_go_c pat (fun q ts => matches_c q ts src) (fun k => text_eqb k c) toks m)
        end
    end.
End MatchesC.

(* run_on_chunk with the counter: one step per round of the loop plus the steps of the match *)
Section LoopC.
  Variable mfc : list tok -> rc nat.
  Fixpoint roc_loop_c (chunk : list tok) (fuel cursor : nat) : rc (list (nat * nat)) :=
    match fuel with
    | 0 => lift (Panic PFuel)
    | S f =>
        tick 1
        (if length chunk <=? cursor then lift (Ok [])
         else
           bindc (lift (slice_from chunk cursor)) (fun rest =>
           bindc (mfc rest) (fun n =>
           if negb (n =? 0) then
             bindc (lift (slice_chk chunk cursor (cursor + n))) (fun _m =>
             bindc (roc_loop_c chunk f (cursor + n)) (fun tl =>
             lift (Ok ((cursor, cursor + n) :: tl))))
           else roc_loop_c chunk f (cursor + 1))))
    end.
End LoopC.

(* ---------- the bound ---------- *)
Definition sum_map {A} (f : A -> nat) (l : list A) : nat := fold_right (fun x a => f x + a) 0 l.
Definition max_map {A} (f : A -> nat) (l : list A) : nat := fold_right (fun x a => Nat.max (f x) a) 0 l.

(* number of nodes (fixed inner sequences of IndefiniteArticle / SplitCompoundWord included) *)
Fixpoint psize (p : pat) : nat :=
  match p with
  | PSeq ps | PEither ps | PAll ps | PNaive ps | PMap ps | PExactPhrase ps => 1 + sum_map psize ps
  | PRepeat q _ | PInvert q | PConsumes q => 1 + psize q
  | PNotTitle q _ => 2 + psize q
  | PSimilar ps fs => 1 + sum_map psize ps + sum_map psize fs
  | PKindGroup m => 1 + sum_map (fun kq => psize (snd kq)) m
  | PWordGroup m => 1 + sum_map (fun kq => psize (snd kq)) m
  | PIndefArticle => 3
  | PSplitCompound _ => 4
  | _ => 1
  end.

(* nesting depth of RepeatingPattern: the degree of the polynomial *)
Fixpoint rdepth (p : pat) : nat :=
  match p with
  | PSeq ps | PEither ps | PAll ps | PNaive ps | PMap ps | PExactPhrase ps => max_map rdepth ps
  | PRepeat q _ => S (rdepth q)
  | PInvert q | PConsumes q | PNotTitle q _ => rdepth q
  | PSimilar ps fs => Nat.max (max_map rdepth ps) (max_map rdepth fs)
  | PKindGroup m => max_map (fun kq => rdepth (snd kq)) m
  | PWordGroup m => max_map (fun kq => rdepth (snd kq)) m
  | _ => 0
  end.

(* steps allowed for `p` on n tokens *)
Fixpoint cost (p : pat) (n : nat) : nat :=
  match p with
  | PSeq ps | PEither ps | PAll ps | PNaive ps | PMap ps | PExactPhrase ps => 1 + sum_map (fun q => cost q n) ps
  | PRepeat q _ => 1 + (n + 2) * cost q n
  | PInvert q | PConsumes q => 1 + cost q n
  | PNotTitle q _ => 1 + n + cost q n
  | PSimilar ps fs => 1 + sum_map (fun q => cost q n) ps + sum_map (fun q => cost q n) fs
  | PKindGroup m => 1 + sum_map (fun kq => cost (snd kq) n) m
  | PWordGroup m => 1 + sum_map (fun kq => cost (snd kq) n) m
  | PWhitespace | PNominal => 1 + n
  | PIndefArticle => 3
  | PSplitCompound _ => 4 + n
  | _ => 1
  end.
