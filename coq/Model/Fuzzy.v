(* Fuzzy.v — the fuzzy searches: MutableDictionary::fuzzy_match (mutable_dictionary.rs),
   FstDictionary::fuzzy_match (fst_dictionary.rs), MergedDictionary::fuzzy_match
   (merged_dictionary.rs).  No proofs here.

   Third-party: fst::Map::search_with_state(&dfa).into_stream() with a levenshtein_automata DFA is
   the Section variable `stream`; its contract (`spec_stream`: exactly the words within the bound,
   each with its exact distance, in index = lexicographic order) is a Section hypothesis of
   Proofs/FuzzyProofs.v and is what the extracted driver instantiates it with. *)
Require Import Base EditDistance DictModel.

Fixpoint map_res {A B} (f : A -> res B) (l : list A) : res (list B) :=
  match l with
  | [] => Ok []
  | x :: rest => do y <- f x; do ys <- map_res f rest; Ok (y :: ys)
  end.

Fixpoint enum_from {A} (i : nat) (l : list A) : list (nat * A) :=
  match l with
  | [] => []
  | x :: rest => (i, x) :: enum_from (S i) rest
  end.

(* contract of the automaton stream over the sorted word list `words` for the query string x and
   bound d: pairs (index, distance) of exactly the words within distance d, in index order *)
Definition spec_stream (levf : text -> text -> nat) (words : list (text * meta)) (x : text) (d : nat)
  : list (nat * nat) :=
  flat_map (fun iw => let e := levf x (fst (snd iw)) in if e <=? d then [(fst iw, e)] else [])
           (enum_from 0 words).

(* the same stream computed with a length pre-filter (a word whose length differs from the query's by
   more than d cannot be within distance d: lev_len) — what the extracted driver runs;
   spec_stream_fast_eq (Proofs/FuzzyProofs.v) proves it equal to spec_stream lev *)
Definition spec_stream_fast (levf : text -> text -> nat) (words : list (text * meta)) (x : text) (d : nat)
  : list (nat * nat) :=
  let n := length x in
  flat_map (fun iw => let w := fst (snd iw) in
                      if (n + d <? length w) || (length w + d <? n) then []
                      else let e := levf x w in if e <=? d then [(fst iw, e)] else [])
           (enum_from 0 words).

Definition dist_le (a b : fres) : bool := r_dist a <=? r_dist b.
(* |a, b| a.1.cmp(&b.1).then_with(|| a.0.cmp(b.0)) on (word, distance) pairs (fix 5a329ea): a total order,
   two pairs compare Equal only when they are the same pair — the (unstable) sort has ONE possible outcome *)
Definition scored_le (a b : text * nat) : bool :=
  if snd a <? snd b then true else if snd a =? snd b then text_leb (fst a) (fst b) else false.
Definition word_le (a b : fres) : bool := text_leb (r_word a) (r_word b).
Definition same_word (a b : fres) : bool := text_eqb (r_word a) (r_word b).

Section Fuzzy.
  Variable is_lower : char -> bool.
  Variable lower : char -> list char.
  Variable dbg : bool.                                   (* debug assertions + overflow checks *)
  Variable stream : list (text * meta) -> text -> nat -> list (nat * nat).

  (* ---------- MutableDictionary::fuzzy_match ---------- *)
  (* the filter_map closure over the candidate words; buf_a / buf_b are threaded through the calls *)
  Fixpoint mut_scan (qn ql : text) (d : nat) (ws : list text) (ba bb : list nat)
    : res (list (text * nat)) :=
    match ws with
    | [] => Ok []
    | w :: rest =>
        do '(dist, ba1, bb1) <- wf_min_alloc dbg qn w ba bb;
        do '(ldist, ba2, bb2) <- wf_min_alloc dbg ql w ba1 bb1;
        let smaller := Nat.min dist ldist in
        do tl <- mut_scan qn ql d rest ba2 bb2;
        Ok (if smaller <=? d then (w, smaller) :: tl else tl)
    end.

  Definition in_window (qlen d : nat) (w : text) : bool :=
    let shortest := if qlen <=? d then 1 else qlen - d in
    let longest := qlen + d in
    (shortest <=? length w) && (length w <=? longest).

  Definition mut_fuzzy (m : wordmap) (q : text) (d k : nat) : res (list fres) :=
    let qn := normalized q in
    let ql := to_lower is_lower lower qn in
    let cands := filter (in_window (length qn) d) (mut_words m) in
    do scored <- mut_scan qn ql d cands [] [];
    let top := firstn k (isort scored_le scored) in        (* sorted_unstable_by((distance, word)).take(k) *)
    map_res (fun wd =>
               match mut_meta is_lower lower m (fst wd) with            (* .unwrap() *)
               | Some md => Ok (mkfres (fst wd) (snd wd) md)
               | None => Panic PUnwrap
               end) top.

  (* ---------- FstDictionary::fuzzy_match ---------- *)
  (* the zip loop: positions pair up, the smaller distance of each pair is kept (ties: upper) *)
  Definition zip_choose (ul : (nat * nat) * (nat * nat)) : nat * nat :=
    let '((iu, du), (il, dl)) := ul in if du <=? dl then (iu, du) else (il, dl).

  Definition fst_merged (f : fst_dict) (qn lq : text) (d : nat) : res (list fres) :=
    let upper := stream (f_words f) qn d in
    let lower_ := stream (f_words f) lq d in
    map_res (fun ul => let '(ci, ed) := zip_choose ul in
                       do wm <- nth_chk (f_words f) ci;                  (* self.words[chosen_index] *)
                       Ok (mkfres (fst wm) ed (snd wm)))
            (combine upper lower_).

  (* lq = String::to_lowercase of the normalised query (std's, supplied by the caller) *)
  Definition fst_fuzzy (f : fst_dict) (q lq : text) (d k : nat) : res (list fres) :=
    let qn := normalized q in
    do merged <- fst_merged f qn lq d;
    let by_word := isort word_le merged in                 (* sort_unstable_by_key(|v| v.word) *)
    let dd := dedup_by same_word by_word in                (* dedup_by_key(|v| v.word) *)
    let by_dist := isort dist_le dd in                     (* sort_unstable_by_key(|v| v.edit_distance) *)
    Ok (firstn k by_dist).                                 (* truncate(max_results) *)

  (* ---------- the three back-ends as `dyn Dictionary` ---------- *)
  Definition mut_ops (m : wordmap) : dict_ops :=
    mkops (mut_contains is_lower lower m) (mut_exact is_lower lower m) (mut_meta is_lower lower m)
          (mut_canon is_lower lower m) (mut_from_id m)
          (fun q _ d k => mut_fuzzy m q d k) (mut_words m) (length m).

  Definition fst_ops (f : fst_dict) : dict_ops :=
    mkops (fst_contains is_lower lower f) (fst_exact is_lower lower f) (fst_meta is_lower lower f)
          (fst_canon is_lower lower f) (fst_from_id f)
          (fst_fuzzy f) (fst_words_iter f) (length (f_full f)).

  (* MergedDictionary::fuzzy_match: flat_map over the children (each already capped), a stable
     sort by distance, take(max_results) *)
  Fixpoint concat_res {A} (l : list (res (list A))) : res (list A) :=
    match l with
    | [] => Ok []
    | r :: rest => do x <- r; do xs <- concat_res rest; Ok (x ++ xs)
    end.

  Definition merged_fuzzy (cs : list dict_ops) (q lq : text) (d k : nat) : res (list fres) :=
    do all <- concat_res (map (fun c => d_fuzzy c q lq d k) cs);
    Ok (firstn k (isort dist_le all)).

  Definition merged_ops (cs : list dict_ops) : dict_ops :=
    mkops (merged_contains cs) (merged_exact cs) (merged_meta cs) (merged_canon cs) (merged_from_id cs)
          (merged_fuzzy cs) (merged_words cs) (merged_count cs).
End Fuzzy.

(* ---------- what `sort_unstable` leaves open: the admissible outcomes of FstDictionary::fuzzy_match ----------
   `merged` (the zip loop's output) is determined by the two streams.  The result then is
   truncate_k (sort_unstable_by distance (dedup_by word (sort_unstable_by word merged))): when a word
   occurs twice in `merged` with different distances, which occurrence survives the dedup — and, among
   equal distances, which results survive the cap — depends on the internals of the unstable sort.
   `fst_admissible merged k r` decides whether r is one of the possible outcomes:
     r is ordered by distance, its words are pairwise distinct, each of its entries is an entry of
     `merged`, it has min(k, number of distinct words) entries, and every word of `merged` that is
     absent from r has an occurrence that is at least as far as everything in r. *)
Definition fres_eqb (a b : fres) : bool :=
  text_eqb (r_word a) (r_word b) && (r_dist a =? r_dist b) && (r_meta a =? r_meta b).

Fixpoint sorted_by_dist (l : list fres) : bool :=
  match l with
  | [] => true
  | a :: rest => match rest with
                 | [] => true
                 | b :: _ => (r_dist a <=? r_dist b) && sorted_by_dist rest
                 end
  end.

Fixpoint words_nodup (l : list fres) : bool :=
  match l with
  | [] => true
  | a :: rest => negb (existsb (same_word a) rest) && words_nodup rest
  end.

Fixpoint nub_words (l : list fres) : list fres :=
  match l with
  | [] => []
  | a :: rest => if existsb (same_word a) rest then nub_words rest else a :: nub_words rest
  end.

Definition max_dist (l : list fres) : nat := fold_right (fun r m => Nat.max (r_dist r) m) 0 l.

Definition fst_admissible (merged : list fres) (k : nat) (r : list fres) : bool :=
  sorted_by_dist r && words_nodup r
  && forallb (fun x => existsb (fres_eqb x) merged) r
  && (length r =? Nat.min k (length (nub_words merged)))
  && forallb (fun m => existsb (same_word m) r
                       || existsb (fun m' => same_word m m' && (max_dist r <=? r_dist m')) merged) merged.
