(* C14Bytes.v — C14, phase 5: the BYTE STREAM that `#[derive(Hash)]` of LintContext feeds to the hasher, and the hasher.
   No proofs here.

   IgnoredLints::hash_lint_context:   let mut hasher = DefaultHasher::default(); context.hash(&mut hasher); hasher.finish()
   derive(Hash) visits the fields in declaration order and calls, in the end, only `Hasher::write*`:
     enum            isize discriminant (the variant's index: none of the enums involved has explicit discriminants or a
                     repr — pinned by tools/tables/hashstream.py)  -> write_isize -> 8 bytes, little endian;
                     then the fields of the variant.  Option<T> is such an enum (None = 0, Some = 1).
     Vec<T> / [T]    write_length_prefix(len) = write_usize(len) -> 8 bytes; then every element
     char            write_u32 -> 4 bytes                      u8  write_u8 -> 1 byte
     u32 / usize / u64   4 / 8 / 8 bytes
     String / str    write_str = the UTF-8 bytes, then the byte 0xFF
     OrderedFloat<f64>   ONE u64 (`bits.hash(state)`: the float's bits, NaN and zero canonicalised) — the model's
                     `value : N` of KNumber is that u64
   LintContext  { lint_kind: LintKind, suggestions: Vec<Suggestion>, message: String, priority: u8, tokens: Vec<FatToken> }
   FatToken     { content: Vec<char>, kind: TokenKind }        (content FIRST)
   Number       { value, suffix: Option<NumberSuffix>, radix: u32, precision: usize }
   Quote        { twin_loc: Option<usize> }
   The codes of the model's abstract fields, for this stream: `c_kind` = index of the LintKind variant; `KPunct p`:
   p < 64 = index of the (field-less) Punctuation variant, p >= 64 = Punctuation::Currency(c) with c's index = p - 64;
   `KNumber _ (Some s)`: s = index of the NumberSuffix variant.  (The other correspondence streams of C14 only compare
   these codes for equality; stream B dumps them in this form.)
   DefaultHasher::default() = SipHasher13 with keys (0, 0); a streaming hash: only the concatenation of the bytes
   written matters (monitored by the harness: hashing the recorded stream with ONE write gives the stored hash). *)
Require Import Base Suggestion Ignore.
Local Open Scope N_scope.

Definition bytes := list N.

(* uN::to_ne_bytes on a little-endian target: k bytes, least significant first *)
Fixpoint le (k : nat) (n : N) : bytes :=
  match k with
  | O => []
  | S k' => n mod 256 :: le k' (n / 256)
  end.
Definition le64 (n : N) : bytes := le 8 n.
Definition le32 (n : N) : bytes := le 4 n.
Definition usz (n : nat) : bytes := le64 (N.of_nat n).

(* ---------- discriminants (Proofs/C14BytesShape.v pins them to the tables regenerated from the Rust enums) ---------- *)
Definition d_tk_word : N := 0.
Definition d_tk_punct : N := 1.
Definition d_tk_decade : N := 2.
Definition d_tk_number : N := 3.
Definition d_tk_space : N := 4.
Definition d_tk_newline : N := 5.
Definition d_tk_email : N := 6.
Definition d_tk_url : N := 7.
Definition d_tk_hostname : N := 8.
Definition d_tk_unlintable : N := 9.
Definition d_tk_parbreak : N := 10.
Definition d_tk_regexish : N := 11.
Definition d_p_quote : N := 9.          (* Punctuation::Quote(Quote) *)
Definition d_p_currency : N := 31.      (* Punctuation::Currency(Currency) *)
Definition d_s_replace : N := 0.        (* Suggestion::ReplaceWith(Vec<char>) *)
Definition d_s_insert : N := 1.         (* Suggestion::InsertAfter(Vec<char>) *)
Definition d_s_remove : N := 2.         (* Suggestion::Remove *)

(* ---------- str::as_bytes: UTF-8 ---------- *)
Definition utf8 (c : N) : bytes :=
  if c <? 128 then [c]
  else if c <? 2048 then [192 + c / 64; 128 + c mod 64]
  else if c <? 65536 then let q := c / 64 in [224 + q / 64; 128 + q mod 64; 128 + c mod 64]
  else let q := c / 64 in let q2 := q / 64 in [240 + q2 / 64; 128 + q2 mod 64; 128 + q mod 64; 128 + c mod 64].
(* Hasher::write_str *)
Definition enc_str (s : text) : bytes := flat_map utf8 s ++ [255].
(* <[char] as Hash>: length prefix, then write_u32 per char *)
Definition enc_chars (s : text) : bytes := usz (length s) ++ flat_map le32 s.

Definition enc_opt_usize (o : option nat) : bytes :=
  match o with None => le64 0 | Some n => le64 1 ++ usz n end.
Definition enc_opt_n (o : option N) : bytes :=
  match o with None => le64 0 | Some n => le64 1 ++ le64 n end.

Definition enc_punct (p : N) : bytes :=
  if p <? 64 then le64 p else le64 d_p_currency ++ le64 (p - 64).

Definition enc_kind (k : tkind) : bytes :=
  match k with
  | KWord None => le64 d_tk_word ++ le64 0
    (* NOT the real stream (WordMetadata is not modelled); never reached: from_lint blanks the metadata, and
       `kind_wf` excludes it *)
  | KWord (Some m) => le64 d_tk_word ++ le64 1 ++ le64 m
  | KPunct p => le64 d_tk_punct ++ enc_punct p
  | KQuote t => le64 d_tk_punct ++ le64 d_p_quote ++ enc_opt_usize t
  | KDecade => le64 d_tk_decade
  | KNumber v s r p => le64 d_tk_number ++ le64 v ++ enc_opt_n s ++ le32 r ++ usz p
  | KSpace n => le64 d_tk_space ++ usz n
  | KNewline n => le64 d_tk_newline ++ usz n
  | KEmail => le64 d_tk_email
  | KUrl => le64 d_tk_url
  | KHostname => le64 d_tk_hostname
  | KUnlintable => le64 d_tk_unlintable
  | KParagraphBreak => le64 d_tk_parbreak
  | KRegexish => le64 d_tk_regexish
  end.

(* FatToken { content, kind } *)
Definition enc_ftok (f : ftok) : bytes := enc_chars (snd f) ++ enc_kind (fst f).

Definition enc_sugg (s : suggestion) : bytes :=
  match s with
  | ReplaceWith x => le64 d_s_replace ++ enc_chars x
  | InsertAfter x => le64 d_s_insert ++ enc_chars x
  | Remove => le64 d_s_remove
  end.

(* <LintContext as Hash>::hash *)
Definition enc_ctx (c : ctx) : bytes :=
  le64 (c_kind c)
  ++ (usz (length (c_sugg c)) ++ flat_map enc_sugg (c_sugg c))
  ++ enc_str (c_msg c)
  ++ [c_prio c]
  ++ (usz (length (c_toks c)) ++ flat_map enc_ftok (c_toks c)).

(* ---------- SipHash-1-3 (core::hash::sip::SipHasher13), keys k0 k1; DefaultHasher::default(): (0, 0) ---------- *)
Definition m64 : N := 18446744073709551616.
Definition add64 (a b : N) : N := (a + b) mod m64.
Definition rotl (x b : N) : N := N.lor (N.shiftl x b mod m64) (N.shiftr x (64 - b)).

Record sipst := mksip { v0 : N; v1 : N; v2 : N; v3 : N }.

Definition sipround (s : sipst) : sipst :=
  let '(mksip a b c d) := s in
  let a := add64 a b in let b := rotl b 13 in let b := N.lxor b a in let a := rotl a 32 in
  let c := add64 c d in let d := rotl d 16 in let d := N.lxor d c in
  let a := add64 a d in let d := rotl d 21 in let d := N.lxor d a in
  let c := add64 c b in let b := rotl b 17 in let b := N.lxor b c in let c := rotl c 32 in
  mksip a b c d.

Definition sip_init (k0 k1 : N) : sipst :=
  mksip (N.lxor k0 8317987319222330741) (N.lxor k1 7237128888997146477)
        (N.lxor k0 7816392313619706465) (N.lxor k1 8387220255154660723).

(* u64::from_le_bytes (a shorter list = the tail, padded with zeros) *)
Definition from_le (bs : bytes) : N := fold_right (fun b acc => b + 256 * acc) 0 bs.

(* one message word: v3 ^= m; 1 c-round; v0 ^= m *)
Definition sip_compress (s : sipst) (m : N) : sipst :=
  let s := sipround (mksip (v0 s) (v1 s) (v2 s) (N.lxor (v3 s) m)) in
  mksip (N.lxor (v0 s) m) (v1 s) (v2 s) (v3 s).

(* finish: b = (length & 0xff) << 56 | tail; one more word; v2 ^= 0xff; 3 d-rounds; v0 ^ v1 ^ v2 ^ v3 *)
Definition sip_finish (s : sipst) (tail : bytes) (len : N) : N :=
  let b := from_le tail + (len mod 256) * 72057594037927936 in
  let s := sip_compress s b in
  let s := mksip (v0 s) (v1 s) (N.lxor (v2 s) 255) (v3 s) in
  let s := sipround (sipround (sipround s)) in
  N.lxor (N.lxor (v0 s) (v1 s)) (N.lxor (v2 s) (v3 s)).

Fixpoint sip_blocks (s : sipst) (bs : bytes) (len : N) {struct bs} : N :=
  match bs with
  | b0 :: b1 :: b2 :: b3 :: b4 :: b5 :: b6 :: b7 :: r =>
      sip_blocks (sip_compress s (from_le [b0; b1; b2; b3; b4; b5; b6; b7])) r len
  | tail => sip_finish s tail len
  end.

Definition siphash13 (k0 k1 : N) (bs : bytes) : N := sip_blocks (sip_init k0 k1) bs (N.of_nat (length bs)).

(* DefaultHasher::default() over the derived Hash of LintContext: what IgnoredLints stores *)
Definition default_hasher (bs : bytes) : N := siphash13 0 0 bs.
Definition stored_hash (c : ctx) : N := default_hasher (enc_ctx c).

(* ---------- "every value fits its Rust type" (decidable; the driver evaluates it on every case of stream B) ---------- *)
Definition u64b (n : N) : bool := n <? m64.
Definition u32b (n : N) : bool := n <? 4294967296.
Definition uszb (n : nat) : bool := u64b (N.of_nat n).
Definition charsb (s : text) : bool := uszb (length s) && forallb u32b s.
Definition punct_wfb (p : N) : bool :=
  if p <? 64 then negb (p =? d_p_quote) && negb (p =? d_p_currency) else u64b (p - 64).
Definition kind_wfb (k : tkind) : bool :=
  match k with
  | KWord None => true
  | KWord (Some _) => false
  | KPunct p => punct_wfb p
  | KQuote None => true
  | KQuote (Some n) => uszb n
  | KNumber v s r p => u64b v && match s with None => true | Some x => u64b x end && u32b r && uszb p
  | KSpace n | KNewline n => uszb n
  | _ => true
  end.
Definition ftok_wfb (f : ftok) : bool := charsb (snd f) && kind_wfb (fst f).
Definition sugg_wfb (s : suggestion) : bool :=
  match s with ReplaceWith x | InsertAfter x => charsb x | Remove => true end.
Definition scalarb (c : N) : bool := c <? 1114112.
Definition ctx_wfb (c : ctx) : bool :=
  u64b (c_kind c) && uszb (length (c_sugg c)) && forallb sugg_wfb (c_sugg c) && forallb scalarb (c_msg c)
  && (c_prio c <? 256) && uszb (length (c_toks c)) && forallb ftok_wfb (c_toks c).

(* ---------- driver entry (stream B): the context, its stream, the stored hash ---------- *)
Definition run_bytes (l : ilint) (d : doc) : option (bool * bytes * bytes) :=
  match context l d with
  | Ok c => Some (ctx_wfb c, enc_ctx c, le64 (stored_hash c))
  | Panic _ => None
  end.
