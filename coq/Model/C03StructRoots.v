(* C03StructRoots.v (phase 6) — the span sources of the WHOLE-DOCUMENT (struct) rules' bodies: every
   `impl Linter for X { fn lint(&mut self, D: &Document) }` of harper-core/src/linting/*.rs (the framework files
   lint_group.rs / pattern_linter.rs / merge_linters.rs excluded).  tools/tables/c03structroots.py parses, on every run, the
   `span` of every `Lint { .. }` such a rule can construct (in `fn lint` or in a helper of the same file that `fn lint`
   calls) into the language below and records the ROOT of the tokens it is built from: Model/Tables_c03structroots.v.

     Rust (T, T1, T2 token variables; S a token slice)                        here        side condition for "inside the document"
     T.span                                                                   DTok        none
     S.span()? | S[a..b].span().unwrap() | ..                                 DHull       none
     Span::new(T1.span.start, T2.span.end)                                    DBetween    none (Span::new panics when start > end: no lint)
     Span::new_with_len(T.span.end, 2).pulled_by(2) [? | .unwrap()]           DSuffix     none (None / panic below 2: no lint)
     T.span.with_len(1)                                                       DWithLen1   T.span.start < |source|  — NOT classified
     anything else                                                            DUnknown    NOT classified

   Roots (how the scanner found the token / the slice):
     RDocTok    a token of the document: `for T in D.iter_<kind>s()` / `D.tokens()`, `D.get_token(e)` (+ unwrap / let Some / if let),
                the parameter of a closure in an iterator chain over one of these, a component of `D.tokens().tuple_windows()`,
                a component of a tuple local whose every assignment is one of these (CommaFixes)
     RChunk     a token / sub-slice of a chunk `for S in D.iter_chunks()`:  `&S[e]`, `S.iter().tuple_windows()`, `S.iter_<kind>s()`,
                `while let (Some((_, A)), Some((_, B))) = (I.next(), I.peek())` over `I = S.iter_x_indices().zip(S.iter_ys()).peekable()`
     RSentence  the same for `for S in D.iter_sentences()` (also through `for P in D.iter_paragraphs()` .. `P.iter_sentences()`)
     RHelper    a `&Token` / `&[Token]` parameter of a helper fn, every call of which in `fn lint` passes tokens / a sub-slice with
                one of the roots above
     ROtherRoot anything else (a shadowed variable, an unknown binding form): NOT classified
   Every classified root is a token of the document (an element of `document.tokens`, chunks and sentences being sub-slices),
   so the semantics below is over ONE token list with run-time indices that may take ANY value.

   `eval_dsrc` gives the span the expression denotes (None = no lint: index out of range, `?`, panic of Span::new, empty hull).
   `struct_wrule` is a whole-document rule as LintGroup::lint sees it: any number of lints per call, each made by one of the
   row's Lint constructions with any run-time token indices and any payload.  No proofs here. *)
Require Import Base Cache C03LintGroup.
From Coq Require Import List Arith NArith Bool String.
Import ListNotations.

Inductive dsrc := DTok | DHull | DBetween | DSuffix | DWithLen1 | DUnknown.
Inductive droot := RDocTok | RChunk | RSentence | RParagraph | RHelper | ROtherRoot.
Record dsite := mkdsite { d_expr : string; d_src : dsrc; d_root : droot }.
Record drow := mkdrow { d_file : string; d_name : string; d_sites : list dsite }.

Section Eval.
  Variable kind : Type.
  Notation toks := (list (Cache.tok kind)).

  Definition eval_dsrc (ts : toks) (dyn : nat -> nat) (a : dsrc) : option span :=
    match a with
    | DTok => option_map snd (nth_error ts (dyn 0))
    | DHull =>
        match slice_chk ts (dyn 0) (dyn 1) with
        | Ok sl => match hull_of sl with Ok (Some s) => Some s | _ => None end
        | Panic _ => None
        end
    | DBetween =>
        match nth_error ts (dyn 0), nth_error ts (dyn 1) with
        | Some a0, Some b0 =>
            match span_new (sstart (snd a0)) (send (snd b0)) with Ok s => Some s | Panic _ => None end
        | _, _ => None
        end
    | DSuffix =>
        match nth_error ts (dyn 0) with
        | Some t => pulled_by (span_new_with_len (send (snd t)) 2) 2
        | None => None
        end
    | DWithLen1 =>
        match nth_error ts (dyn 0) with
        | Some t => Some (with_len (snd t) 1)
        | None => None
        end
    | DUnknown => None
    end.

  (* what the rest of the body decides on one call: the Lint constructions reached, in order — (site, run-time indices, payload) *)
  Definition dsel := nat -> ldoc kind -> list (nat * (nat -> nat) * N).

  (* `dtoks`: document.tokens of the document (read through everything of the document that is not its chunk list) *)
  Definition struct_wrule (dtoks : ldoc kind -> toks) (srcs : list dsrc) (sel : dsel) : wrule kind :=
    fun t d =>
      flat_map (fun c : nat * (nat -> nat) * N =>
                  let '(i, dyn, payload) := c in
                  match nth_error srcs i with
                  | None => []
                  | Some a => match eval_dsrc (dtoks d) dyn a with Some s => [mkclint s payload] | None => [] end
                  end) (sel t d).
End Eval.
Arguments eval_dsrc {kind}.
Arguments struct_wrule {kind}.

(* ---------- the table's own checks (executable) ---------- *)
Definition dsrc_classified (a : dsrc) : bool :=
  match a with DTok | DHull | DBetween | DSuffix => true | DWithLen1 | DUnknown => false end.
Definition droot_classified (r : droot) : bool := match r with ROtherRoot => false | _ => true end.
Definition dsite_classified (s : dsite) : bool := dsrc_classified (d_src s) && droot_classified (d_root s).
Definition drow_classified (r : drow) : bool :=
  forallb dsite_classified (d_sites r) && negb (match d_sites r with [] => true | _ => false end).
Definition drow_srcs (r : drow) : list dsrc := map d_src (d_sites r).

(* ---------- driver entry point (extracted): is `got` the span some Lint construction of struct rule `name` denotes for SOME
   token indices of the document's tokens?  (true/false; None = unknown rule).  Unclassified sources are evaluated as well
   (DWithLen1), DUnknown denotes nothing. ---------- *)
Fixpoint sr_name_eqb (a b : list nat) : bool :=
  match a, b with
  | [], [] => true
  | x :: a', y :: b' => (x =? y) && sr_name_eqb a' b'
  | _, _ => false
  end.
Definition sr_span_eqb (a b : span) : bool := (sstart a =? sstart b) && (send a =? send b).
Definition sr_denotes (spans : list span) (got : span) (a : dsrc) : bool :=
  let ts : list (Cache.tok unit) := map (fun s => (tt, s)) spans in
  let n := List.length ts in
  let hit d0 d1 := match eval_dsrc ts (fun j => match j with 0 => d0 | _ => d1 end) a with
                   | Some s => sr_span_eqb s got | None => false end in
  match a with
  | DTok | DSuffix | DWithLen1 => existsb (fun d0 => hit d0 0) (seq 0 n)
  | DBetween =>
      (* Span::new(a.start, b.end): a = some token starting at got.start, b = some token ending at got.end *)
      existsb (fun s => sstart s =? sstart got) spans && existsb (fun s => send s =? send got) spans && (sstart got <=? send got)
  | DHull =>
      (* the hull of a sub-slice: first token starting at got.start up to the last token ending at got.end *)
      existsb (fun d0 => existsb (fun d1 => hit d0 (S d1)) (filter (fun d1 => match nth_error spans d1 with Some s => send s =? send got | None => false end) (seq 0 n)))
              (filter (fun d0 => match nth_error spans d0 with Some s => sstart s =? sstart got | None => false end) (seq 0 n))
  | DUnknown => false
  end.
Definition run_struct_rule_span (table : list (list nat * list dsrc)) (name : list nat) (spans : list span) (got : span)
  : option bool :=
  match find (fun r => sr_name_eqb (fst r) name) table with
  | None => None
  | Some (_, srcs) => Some (existsb (sr_denotes spans got) srcs)
  end.
