(* C12Windows.v — the struct rules of LintGroup::new_curated that walk the document token by token / by fixed
   windows of adjacent tokens (phase 5).  No proofs here.

   1. linting/unclosed_quotes.rs, modelled EXACTLY (the body is pinned by tools/tables/c12rules.py):
          for token in document.tokens() {
              if let TokenKind::Punctuation(Punctuation::Quote(Quote { twin_loc: None })) = token.kind {
                  lints.push(Lint { span: token.span, .., priority: 255 })
              }
          }
      The rule reads of a token its span and whether twin_loc is None — never the VALUE of a twin index.

   2. kind-guarded windows (Tables_c12rules.window_guards, read from the bodies by tools/tables/c12rules.py):
        merge_words.rs              for (a, w, b) in document.tokens().tuple_windows() {
                                        if !a.kind.is_word() || !w.kind.is_whitespace() || !b.kind.is_word() { continue; } .. }
        inflected_verb_after_to.rs  for pi in document.iter_preposition_indices() { get_token(pi + 1), get_token(pi + 2)
                                        (None => continue); if !space.kind.is_whitespace() || !word.kind.is_word() { continue; } .. }
        adjective_of_a.rs           for i in document.iter_adjective_indices() { get_token(i + 1 .. i + 4) (None => continue);
                                        !is_whitespace / !is_word => continue, each before the push .. }
      A body of this form is `guarded_rule g h`: every window of length |g| of adjacent tokens is looked at, nothing is
      reported unless the kinds of the window satisfy the guard g position by position, and what is reported (h) is
      computed from the window's own tokens and the characters under them.  An index loop `for i in iter_X_indices()`
      with `get_token(i + k)` (None => continue) for k = 1 .. n - 1 visits exactly the windows of length n whose first
      token is an X; X (adjective, preposition) is a metadata class of Word tokens, the finer test is part of h.
      TokenKind::is_whitespace = Space(_) | Newline(_)  (token_kind.rs:392) — NOT ParagraphBreak. *)
From Coq Require Import List.
Require Import Base Overlap ParaSplit Tables_c12rules.
Import ListNotations.

(* ---------- UnclosedQuotes ---------- *)
Definition unclosed_quote_tok (t : tok) : list lint :=
  match tkind t with KQuote None => [mklint (tspan t) 255] | _ => [] end.
Definition unclosed_quotes (ts : list tok) (src : text) : list lint := flat_map unclosed_quote_tok ts.

(* ---------- kind-guarded windows ---------- *)
Definition kpat_ok (p : kpat) (k : kind) : bool :=
  match p with PWord => is_word_kind k | PWhitespace => is_ws_kind k end.
Fixpoint guard_matches (g : list kpat) (c : list tok) : bool :=
  match g, c with
  | [], [] => true
  | p :: g', t :: c' => kpat_ok p (tkind t) && guard_matches g' c'
  | _, _ => false
  end.
Definition guarded_g0 (g : list kpat) (h : list tok -> text -> list lint) (c : list tok) (chars : text) : list lint :=
  if guard_matches g c then h c chars else [].
(* the loop as written: EVERY window is handed to the body (no test for a ParagraphBreak anywhere) *)
Definition guarded_rule (g : list kpat) (h : list tok -> text -> list lint) (ts : list tok) (src : text) : list lint :=
  flat_map (fun c => lift (guarded_g0 g h) c src) (windows (length g) ts).

Fixpoint guard_of (name : String.string) (l : list (String.string * list kpat)) : option (list kpat) :=
  match l with
  | [] => None
  | (n, g) :: r => if String.eqb name n then Some g else guard_of name r
  end.

(* ---------- executable instances for the correspondence (extracted; cases W) ---------- *)
(* tokens as (class code, (start, (end, twin_loc + 1))) — the encoding of C12Doc.encode_tok *)
Definition kind_of_code2 (c w : nat) : kind :=
  match c with
  | 10 => KQuote (match w with 0 => None | S j => Some j end)
  | _ => kind_of_code c
  end.
Definition toks_of4 (l : list (nat * (nat * (nat * nat)))) : list tok :=
  map (fun x => mktok (mkspan (fst (snd x)) (fst (snd (snd x)))) (kind_of_code2 (fst x) (snd (snd (snd x))))) l.
(* the most a guarded rule can report: one lint per window that passes the guard, covering the window *)
Definition whole_window (c : list tok) (chars : text) : list lint :=
  match hull c with Some sp => [mklint sp (length c)] | None => [] end.
Definition run_rules (l : list (nat * (nat * (nat * nat)))) : list (nat * nat) * list (list (nat * nat)) :=
  let ts := toks_of4 l in
  let spans := map (fun x => (lstart x, lend x)) in
  (spans (unclosed_quotes ts []), map (fun g => spans (guarded_rule g whole_window ts [])) window_guard_pats).
