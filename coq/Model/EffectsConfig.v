(* EffectsConfig.v — C10: how harper-ls turns the three path SETTINGS into the paths it writes
   (harper-ls/src/config.rs, Config::from_lsp_config as it is NOW, and resolve-path 0.1.0's try_resolve), and where
   the three kinds of write then land.  Executable definitions only; lemmas in Proofs/EffectsConfigProofs.v.
   Extracted and compared with lsx::config::Config::from_lsp_config run in-process on generated settings.

   What the code does, line by line:
     base = Config::default():  user  = config_dir()/harper-ls/dictionary.txt
                                files = data_local_dir()/harper-ls/file_dictionaries/
                                stats = data_local_dir()/harper-ls/stats.txt
     userDictPath / fileDictPath:  absent -> default;  not a string -> Err;  ""  -> DEFAULT (the `!path.is_empty()` guard);
                                   otherwise path.try_resolve()
     statsPath:                    absent -> default;  not a string -> Err;  any string, "" INCLUDED -> path.try_resolve()
                                   (no guard: "" resolves to "<cwd>/", a directory; save_stats then fails with EISDIR and
                                    nothing is written)
     try_resolve(p):  absolute -> p;  first component "~" -> home.join(rest without leading slashes);
                      otherwise cwd.join(p)   (cwd is an existing directory;  "".join = "<cwd>/")
   A JSON string is valid UTF-8, so resolve_tilde's non-UTF-8 escape cannot happen.  home / cwd / config_dir /
   data_local_dir are given by the OS and the dirs crate: INPUTS (absolute byte strings).  Paths are component lists
   as in EffectsSave (what save_dict's parent / file_name / with_file_name see). *)
Require Import Base EffectsBase Effects EffectsSave.
Open Scope list_scope.

Record penv := mkenv {
  e_home : bytes;      (* dirs::home_dir() *)
  e_cwd : bytes;       (* std::env::current_dir() *)
  e_cfgdir : bytes;    (* dirs::config_dir() *)
  e_datadir : bytes    (* dirs::data_local_dir() *)
}.

(* a settings value as serde_json sees it *)
Inductive sval := SAbsent | SNotString | SString (p : bytes).

Definition tilde : bytes := [126]%N.
Definition seg_harper_ls : bytes := [104; 97; 114; 112; 101; 114; 45; 108; 115]%N.                         (* harper-ls *)
Definition seg_dictionary : bytes := [100; 105; 99; 116; 105; 111; 110; 97; 114; 121; 46; 116; 120; 116]%N. (* dictionary.txt *)
Definition seg_file_dicts : bytes :=
  [102; 105; 108; 101; 95; 100; 105; 99; 116; 105; 111; 110; 97; 114; 105; 101; 115]%N.                    (* file_dictionaries *)
Definition seg_stats : bytes := [115; 116; 97; 116; 115; 46; 116; 120; 116]%N.                              (* stats.txt *)

(* Path::starts_with("~"): the FIRST component is exactly "~" (for a relative path the first raw segment;
   "~user", "./~" do not qualify) *)
Definition starts_with_tilde (p : bytes) : bool :=
  match split_aux p [] with s :: _ => beqb s tilde | [] => false end.

(* resolve-path's try_resolve, result as components *)
Definition resolve_setting (e : penv) (p : bytes) : list bytes :=
  match p with
  | [] => comps (e_cwd e)                                            (* cwd.join("") = "<cwd>/" *)
  | c :: r =>
    if (c =? slash)%N then comps p                                   (* absolute: taken as it is *)
    else if starts_with_tilde p then comps (e_home e) ++ comps r     (* "~" / "~/x": home.join(x) *)
    else comps (e_cwd e) ++ comps p                                  (* relative: cwd.join(p) *)
  end.

Record pcfg := mkpcfg { p_user : list bytes; p_filedir : list bytes; p_stats : list bytes }.

Definition default_pcfg (e : penv) : pcfg :=
  mkpcfg (comps (e_cfgdir e) ++ [seg_harper_ls; seg_dictionary])
         (comps (e_datadir e) ++ [seg_harper_ls; seg_file_dicts])
         (comps (e_datadir e) ++ [seg_harper_ls; seg_stats]).

(* the userDictPath / fileDictPath blocks *)
Definition dict_setting (e : penv) (v : sval) (dflt : list bytes) : option (list bytes) :=
  match v with
  | SAbsent => Some dflt
  | SNotString => None
  | SString p => if beqb p [] then Some dflt else Some (resolve_setting e p)
  end.
(* the statsPath block: no empty-string guard *)
Definition stats_setting (e : penv) (v : sval) (dflt : list bytes) : option (list bytes) :=
  match v with
  | SAbsent => Some dflt
  | SNotString => None
  | SString p => Some (resolve_setting e p)
  end.

(* the path part of Config::from_lsp_config: None = Err (the old configuration stays in force) *)
Definition parse_paths (e : penv) (u f s : sval) : option pcfg :=
  match dict_setting e u (p_user (default_pcfg e)),
        dict_setting e f (p_filedir (default_pcfg e)),
        stats_setting e s (p_stats (default_pcfg e)) with
  | Some pu, Some pf, Some ps => Some (mkpcfg pu pf ps)
  | _, _, _ => None
  end.

(* the locations a Config stands for, as the monitor is told them (lexically normalised, like every traced path).
   The file-dictionary DIRECTORY is given as the monitor wants a directory: without a trailing separator, i.e. as the
   prefix d such that its children are d ++ "/" ++ name — the root directory is therefore the EMPTY prefix (render'),
   not "/" (with "/" the monitor's `dir_of p = m_filedir` could never hold and a fileDictPath of "/" had to be excluded
   by hypothesis; it no longer is). *)
Definition mcfg_of (pc : pcfg) : mcfg :=
  mkcfg (render (resolve (p_user pc))) (render' (resolve (p_filedir pc))) (render (resolve (p_stats pc))) [].

(* the three kinds of write under a Config *)
Definition cfg_user_plan (pc : pcfg) : option (bytes * bytes * bytes) := save_dict_plan (p_user pc).
(* HISTORY (before a91f3ee, finding FC10b): save_dict without the file-name check *)
Definition cfg_user_plan_old (pc : pcfg) : bytes * bytes * bytes := save_plan (p_user pc).
Definition cfg_file_plan (pc : pcfg) (fp : option bytes) : option (bytes * bytes * bytes) :=
  match fp with
  | None => None
  | Some p => if beqb (file_dict_name p) [] then None
              else save_dict_plan (p_filedir pc ++ comps (file_dict_name p))
  end.
Definition cfg_stats_write (pc : pcfg) : bytes := render (resolve (p_stats pc)).

(* for the driver: the three locations of the parsed configuration, or None *)
Definition parse_render (e : penv) (u f s : sval) : option (bytes * bytes * bytes) :=
  match parse_paths e u f s with
  | Some pc => Some (m_user (mcfg_of pc), render (resolve (p_filedir pc)), m_stats (mcfg_of pc))
  | None => None
  end.

(* for the driver: the file-dictionary directory as the monitor is told it (the prefix of its children; "" = root) *)
Definition parse_monitor_filedir (e : penv) (u f s : sval) : option bytes :=
  match parse_paths e u f s with Some pc => Some (m_filedir (mcfg_of pc)) | None => None end.
