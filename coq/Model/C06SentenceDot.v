(* C06SentenceDot.v — phase 6, step 1: the sentence class of C06Sentence.v extended by a sentence-FINAL PERIOD.
   No proofs here.

   A sentence of the extended class is  sent_text its ++ "."  where `its` is a sentence of the class of C06Sentence.v
   (word items, blank runs, separator punctuation; `!` and `?` are separator punctuation already) and the LAST item, when
   it is a word, is none of the words condense_latin looks for in front of a period: `etc`, `vs` (WordSet, any
   capitalisation: eq_ignore_ascii_case on equal lengths) and `al` (second half of `et al.`) — decidable: last_word_ok.
   The period is the last character of the text, so it is followed by nothing (no letter: `.x` would be a host name /
   a number / an initialism).  C06SentenceDotProofs.v proves that Document::new_plain_english yields one token per item
   plus one Period token: sentp_tokens; the Word tokens are still sent_words 0 its. *)
Require Import Base Tables_lexer Lexer Condense C06Words C06Sentence.

(* WordSet::matches / AnyCapitalization::matches of the three fixed words, on a text *)
Definition latin_word (w : text) : bool :=
  existsb (fun x => (length w =? length x) && zip_all_eq_ic w x) (latin_second :: latin_wordset).

Fixpoint last_word_ok (its : list sitem) : bool :=
  match its with
  | [] => true
  | it :: r => match r with
               | [] => match it with SWord w => negb (latin_word w) | _ => true end
               | _ :: _ => last_word_ok r
               end
  end.

Definition sentp_ok (u : uni) (its : list sitem) : bool := sent_ok u its && last_word_ok its.
Definition sentp_text (its : list sitem) : text := sent_text its ++ [46%N].
Definition period_tok (pos : nat) : token := mktok (mkspan pos (pos + 1)) (KPunct PPeriod).
Definition sentp_tokens (its : list sitem) : list token := sent_tokens 0 its ++ [period_tok (length (sent_text its))].

(* ---------- entry point for the extracted driver: None = not a sentence of the extended class ---------- *)
Definition run_sentence_dot (u : uni) (its : list sitem) : option (text * list span * list span) :=
  if sentp_ok u its then Some (sentp_text its, map tspan (sentp_tokens its), sent_words 0 its) else None.
