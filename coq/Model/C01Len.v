(* C01Len.v — the LENGTH of a match, statically: for every pattern of the inductive `pat` the least and
   the greatest number of tokens a NON-ZERO match can cover (`min_len`, `max_len`; `None` = unbounded,
   e.g. WhitespacePattern covers a whole run of whitespace tokens, RepeatingPattern any number of rounds),
   and the uses a rule body (`match_to_lint`) makes of the matched slice with LITERAL positions:
   `matched_tokens[k]`, `matched_tokens[a..b]`, `[a..]`, `[..b]`, `matched_tokens[len - k]`,
   `match matched_tokens.len() { n1 => .., n2 => .., _ => panic!() }` — each as the checked operation of
   Base.v (`use_run`), and the static test `use_ok` that Proofs/C01LenProofs.v proves sufficient.
   The finding F31 (ModalOf: `unreachable!()` behind an assumption on the match length, fixed by 7a5ed39)
   is the class this file is about.   No proofs here. *)
Require Import Base Overlap TokenSeq Pattern.

(* ---------- option nat as "nat or unbounded" ---------- *)
Definition oadd (a b : option nat) : option nat :=
  match a, b with Some x, Some y => Some (x + y) | _, _ => None end.
Definition omax (a b : option nat) : option nat :=
  match a, b with Some x, Some y => Some (Nat.max x y) | _, _ => None end.
Definition ole (n : nat) (m : option nat) : Prop := match m with Some x => n <= x | None => True end.

Definition sum_list (f : pat -> nat) (l : list pat) : nat := fold_right (fun x a => f x + a) 0 l.
Definition maxl_list (f : pat -> nat) (l : list pat) : nat := fold_right (fun x a => Nat.max (f x) a) 0 l.
(* least element; 0 for the empty list (such a combinator never matches, any bound is sound) *)
Definition minl (l : list nat) : nat :=
  match l with [] => 0 | x :: r => fold_right Nat.min x r end.
Definition osum_list (f : pat -> option nat) (l : list pat) : option nat :=
  fold_right (fun x a => oadd (f x) a) (Some 0) l.
Definition omaxl_list (f : pat -> option nat) (l : list pat) : option nat :=
  fold_right (fun x a => omax (f x) a) (Some 0) l.

(* ---------- least length of a non-zero match ---------- *)
Fixpoint min_len (p : pat) : nat :=
  match p with
  | PPred _ | PFlag _ | PExactWord _ | PAny | PAnyCap _ | PWordSet _ | PWithinEdit _
  | PImpliesQuantity | PIndefArticle | PInvert _ => 1
  | PWhitespace | PNominal => 1
  | PSeq ps | PExactPhrase ps => sum_list min_len ps            (* every part matched, cursor = the sum *)
  | PEither ps | PNaive ps | PMap ps => minl (map min_len ps)   (* the answer of ONE of the children *)
  | PAll ps => maxl_list min_len ps                              (* all non-zero, the longest *)
  | PRepeat q required => Nat.max required 1 * min_len q         (* >= required rounds, >= 1 when non-zero *)
  | PConsumes q | PNotTitle q _ => min_len q
  | PSimilar _ fs => sum_list min_len fs                         (* the fuzzy phrase, when the exact one fails *)
  | PSplitCompound _ => 3                                        (* inner_match != 3 => 0 *)
  | PKindGroup m => minl (map (fun kq => min_len (snd kq)) m)
  | PWordGroup m => minl (map (fun kq => min_len (snd kq)) m)
  end.

(* ---------- greatest length of a match (None: no bound from the pattern alone) ---------- *)
Fixpoint max_len (p : pat) : option nat :=
  match p with
  | PPred _ | PFlag _ | PExactWord _ | PAny | PAnyCap _ | PWordSet _ | PWithinEdit _
  | PImpliesQuantity | PIndefArticle | PInvert _ => Some 1
  | PWhitespace | PNominal => None
  | PSeq ps | PExactPhrase ps => osum_list max_len ps
  | PEither ps | PNaive ps | PMap ps | PAll ps => omaxl_list max_len ps
  | PRepeat _ _ => None
  | PConsumes q | PNotTitle q _ => max_len q
  | PSimilar _ fs => osum_list max_len fs
  | PSplitCompound _ => Some 3
  | PKindGroup m => fold_right (fun kq a => omax (max_len (snd kq)) a) (Some 0) m
  | PWordGroup m => fold_right (fun kq a => omax (max_len (snd kq)) a) (Some 0) m
  end.

(* ---------- what a rule body does with the matched slice, literal positions only ---------- *)
Inductive use :=
| UIdx (k : nat)            (* matched_tokens[k] *)
| USlice (a b : nat)        (* &matched_tokens[a..b]      (a..=b is written as a..b+1 by the translator) *)
| USliceFrom (a : nat)      (* &matched_tokens[a..] *)
| ULenMinus (k : nat)       (* matched_tokens[matched_tokens.len() - k] *)
| ULenIn (ls : list nat).   (* match matched_tokens.len() { l1 => .., l2 => .., _ => panic!() } *)

(* the use as the checked operation it is in Rust *)
Definition use_run (mt : list tok) (u : use) : res unit :=
  match u with
  | UIdx k => do _t <- nth_chk mt k; Ok tt
  | USlice a b => do _s <- slice_chk mt a b; Ok tt
  | USliceFrom a => do _s <- slice_from mt a; Ok tt
  | ULenMinus k => do i <- sub_chk (length mt) k; do _t <- nth_chk mt i; Ok tt
  | ULenIn ls => if existsb (Nat.eqb (length mt)) ls then Ok tt else Panic PUnwrap
  end.

(* the static test: enough room below the least match length (and, for the `match len` form, every
   length between the least and the greatest is one of the arms) *)
Definition use_ok (lo : nat) (hi : option nat) (u : use) : bool :=
  match u with
  | UIdx k => k <? lo
  | USlice a b => (a <=? b) && (b <=? lo)
  | USliceFrom a => a <=? lo
  | ULenMinus k => (1 <=? k) && (k <=? lo)
  | ULenIn ls =>
      match hi with
      | Some h => forallb (fun n => existsb (Nat.eqb n) ls) (seq lo (S h - lo))
      | None => false
      end
  end.

(* one row of the generated table: rule (struct name), file, pattern, uses *)
(* r_name: the code points of the struct name (a Coq `string` would shadow OCaml's in the extracted driver) *)
Record rule_row := mkrule { r_name : text; r_pat : pat; r_uses : list use }.
Definition rule_ok (r : rule_row) : bool :=
  forallb (use_ok (min_len (r_pat r)) (max_len (r_pat r))) (r_uses r).

(* for the driver: "is the observed non-zero match length n possible for this pattern?" *)
Definition len_possible (p : pat) (n : nat) : bool :=
  (min_len p <=? n) && match max_len p with Some h => n <=? h | None => true end.

(* for the driver: the answer for a rule given by name — None: not in the table *)
Definition rule_len_possible (table : list rule_row) (name : text) (n : nat) : option bool :=
  match find (fun r => text_eqb (r_name r) name) table with
  | Some r => Some (len_possible (r_pat r) n)
  | None => None
  end.
