(* C14Edit.v — C14, phase 3: LintContext::from_lint on the document the MODELLED Document::parse produces.
   Bridges the two token vocabularies: Lexer.token (C02's models Lexer.v / Condense.v: kinds with the quote's
   twin_loc, words without metadata) and Ignore.token (C14's model of what LintContext hashes: every hashed field
   of TokenKind).  No proofs here.

   emb_kind: a Lexer kind as the TokenKind the real Document holds —
     Word           gets the dictionary metadata `wm` (the look-up loop that ends Document::parse; ANY function
                    of the token: the theorems quantify over it, so over every dictionary),
     Quote{twin}    keeps its twin_loc (what match_quotes wrote),
     the other punctuation / numbers are coded by pcode / ncode / scode (the dump's numbering; any functions). *)
Require Import Base Tables_lexer Lexer Condense.
Require Ignore.

Section Emb.
  Variable pcode : punct -> N.
  Variable ncode : number -> N.
  Variable scode : num_suffix -> N.

  Definition emb_kind (wm : option N) (k : tkind) : Ignore.tkind :=
    match k with
    | KWord => Ignore.KWord wm
    | KPunct (PQuote tw) => Ignore.KQuote tw
    | KPunct p => Ignore.KPunct (pcode p)
    | KDecade => Ignore.KDecade
    | KNumber n => Ignore.KNumber (ncode n) (option_map scode (n_suffix n)) (N.of_nat (n_radix n)) (n_precision n)
    | KSpace n => Ignore.KSpace n
    | KNewline n => Ignore.KNewline n
    | KEmail => Ignore.KEmail
    | KUrl => Ignore.KUrl
    | KHostname => Ignore.KHostname
    | KUnlintable => Ignore.KUnlintable
    | KParagraphBreak => Ignore.KParagraphBreak
    | KRegexish => Ignore.KRegexish
    end.

  Definition emb_tok (wm : token -> option N) (t : token) : Ignore.token :=
    Ignore.mktok (tspan t) (emb_kind (wm t) (tkind_of t)).

  (* the Document: source + tokens *)
  Definition doc_of (wm : token -> option N) (src : text) (ts : list token) : Ignore.doc :=
    Ignore.mkdoc src (map (emb_tok wm) ts).

  (* Document::new_plain_english(src), then LintContext::from_lint(lint, &document) *)
  Definition plain_context (u : uni) (wm : token -> option N) (src : text) (l : Ignore.ilint) : res Ignore.ctx :=
    do ts <- document_plain u src; Ignore.context l (doc_of wm src ts).

  (* driver entry: the tokens of the document, the token indices of the context, the hashed fat tokens *)
  Definition run_plain_context (u : uni) (wm : token -> option N) (src : text) (l : Ignore.ilint)
    : option (list token * list nat * list Ignore.ftok) :=
    match document_plain u src with
    | Ok ts =>
        match Ignore.context_indices l (doc_of wm src ts), Ignore.context_tokens l (doc_of wm src ts) with
        | Ok idx, Ok fts => Some (ts, idx, fts)
        | _, _ => None
        end
    | Panic _ => None
    end.
End Emb.

(* ---------- driver entry for the correspondence (stream Q of harness/src/bin/c14.rs): ASCII texts ---------- *)
(* On ASCII characters Rust's char::{is_whitespace, is_numeric, is_alphabetic} and CharExt::is_english_lingual are
   these predicates (C02 monitors that over every scalar value); the Q cases are ASCII texts only. *)
Definition ascii_uni : uni :=
  mkuni (fun c => in_range 9 13 c || ceq c 32) is_ascii_digit is_ascii_alphabetic is_ascii_alphabetic.

(* a punctuation variant as a number: its name (punct_name; `C:` + currency name) read in base 256 *)
Definition name_code (t : text) : N := fold_left (fun a c => (a * 256 + c)%N) t 0%N.
Definition pcode_std (p : punct) : N :=
  match p with
  | PCurrency c => name_code (67 :: 58 :: currency_name c)%N
  | _ => name_code (punct_name p)
  end.

(* Document::new_plain_english(src); a lint with span [s,e); LintContext::from_lint: the token indices and, per
   context token, its span and the hashed fat token (blanked kind, content).  None = a panic.
   `u` = the Unicode predicates: stream Q loads the four range tables dumped from Rust's char methods (as C02's
   driver does), so the texts need not be ASCII. *)
Definition run_plain_uni (u : uni) (src : text) (s e : nat) : option (list nat * list (span * Ignore.ftok)) :=
  let l := Ignore.mkilint (mkspan s e) 0%N [] [] 0%N in
  match run_plain_context pcode_std (fun _ => 0%N) (fun _ => 0%N) u (fun _ => None) src l with
  | Some (ts, idx, fts) =>
      let d := doc_of pcode_std (fun _ => 0%N) (fun _ => 0%N) (fun _ => None) src ts in
      Some (idx, combine (map Ignore.tspan (Ignore.get_tokens (Ignore.dtoks d) idx)) fts)
  | None => None
  end.
(* the ASCII restriction (used before the tables are loaded) *)
Definition run_plain_ascii (src : text) (s e : nat) : option (list nat * list (span * Ignore.ftok)) :=
  run_plain_uni ascii_uni src s e.
