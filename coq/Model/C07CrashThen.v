(* C07CrashThen.v — what a left-over temporary file of a crashed save does to LATER saves.
     harper-ls/src/dictionary_io.rs save_dict:  let file = File::create(&tmp_path).await?;
   File::create = OpenOptions write + create + TRUNCATE: in DictIO.step, `ECreate q` sets q to the empty file whatever it
   held (fs_write q (Clean [])).  This file holds
     frame_of       the calls of an effect sequence other than its writes, in the vocabulary of the generated table
                    Model/Tables_c07save.v (read from the source on every run): C07_save_frame ties save_effects to the code;
     the NO-TRUNCATE variant (OpenOptions write + create, e.g. to set a mode): an existing <name>.tmp keeps its bytes and the
                    new text overwrites them from offset 0 — kept only for the Example C07_notrunc_refuted; not extracted.
   No proofs here. *)
Require Import Base DictIO Tables_c07save.

Definition call_of (e : effect) : list save_call :=
  match e with
  | EMkdir _ => [KMkdirParent]
  | ECreate (TmpP _) => [KCreateTruncTmp]
  | ECreate _ => [KCreateTrunc]
  | EWrite _ _ => []
  | EFlush _ => [KFlush]
  | ESync _ => [KSyncAll]
  | ERename (TmpP a) b => if path_eqb a b then [KRenameTmp] else [KRenameOther]
  | ERename _ _ => [KRenameOther]
  end.
Definition frame_of (effs : list effect) : list save_call := flat_map call_of effs.

(* ---- the variant WITHOUT truncation (history / what-if only) ---- *)
Definition overlay (new old : text) : text := new ++ skipn (length new) old.
(* the complete save: the sibling's old bytes beyond the new text survive and are renamed into the dictionary
   (a torn left-over is treated like a clean one: the Example only needs a clean one) *)
Definition save_words_notrunc (p : path) (ws : list word) (s : fsys) : fsys :=
  let t := serialize ws in
  let c := match fs_read (TmpP p) s with
           | Some (Clean o) => Clean (overlay t o)
           | Some (Torn o) => if (length t <? length o)%nat then Torn (overlay t o) else Clean t
           | None => Clean t
           end in
  mkfs (if has_dir (parent p) s then dirs s else parent p :: dirs s) (assoc_set p c (assoc_del (TmpP p) (files s))).
Definition add_to_notrunc (is_lower : N -> bool) (lower : N -> list N) (iter_order : list word -> list word)
    (p : path) (w : word) (s : fsys) : fsys :=
  save_words_notrunc p (words_iter iter_order (append_word is_lower lower (dict_at is_lower lower p s) w)) s.
