(* SpellDecision.v — C06: the decision SpellCheck::lint takes for every word token, over an abstract
   dictionary.  No proofs here.

   Mirrors, line by line:
     char_string.rs        to_lower (with its all-lower-case shortcut), normalized, char_to_normalized
                           (table regenerated into Tables_spellnorm.v)
     spell/word_id.rs      WordId::from_word_chars = hash (to_lower (normalized w));  the hash is modelled as the
                           identity (collisions are monitored by the harness over every word it meets)
     spell/word_map.rs     WordMap: one entry per id (HashMap<WordId, WordMapEntry>)
     spell/mutable_dictionary.rs  get_word_metadata, contains_exact_word (FstDictionary delegates both to it)
     document.rs           Document::parse: every Word token gets `dictionary.get_word_metadata(its text)`
     linting/spell_check.rs  SpellCheck::lint, cached_suggest_correct_spelling (back-off loop, dialect filter,
                           LRU word cache), truncation to three, first-letter capitalisation

   What is NOT modelled here: how a text is cut into Word tokens (lexer + condense passes: C02) — a document is
   presented as its source plus the spans of its Word tokens, in order; and the fuzzy search itself (C15) —
   `fuzzy D w dist` stands for `suggest_correct_spelling(w, 100, dist, D)` and is a Section variable. *)
Require Import Base Tables_spellnorm.

(* ---------- plain data ---------- *)
Inductive dialect := American | Canadian | Australian | British.   (* enum Dialect, declaration order *)
Definition dialect_eqb (a b : dialect) : bool :=
  match a, b with
  | American, American | Canadian, Canadian | Australian, Australian | British, British => true
  | _, _ => false
  end.

(* a WordMapEntry reduced to what the spell checker reads: canonical spelling and metadata.dialect *)
Record entry := mkentry { canon : text; edialect : option dialect }.
(* the dictionary after it was built: the values of the WordMap, in any order *)
Definition dict := list entry.

Fixpoint text_eqb (a b : text) : bool :=
  match a, b with
  | [], [] => true
  | x :: a', y :: b' => N.eqb x y && text_eqb a' b'
  | _, _ => false
  end.

(* a spelling lint: the span and the replacement texts of its Suggestion::ReplaceWith entries *)
Record slint := mkslint { sl_span : span; sl_sugg : list text }.

(* metadata.dialect.is_none_or(|d| d == self.dialect) *)
Definition dialect_ok (od : option dialect) (d : dialect) : bool :=
  match od with None => true | Some x => dialect_eqb x d end.

(* fn char_to_normalized *)
Definition char_to_normalized (c : char) : char :=
  match find (fun p => N.eqb (fst p) c) normalize_table with Some p => snd p | None => c end.
(* CharStringExt::normalized — borrowed or owned, the characters are `map char_to_normalized` either way *)
Definition normalized (w : text) : text := map char_to_normalized w.

(* the accept condition of SpellCheck::lint as a function of the facts it reads:
   `if let Some(metadata) = word.kind.as_word().unwrap()` (metadata present, carrying its dialect),
   `metadata.dialect.is_none_or(..) && (contains_exact_word(w) || contains_exact_word(&w.to_lower()))` *)
Definition accept_facts (meta : option (option dialect)) (d : dialect) (exact exact_lower : bool) : bool :=
  match meta with
  | Some od => dialect_ok od d && (exact || exact_lower)
  | None => false
  end.

Section SpellDecision.
  (* Rust's char::to_lowercase / to_uppercase (as the sequence they yield), is_lowercase, is_uppercase *)
  Variable lc uc : char -> list char.
  Variable is_lower is_upper : char -> bool.

  (* CharStringExt::to_lower *)
  Definition to_lower (w : text) : text :=
    if forallb is_lower w then w else flat_map lc w.

  (* WordId::from_word_chars, hash = identity *)
  Definition word_id (w : text) : text := to_lower (normalized w).

  (* WordMap::get(&id): the entry stored under that id (WordMap::insert files an entry under the id of its
     canonical spelling) *)
  Definition lookup (D : dict) (id : text) : option entry :=
    find (fun e => text_eqb (word_id (canon e)) id) D.

  (* Dictionary::get_word_metadata(word) = word_map.get_with_chars(word).map(metadata) *)
  Definition get_word_metadata (D : dict) (w : text) : option entry := lookup D (word_id w).

  (* Dictionary::contains_exact_word (as of ebb53b3: `found.canonical_spelling.as_slice().normalized() == normalized`
     — the stored spelling is compared in normalised form too, so an entry stored with a typographic apostrophe
     matches itself) *)
  Definition contains_exact_word (D : dict) (w : text) : bool :=
    let n := normalized w in
    match lookup D (word_id n) with
    | Some found => text_eqb (normalized (canon found)) n
    | None => false
    end.

  (* the comparison before ebb53b3 (`found.canonical_spelling == normalized`): history only, used by the
     regression witness exact_old_rejects_own_entry *)
  Definition contains_exact_word_old (D : dict) (w : text) : bool :=
    let n := normalized w in
    match lookup D (word_id n) with
    | Some found => text_eqb (canon found) n
    | None => false
    end.

  (* the word token carries the metadata found at parse time; the linter then consults the dictionary *)
  Definition accepts (D : dict) (d : dialect) (w : text) : bool :=
    accept_facts (option_map edialect (get_word_metadata D w)) d
                 (contains_exact_word D w) (contains_exact_word D (to_lower w)).

  (* ---------- suggestions ---------- *)
  (* suggest_correct_spelling(word, fuzzy_result_limit, dist, &dictionary): C15's business *)
  Variable fuzzy : dict -> text -> nat -> list text.

  Definition is_nil {A} (l : list A) : bool := match l with [] => true | _ => false end.

  (* `let mut suggestions = Vec::new(); let mut dist = 2;
      while suggestions.is_empty() && dist < 5 { suggestions = suggest(.., dist, ..); dist += 1; }` *)
  Fixpoint backoff (D : dict) (w : text) (fuel dist : nat) (cur : list text) : res (list text) :=
    match fuel with
    | 0 => if is_nil cur && (dist <? backoff_bound) then Panic PFuel else Ok cur
    | S f => if is_nil cur && (dist <? backoff_bound) then backoff D w f (S dist) (fuzzy D w dist) else Ok cur
    end.
  Definition backoff_fuel : nat := backoff_bound - backoff_start.

  (* suggestions.retain(|v| dictionary.get_word_metadata(v).unwrap().dialect.is_none_or(|d| d == dialect)) *)
  Fixpoint retain_dialect (D : dict) (d : dialect) (l : list text) : res (list text) :=
    match l with
    | [] => Ok []
    | v :: t =>
        match get_word_metadata D v with
        | None => Panic PUnwrap
        | Some e => do t' <- retain_dialect D d t;
                    Ok (if dialect_ok (edialect e) d then v :: t' else t')
        end
    end.

  (* cached_suggest_correct_spelling on a cache miss *)
  Definition suggest (D : dict) (d : dialect) (w : text) : res (list text) :=
    do raw <- backoff D w backoff_fuel backoff_start [];
    retain_dialect D d raw.

  (* `*sug_f = sug_f.to_uppercase().next().unwrap()` on the first character of a suggestion, if it has one *)
  Definition cap_first (s : text) : res text :=
    match s with
    | [] => Ok []
    | f :: t => match uc f with u :: _ => Ok (u :: t) | [] => Panic PUnwrap end
    end.

  Fixpoint map_res {A B} (f : A -> res B) (l : list A) : res (list B) :=
    match l with
    | [] => Ok []
    | x :: t => do y <- f x; do t' <- map_res f t; Ok (y :: t')
    end.

  (* what lint does with the (cached) possibilities: keep three, capitalise when the word is capitalised *)
  Definition finish (w : text) (cands : list text) : res (list text) :=
    let p := firstn suggestions_kept cands in
    match w with
    | f :: _ => if is_upper f then map_res cap_first p else Ok p
    | [] => Ok p
    end.

  (* one Word token: parse reads its text, lint decides *)
  Definition lint_word (D : dict) (d : dialect) (src : text) (sp : span) : res (option slint) :=
    do w <- get_content sp src;
    if accepts D d w then Ok None
    else do cands <- suggest D d w;
         do sg <- finish w cands;
         Ok (Some (mkslint sp sg)).

  (* SpellCheck::lint over `document.iter_words()` *)
  Fixpoint lint_doc (D : dict) (d : dialect) (src : text) (words : list span) : res (list slint) :=
    match words with
    | [] => Ok []
    | sp :: rest =>
        do r <- lint_word D d src sp;
        do rs <- lint_doc D d src rest;
        Ok (match r with Some l => l :: rs | None => rs end)
    end.

  (* ---------- the LRU word cache of SpellCheck ---------- *)
  Definition cache := list (text * list text).
  (* lru: a finite map that may drop any entries at any time — `keep` is an arbitrary predicate *)
  Variable keep : cache -> text * list text -> bool.

  Fixpoint cache_get (c : cache) (w : text) : option (list text) :=
    match c with
    | [] => None
    | (k, v) :: t => if text_eqb k w then Some v else cache_get t w
    end.
  Definition cache_put (c : cache) (w : text) (v : list text) : cache :=
    let c' := (w, v) :: c in filter (keep c') c'.

  Definition cached_suggest (D : dict) (d : dialect) (c : cache) (w : text) : res (list text * cache) :=
    match cache_get c w with
    | Some hit => Ok (hit, c)
    | None => do s <- suggest D d w; Ok (s, cache_put c w s)
    end.

  Definition lint_word_cached (D : dict) (d : dialect) (c : cache) (src : text) (sp : span)
    : res (option slint * cache) :=
    do w <- get_content sp src;
    if accepts D d w then Ok (None, c)
    else do '(cands, c') <- cached_suggest D d c w;
         do sg <- finish w cands;
         Ok (Some (mkslint sp sg), c').

  Fixpoint lint_doc_cached (D : dict) (d : dialect) (c : cache) (src : text) (words : list span)
    : res (list slint * cache) :=
    match words with
    | [] => Ok ([], c)
    | sp :: rest =>
        do '(r, c1) <- lint_word_cached D d c src sp;
        do '(rs, c2) <- lint_doc_cached D d c1 src rest;
        Ok (match r with Some l => l :: rs | None => rs end, c2)
    end.

  (* ---------- the case forms the property speaks about ---------- *)
  Definition upper (w : text) : text := flat_map uc w.                       (* str::to_uppercase *)
  Definition capitalise (w : text) : text :=                                  (* first letter upper-cased *)
    match w with [] => [] | f :: t => uc f ++ t end.
End SpellDecision.

(* ---------- an ASCII instance of the Unicode functions: used by the witnesses and Examples ---------- *)
Definition ascii_is_lower (c : char) : bool := (97 <=? c)%N && (c <=? 122)%N.
Definition ascii_is_upper (c : char) : bool := (65 <=? c)%N && (c <=? 90)%N.
Definition ascii_lc (c : char) : list char := if ascii_is_upper c then [(c + 32)%N] else [c].
Definition ascii_uc (c : char) : list char := if ascii_is_lower c then [(c - 32)%N] else [c].
Definition no_fuzzy (D : dict) (w : text) (k : nat) : list text := [].

(* ---------- the F24 witness: a dictionary entry that is not one Word token ----------
   dictionary {"socio-political", "political"}; the text is the entry itself; its Word tokens (as the lexer of
   /repo cuts it: Word Hyphen Word) are [0,5) and [6,15).  The harness rebuilds exactly this dictionary as a
   MutableDictionary and replays the text on the implementation (corpus/C06/witness.json). *)
Definition w_socio_political : text := [115;111;99;105;111;45;112;111;108;105;116;105;99;97;108]%N.
Definition w_political : text := [112;111;108;105;116;105;99;97;108]%N.
Definition f24_dict : dict := [mkentry w_socio_political None; mkentry w_political None].
Definition f24_words : list span := [mkspan 0 5; mkspan 6 15].
Definition f24_run : res (list slint) :=
  lint_doc ascii_lc ascii_uc ascii_is_lower ascii_is_upper no_fuzzy f24_dict American w_socio_political f24_words.

(* ---------- entry points for the extracted driver ---------- *)
Definition run_lint_doc := lint_doc.
Definition run_accept_facts := accept_facts.
