(* C07Class.v — the open findings F15 (accept side), FC07b, FC07d, FC07d-ident, FC07e as decidable classes over the
   merged-dictionary model of DictIO.v (first child wins for metadata / canonical spelling, any child for the exact test).
     harper-core/src/spell/merged_dictionary.rs   get_word_metadata, get_correct_capitalization_of: the FIRST child that
                                                  has an entry at the word's id answers; contains_exact_word: ANY child
     harper-core/src/linting/spell_check.rs       reads the token's metadata (dialect) and the exact tests
     harper-core/src/linting/sentence_capitalization.rs   for a sentence-first word that starts with a lower-case letter:
                                                  no lint if the token is a proper noun or the dictionary's canonical
                                                  spelling has an upper-case letter after its first character
     token predicates of the other rules          read the token's metadata: None for an unknown word, Some(default)
                                                  for a word of a user / file / identifier dictionary
   No proofs here. *)
Require Import Base DictIO C07Collide.

Section Class.
  Variable is_lower : N -> bool.
  Variable lower : N -> list N.

  Notation wid := (word_id is_lower lower).

  (* F15, accept side: after the adds `w :: post` to one dictionary, is w still found by the exact test of THAT
     dictionary?  yes iff the last later word with w's id, if any, is w up to the kind of apostrophe *)
  Definition f15_keepsb (w : word) (post : list word) : bool :=
    match last_same_id is_lower lower (wid w) post with
    | Some x => weqb (normalized x) (normalized w)
    | None => true
    end.

  (* FC07b: the dialect flag SpellCheck sees is that of the first child with an entry: the curated one if it has any *)
  Definition dialect_okb (curated : dict) (w : word) : bool :=
    match lookup (wid w) curated with Some e => snd e | None => true end.

  (* what the rules see of a token: get_word_metadata / get_correct_capitalization_of = m_get_meta (entry =
     canonical spelling, dialect flag); the canonical spelling alone: *)
  Definition canonical (cs : list dict) (t : word) : option word := option_map fst (m_get_meta is_lower lower cs t).
  (* the entry the user / file dictionaries contribute: user before file *)
  Definition first_uf (U F : dict) (t : word) : option entry :=
    match lookup (wid t) U with Some e => Some e | None => lookup (wid t) F end.

  (* SentenceCapitalization for a sentence-first Word token t whose first character is alphabetic and not upper-case:
     `iu sp` = the canonical spelling sp has an upper-case letter after its first character and before a separator;
     `cur_proper k` = the curated metadata at id k is a proper noun (entries of the other dictionaries carry
     WordMetadata::default(): never a proper noun).  Both are arbitrary functions here. *)
  Variable iu : word -> bool.
  Variable cur_proper : word -> bool.
  Definition cap_fires (curated : dict) (rest : list dict) (t : word) : bool :=
    negb match lookup (wid t) curated with
         | Some e => cur_proper (wid t) || iu (fst e)
         | None => match m_get_meta is_lower lower rest t with Some e => iu (fst e) | None => false end
         end.
End Class.

(* ---- executable entry points (tie: stream V of the c07 driver) ---- *)
(* the merged dictionary [curated; user; file; identifiers] built from word lists: entry seen for token t *)
Definition x_view (tb : ctable) (cur : list entry) (us fs ids : list word) (t : word) : option entry :=
  let il := tb_is_lower tb in let lo := tb_lower tb in
  m_get_meta il lo [mk_curated tb cur; extend_words il lo [] us; extend_words il lo [] fs; extend_words il lo [] ids] t.
(* the exact test of the same merged dictionary *)
Definition x_exact (tb : ctable) (cur : list entry) (us fs ids : list word) (t : word) : bool :=
  let il := tb_is_lower tb in let lo := tb_lower tb in
  m_contains_exact il lo [mk_curated tb cur; extend_words il lo [] us; extend_words il lo [] fs; extend_words il lo [] ids] t.
Definition x_f15_keeps (tb : ctable) (w : word) (post : list word) : bool :=
  f15_keepsb (tb_is_lower tb) (tb_lower tb) w post.
