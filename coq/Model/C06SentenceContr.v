(* C06SentenceContr.v — phase 6, step 2: the sentence class of C06Sentence.v extended by CONTRACTIONS — words with one inner
   apostrophe (don't, MP3's, o’clock).  No proofs here.

   A sentence is a list of citems
       CW w          a word item of phase 5 (a letter followed by letters / ASCII digits)
       CC w1 q w2    w1 q w2 with w1, w2 such words and q an apostrophe (' or U+2019) — EXCEPT the shape  <one character> ' s
                     (a's, I's): lex_plural_digit already glues it in the lexer, where the answer depends on is_alphanumeric
                     of the following separator (outside letter_laws); it stays outside the class (with U+2019 it is inside)
       CS n, CP c    blank runs and separator punctuation of phase 5
   in which no two word-like items (CW, CC) and no two blank runs are adjacent — so a contraction is followed by a separator
   and never by another apostrophe (one inner apostrophe per word; x'y'z is outside).
   `expand` is what the LEXER sees: one sitem (= one token) per part, a contraction = Word Apostrophe Word.
   `collapse` is what Document::parse leaves: condense_contractions merges every Word ' Word into one Word.
   C06SentenceContrProofs.v proves  document_plain u (sent_text (expand cs)) = Ok (sent_tokens 0 (collapse cs)). *)
Require Import Base Tables_lexer Lexer Condense C06Words C06Sentence.

Inductive citem :=
| CW (w : text)
| CC (w1 : text) (q : N) (w2 : text)
| CS (n : nat)
| CP (c : N).

Definition expand1 (c : citem) : list sitem :=
  match c with
  | CW w => [SWord w]
  | CC w1 q w2 => [SWord w1; SPunct q; SWord w2]
  | CS n => [SSpace n]
  | CP c => [SPunct c]
  end.
Definition expand (cs : list citem) : list sitem := flat_map expand1 cs.

Definition collapse1 (c : citem) : sitem :=
  match c with
  | CW w => SWord w
  | CC w1 q w2 => SWord (w1 ++ q :: w2)
  | CS n => SSpace n
  | CP c => SPunct c
  end.
Definition collapse (cs : list citem) : list sitem := map collapse1 cs.

(* <one character> ' s : glued by lex_plural_digit *)
Definition glued (w1 : text) (q : N) (w2 : text) : bool :=
  (length w1 =? 1) && ceq q 39 && match w2 with [c] => ceq c 115 | _ => false end.

Definition citem_ok (u : uni) (c : citem) : bool :=
  match c with
  | CW w => sword_ok u w
  | CC w1 q w2 => sword_ok u w1 && sword_ok u w2 && is_apostrophe_char q && negb (glued w1 q w2)
  | CS n => 0 <? n
  | CP c => sep_punct c
  end.

Definition wordlike (c : citem) : bool := match c with CW _ | CC _ _ _ => true | _ => false end.
Definition cadjacent_ok (c : citem) (r : list citem) : bool :=
  match r with
  | [] => true
  | c' :: _ => negb (wordlike c && wordlike c') &&
               negb (match c, c' with CS _, CS _ => true | _, _ => false end)
  end.

Fixpoint sentc_ok (u : uni) (cs : list citem) : bool :=
  match cs with
  | [] => true
  | c :: r => citem_ok u c && cadjacent_ok c r && sentc_ok u r
  end.

(* ---------- entry point for the extracted driver: None = not a sentence of the class ---------- *)
Definition run_sentence_contr (u : uni) (cs : list citem) : option (text * list span * list span) :=
  if sentc_ok u cs
  then Some (sent_text (expand cs), map tspan (sent_tokens 0 (collapse cs)), sent_words 0 (collapse cs))
  else None.
