(* C03LintGroup.v — `impl Linter for LintGroup { fn lint }` (harper-core/src/linting/lint_group.rs), the WHOLE
   loop as the code has it, over abstract per-rule result functions.  Executable, no proofs
   (Proofs/C03LintGroupProofs.v).

     let mut results = Vec::new();
     for (key, linter) in &mut self.linters            { if enabled(key) { results.extend(linter.lint(document)) } }
     for chunk in document.iter_chunks() {
         let Some(chunk_span) = chunk.span() else { continue };                    hull_of          (Cache.v)
         let chunk_chars = document.get_span_content(&chunk_span);                 get_content      (Base.v)
         config_hash, token_hash { kind; start - chunk_span.start; end - chunk_span.start }   rel_toks (Cache.v)
         let key = (chunk_chars.into(), config_hash, token_hash);
         let mut chunk_results = if let Some(hit) = cache.get(&key) { hit.clone() } else {
             for (key, linter) in &mut self.pattern_linters { if enabled(key) { pattern_lints.extend(run_on_chunk(..)) } }
             for lint in &mut pattern_lints { lint.span.pull_by(chunk_span.start) }            lpull: checked
             cache.put(key, pattern_lints.clone()); pattern_lints };
         for lint in &mut chunk_results { lint.span.push_by(chunk_span.start) }                lpush
         results.append(&mut chunk_results) }
     results

   This differs from Cache.v (C05) where the pattern rules are ONE function returning chunk-relative lints:
   here each rule is its own function and returns what the code gets from it — lints in DOCUMENT space, which
   pull_by then has to bring below the chunk start (and panics on when a rule reports a span before its chunk).

   Abstract (Section variables):
     enabled      LintGroupConfig::is_rule_enabled, rule names as numbers
     cfg_hash / tok_hash   RandomState hashes of the configuration / of the chunk's (kind, relative span) list:
                  ARBITRARY functions — the in-bounds theorem needs no property of them (collisions allowed)
     linters / plinters    the two BTreeMaps in key order; a rule is a result function that also receives the
                  number of the `lint` call in the life of the instance (Linter::lint takes &mut self: a rule may
                  carry state, so its answer may differ from call to call)
     the LRU      a finite map that may lose ANY entries before any lookup (`evs`) and between calls (LEvict):
                  covers every capacity and replacement order *)
Require Import Base Cache.
From Coq Require Import List Arith NArith Bool.
Import ListNotations.

Section LintGroup.
  Variables cfg kind : Type.
  Notation toks := (list (tok kind)).

  (* a document as LintGroup::lint sees it: the source, the token slices of iter_chunks() in order, and an
     identity standing for everything else the whole-document rules read *)
  Record ldoc := mkldoc { l_src : text; l_chunks : list toks; l_rest : N }.

  Definition wrule := nat -> ldoc -> list clint.             (* linter.lint(document) *)
  Definition prule := nat -> text -> toks -> list clint.     (* run_on_chunk(linter, chunk, document.get_source()) *)

  Variable enabled : cfg -> N -> bool.
  Variable cfg_hash : cfg -> N.
  Variable tok_hash : toks -> N.
  Variable linters : list (N * wrule).
  Variable plinters : list (N * prule).

  Definition lkey := (text * N * N)%type.
  Definition lcache := list (lkey * list clint).

  Definition run_linters (t : nat) (c : cfg) (d : ldoc) : list clint :=
    flat_map (fun nr : N * wrule => if enabled c (fst nr) then snd nr t d else []) linters.
  Definition run_plinters (t : nat) (c : cfg) (src : text) (ts : toks) : list clint :=
    flat_map (fun nr : N * prule => if enabled c (fst nr) then snd nr t src ts else []) plinters.

  (* the `for chunk in document.iter_chunks()` loop; third component: hit (true) / miss per chunk with a span *)
  Fixpoint lg_chunks (t : nat) (c : cfg) (src : text) (chs : list toks) (evs : list (lkey -> bool)) (m : lcache)
    : res (lcache * list clint * list bool) :=
    match chs with
    | [] => Ok (m, [], [])
    | ts :: rest =>
        let m1 := evict (hd keep_all evs) m in
        do h <- hull_of ts;                                            (* chunk.span() *)
        match h with
        | None => lg_chunks t c src rest (tl evs) m1                   (* continue *)
        | Some sp =>
            do chars <- get_content sp src;                            (* document.get_span_content(&chunk_span) *)
            do rt <- rel_toks (sstart sp) ts;                          (* the token hash's subtractions *)
            let key := (chars, cfg_hash c, tok_hash rt) in
            do '(m2, rel, hit) <-
               match lookup code_key_eqb key m1 with
               | Some v => Ok (m1, v, true)                            (* hit.clone() *)
               | None =>
                   let pl := run_plinters t c src ts in
                   do rel <- mapM (lpull (sstart sp)) pl;              (* lint.span.pull_by(chunk_span.start) *)
                   Ok (put code_key_eqb key rel m1, rel, false)
               end;
            do '(m3, out, hits) <- lg_chunks t c src rest (tl evs) m2;
            Ok (m3, map (lpush (sstart sp)) rel ++ out, hit :: hits)   (* push_by(chunk_span.start); append *)
        end
    end.

  Record lstate := mklstate { lg_cfg : cfg; lg_cache : lcache; lg_time : nat }.
  Definition lg_fresh (c : cfg) : lstate := mklstate c [] 0.

  (* LintGroup::lint *)
  Definition lg_lint (st : lstate) (d : ldoc) (evs : list (lkey -> bool)) : res (lstate * list clint * list bool) :=
    let c := lg_cfg st in
    let t := lg_time st in
    let whole := run_linters t c d in
    do '(m, pat, hits) <- lg_chunks t c (l_src d) (l_chunks d) evs (lg_cache st);
    Ok (mklstate c m (S t), whole ++ pat, hits).

  Inductive lop :=
  | LSetCfg (c : cfg)                                   (* group.config = c *)
  | LLint (d : ldoc) (evs : list (lkey -> bool))
  | LEvict (keep : lkey -> bool).

  (* a history on ONE LintGroup; the (document, lints) pairs of its lint calls in order *)
  Fixpoint lg_run (h : list lop) (st : lstate) : res (lstate * list (ldoc * list clint)) :=
    match h with
    | [] => Ok (st, [])
    | LSetCfg c :: r => lg_run r (mklstate c (lg_cache st) (lg_time st))
    | LEvict keep :: r => lg_run r (mklstate (lg_cfg st) (evict keep (lg_cache st)) (lg_time st))
    | LLint d evs :: r =>
        do '(st1, out, _) <- lg_lint st d evs;
        do '(st2, outs) <- lg_run r st1;
        Ok (st2, (d, out) :: outs)
    end.
End LintGroup.

Arguments mkldoc {kind}.
Arguments l_src {kind}.
Arguments l_chunks {kind}.
Arguments l_rest {kind}.
Arguments mklstate {cfg}.
Arguments lg_cfg {cfg}.
Arguments lg_cache {cfg}.
Arguments lg_time {cfg}.
Arguments lg_fresh {cfg}.
Arguments LSetCfg {cfg kind}.
Arguments LLint {cfg kind}.
Arguments LEvict {cfg kind}.

(* ---------- driver entry point (extracted).  cfg := N (bit i = rule i enabled), kind := N (interned) ---------- *)
Definition drv_enabled (c : N) (name : N) : bool := N.testbit c name.

Definition run_lg_lint (cfg_hash : N -> N) (tok_hash : list (tok N) -> N)
    (linters : list (N * (nat -> ldoc N -> list clint)))
    (plinters : list (N * (nat -> text -> list (tok N) -> list clint)))
    (st : lstate N) (src : text) (chunks : list (list (tok N))) : option (lstate N * list clint * list bool) :=
  match lg_lint N N drv_enabled cfg_hash tok_hash linters plinters st (mkldoc src chunks 0%N) [] with
  | Ok r => Some r
  | Panic _ => None
  end.
Definition run_lg_set_cfg (st : lstate N) (c : N) : lstate N := mklstate c (lg_cache st) (lg_time st).
