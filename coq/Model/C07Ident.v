(* C07Ident.v — the identifier dictionary of source-code documents inside the per-document state of
   harper-ls/src/backend.rs  update_document  (as written after 6ece0c3 / 1f0bfb7):
     DocumentState { base_dict, ident_dict, dict, linter, .. }
       base_dict   the MergedDictionary [curated; user; file] loaded from the dictionary files at the last rebuild
       ident_dict  the MutableDictionary of the document's identifiers (create_ident_dict) the linter was built with
       dict        what the linter (and the document's tokens) are built with:  base  or  fresh base + identifiers
     update_document(url, text):
       dict := generate_file_dictionary(url)                                   (fresh = [curated; user; file])
       entry(url).or_insert(base_dict = dict = fresh, ident_dict = {})
       if base_dict != fresh   (child hashes)  { base_dict = dict = fresh; ident_dict = {}; new linter }
       source language (tree-sitter / literate haskell), new_dict = create_ident_dict(text):
         if ident_dict != new_dict  (HashMap ==)  { ident_dict = new_dict;
              dict = generate_file_dictionary(url) (loaded AGAIN) + new_dict; new linter }
       document := Document::new(text, parser, dict)
   The add commands call update_document_from_file for the url they were given (text = the copy on disk) after
   the save: `IUpdate`.  No proofs here. *)
Require Import Base DictIO.

Section Ident.
  Variable is_lower : N -> bool.
  Variable lower : N -> list N.
  Variable curated : dict.
  Variable iter_order : list word -> list word.

  (* TreeSitterMasker::create_ident_dict: the distinct leaf nodes whose kind contains "ident" (a HashSet),
     extend_words with WordMetadata::default(); `ids` is that set in the order the HashSet yields it *)
  Definition ident_dict (ids : list word) : dict := extend_words is_lower lower [] ids.

  Record dstate := mkds { ds_base : list dict; ds_ident : dict; ds_dict : list dict }.
  Definition icache := list (url * dstate).
  Fixpoint icache_get (u : url) (c : icache) : option dstate :=
    match c with
    | [] => None
    | (u', st) :: t => if url_eqb u u' then Some st else icache_get u t
    end.
  Definition icache_set (u : url) (st : dstate) (c : icache) : icache :=
    (u, st) :: filter (fun e => negb (url_eqb u (fst e))) c.

  (* nd = Some d: the document's language has identifiers and create_ident_dict gave d;  None: plain text,
     markdown, ... (no identifier handling) *)
  Definition update_doc (c : icache) (s : fsys) (u : url) (nd : option dict) : dstate :=
    let fresh := children is_lower lower curated s u in
    let st0 := match icache_get u c with Some st => st | None => mkds fresh [] fresh end in
    let st1 := if hashes_eqb iter_order (ds_base st0) fresh then st0 else mkds fresh [] fresh in
    match nd with
    | Some d => if dict_same (ds_ident st1) d then st1
                else mkds (ds_base st1) d (children is_lower lower curated s u ++ [d])
    | None => st1
    end.
  (* BEFORE 6ece0c3 there was no base_dict: `doc_state.dict != fresh` compared the dictionary WITH the identifiers
     (4 child hashes) against the fresh one (3 child hashes): different, so dict := fresh and a linter WITHOUT the
     identifiers was built, while ident_dict stayed — `ident_dict != new_dict` was then false for an unchanged set
     of identifiers and nothing merged them again: every second update of a source document lost its identifiers.
     Kept for the history Example only; not extracted. *)
  Fixpoint hashes_all_eqb (a b : list dict) : bool :=
    match a, b with
    | [], [] => true
    | x :: a', y :: b' => child_hash_eqb (child_words iter_order x) (child_words iter_order y) && hashes_all_eqb a' b'
    | _, _ => false
    end.
  Definition merged_eqb_old (a b : list dict) : bool :=
    match a, b with
    | _ :: ra, _ :: rb => hashes_all_eqb ra rb
    | [], [] => true
    | _, _ => false
    end.
  Definition update_doc_old (c : icache) (s : fsys) (u : url) (nd : option dict) : dstate :=
    let fresh := children is_lower lower curated s u in
    let st0 := match icache_get u c with Some st => st | None => mkds fresh [] fresh end in
    let st1 := if merged_eqb_old (ds_dict st0) fresh then st0 else mkds fresh (ds_ident st0) fresh in
    match nd with
    | Some d => if dict_same (ds_ident st1) d then st1
                else mkds fresh d (children is_lower lower curated s u ++ [d])
    | None => st1
    end.

  Inductive iop :=
  | IBase (o : op)                                       (* add / check of a plain document / restart / crashed add *)
  | LintSrc (u : url) (ids : list word) (toks : list word)   (* didOpen / didChange of a source document: its identifiers, the Word tokens of its comments *)
  | IUpdate (u : url) (ids : option (list word)).        (* update_document_from_file by an add command: no diagnostics compared *)

  Definition flags (cs : list dict) (toks : list word) : list bool :=
    map (fun t => negb (accepted is_lower lower cs t)) toks.

  Definition istep (st : fsys * icache) (o : iop) : (fsys * icache) * list bool :=
    let (s, c) := st in
    match o with
    | IBase (LintDoc u toks) =>
        let d := update_doc c s u None in ((s, icache_set u d c), flags (ds_dict d) toks)
    | LintSrc u ids toks =>
        let d := update_doc c s u (Some (ident_dict ids)) in ((s, icache_set u d c), flags (ds_dict d) toks)
    | IUpdate u ids =>
        let d := update_doc c s u (option_map ident_dict ids) in ((s, icache_set u d c), [])
    | IBase Restart => ((s, []), [])
    | IBase (CrashAdd sc w i) => ((fst (step_op is_lower lower curated iter_order s (CrashAdd sc w i)), []), [])
    | IBase (AddWord sc w) => ((fst (step_op is_lower lower curated iter_order s (AddWord sc w)), c), [])
    end.
  Fixpoint irun (st : fsys * icache) (h : list iop) : (fsys * icache) * list (list bool) :=
    match h with
    | [] => (st, [])
    | o :: r => let (st', out) := istep st o in
                let (st'', outs) := irun st' r in (st'', out :: outs)
    end.

  (* the reference: a server without any per-document state — every check loads the dictionary files and merges
     the identifiers of the text it is checking *)
  Definition iref_step (s : fsys) (o : iop) : fsys * list bool :=
    match o with
    | IBase o => step_op is_lower lower curated iter_order s o
    | LintSrc u ids toks => (s, flags (children is_lower lower curated s u ++ [ident_dict ids]) toks)
    | IUpdate _ _ => (s, [])
    end.
  Fixpoint iref (s : fsys) (h : list iop) : fsys * list (list bool) :=
    match h with
    | [] => (s, [])
    | o :: r => let (s', out) := iref_step s o in
                let (s'', outs) := iref s' r in (s'', out :: outs)
    end.

  (* the language of an open document is a function of its url (language_id is stored when the document state is
     created and never changes): a url is checked either always as source or always as plain text *)
  Definition well_kinded (is_src : url -> bool) (o : iop) : Prop :=
    match o with
    | IBase (LintDoc u _) => is_src u = false
    | LintSrc u _ _ => is_src u = true
    | IUpdate u (Some _) => is_src u = true
    | IUpdate u None => is_src u = false
    | IBase _ => True
    end.
End Ident.

(* the extracted server: per-document state with identifier dictionaries; the hash map iterates in the proposed order *)
Definition x_irun (tb : ctable) (cur : list entry) (order : list word) (st : fsys * icache) (h : list iop)
    : (fsys * icache) * list (list bool) :=
  irun (tb_is_lower tb) (tb_lower tb) (mk_curated tb cur) (proposed_order order) st h.
