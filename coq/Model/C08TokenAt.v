(* C08TokenAt.v — harper-core/src/document.rs: Document::get_token_at_char_index, the lookup
   DocumentState::generate_code_actions uses for its "Open URL" command, with the algorithm of
   core::slice::binary_search_by it runs (Rust >= 1.82: branch-free loop `while size > 1`, one final
   comparison).  No proofs here.

     pub fn get_token_at_char_index(&self, char_index: usize) -> Option<&Token> {
         let index = self.tokens.binary_search_by(|t| {
                 if t.span.overlaps_with(Span::new_with_len(char_index, 1)) { Ordering::Equal }
                 else { t.span.start.cmp(&char_index) }
             }).ok()?;
         Some(&self.tokens[index])
     }

   The token vector is whatever the parser produced: the model makes NO assumption on its order (Markdown
   puts the zero-width ParagraphBreak of a paragraph BEHIND the paragraph's tokens with the span of its
   start, so Markdown vectors are not sorted). *)
Require Import Base.

(* a token as far as this lookup and the Open URL command see it: its span and `kind == TokenKind::Url` *)
Record dtoken := mkdtoken { tspan : span; turl : bool }.

(* the comparator closure *)
Definition tok_cmp (i : nat) (t : dtoken) : comparison :=
  if overlaps (tspan t) (span_new_with_len i 1) then Eq else Nat.compare (sstart (tspan t)) i.

Section BinarySearch.
  Context {A : Type}.
  Variable f : A -> comparison.

  (* while size > 1 { let half = size / 2; let mid = base + half;
                      let cmp = f(self.get_unchecked(mid));
                      base = if cmp == Greater { base } else { mid };
                      size -= half; }
     get_unchecked is modelled CHECKED (Panic PIndex): bs_loop_total shows it never fires. *)
  Fixpoint bs_loop (l : list A) (fuel size base : nat) : res nat :=
    if size <=? 1 then Ok base
    else match fuel with
         | 0 => Panic PFuel
         | S fuel' =>
             let half := size / 2 in
             let mid := base + half in
             do x <- nth_chk l mid;
             let base' := match f x with Gt => base | _ => mid end in
             bs_loop l fuel' (size - half) base'
         end.

  (* Result<usize, usize> as nat + nat: inl = Ok(index), inr = Err(insertion point) *)
  Definition binary_search_by (l : list A) : res (nat + nat) :=
    let size := length l in
    if size =? 0 then Ok (inr 0)
    else
      do base <- bs_loop l size size 0;
      do x <- nth_chk l base;
      match f x with
      | Eq => Ok (inl base)
      | Lt => Ok (inr (base + 1))
      | Gt => Ok (inr base)
      end.
End BinarySearch.

(* `.ok()?` then `&self.tokens[index]` (a checked index) *)
Definition token_at (toks : list dtoken) (i : nat) : res (option dtoken) :=
  do r <- binary_search_by (tok_cmp i) toks;
  match r with
  | inl k => do t <- nth_chk toks k; Ok (Some t)
  | inr _ => Ok None
  end.

(* `if let Some(Token { kind: TokenKind::Url, span, .. }) = self.document.get_token_at_char_index(..)`;
   a panic of the lookup (there is none: token_at_total) would be the None of this total function *)
Definition url_token_at_vec (toks : list dtoken) (i : nat) : option span :=
  match token_at toks i with
  | Ok (Some t) => if turl t then Some (tspan t) else None
  | _ => None
  end.

(* ---- specification side ---- *)
(* the token vector of plain-English and most other parsers: every token non-empty, each ends where or
   before the next starts *)
Fixpoint toks_sorted (toks : list dtoken) : Prop :=
  match toks with
  | [] => True
  | t :: rest =>
      sstart (tspan t) < send (tspan t)
      /\ match rest with [] => True | u :: _ => send (tspan t) <= sstart (tspan u) end
      /\ toks_sorted rest
  end.

Definition tok_contains (t : dtoken) (i : nat) : Prop := sstart (tspan t) <= i < send (tspan t).

(* what the function is for: the first token containing the character, by a linear scan
   (the proposed replacement, fixes/c08-token-at-char-index-linear.diff) *)
Definition token_at_spec (toks : list dtoken) (i : nat) : option dtoken :=
  find (fun t => overlaps (tspan t) (span_new_with_len i 1)) toks.

(* driver entry: "N", or the found token *)
Definition run_token_at (toks : list (nat * nat * bool)) (i : nat) : option (option (nat * nat * bool)) :=
  match token_at (map (fun p => mkdtoken (mkspan (fst (fst p)) (snd (fst p))) (snd p)) toks) i with
  | Ok (Some t) => Some (Some (sstart (tspan t), send (tspan t), turl t))
  | Ok None => Some None
  | Panic _ => None
  end.

(* driver entry: the raw Result of binary_search_by under the lookup's comparator: (true, k) = Ok(k),
   (false, k) = Err(k) *)
Definition run_binary_search (toks : list (nat * nat * bool)) (i : nat) : option (bool * nat) :=
  match binary_search_by (tok_cmp i) (map (fun p => mkdtoken (mkspan (fst (fst p)) (snd (fst p))) (snd p)) toks) with
  | Ok (inl k) => Some (true, k)
  | Ok (inr k) => Some (false, k)
  | Panic _ => None
  end.
