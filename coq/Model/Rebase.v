(* Rebase.v — the chunk cache of LintGroup::lint (lint_group.rs): on a miss every pattern lint of the
   chunk is stored with `span.pull_by(chunk_span.start)`, and on every path (hit or miss) the chunk's
   results are re-emitted with `span.push_by(chunk_span.start)` of the chunk being linted NOW.
   Executable, no proofs. *)
Require Import Base.

(* what a later hit at chunk start a' emits for a lint found at [s,e) in a chunk starting at a *)
Definition rebase_span (a a' : nat) (se : nat * nat) : res (nat * nat) :=
  do rel <- pull_by (mkspan (fst se) (snd se)) a;
  let out := push_by rel a' in
  Ok (sstart out, send out).

(* None = the implementation panics (debug build: usize underflow in pull_by) *)
Fixpoint run_rebase (a a' : nat) (ls : list (nat * nat)) : option (list (nat * nat)) :=
  match ls with
  | [] => Some []
  | se :: t =>
      match rebase_span a a' se, run_rebase a a' t with
      | Ok x, Some r => Some (x :: r)
      | _, _ => None
      end
  end.
