(* Server.v — the harper-ls handlers as a labelled transition system (property C09).
   Mirrors harper-ls/src/backend.rs (did_open / did_change / did_save / did_close /
   did_change_watched_files / execute_command / did_change_configuration, update_document,
   update_document_from_file, publish_diagnostics, pull_config) and the dispatch of tower-lsp 0.20
   (transport.rs: requests AND notifications are forwarded through buffer_unordered(4)).

   One `instr` = the code between two `.await`s that can really suspend the handler (a client
   round-trip, a tokio::fs operation on the blocking pool, a flush of the client channel, a wait
   for the doc_state mutex).  Everything inside one instr runs without interruption: all handler
   futures are polled by the single `serve` task, so they interleave only at awaits.
   An `.await` on a free tokio Mutex/RwLock does not suspend, hence is not an instr boundary; an
   instr that takes the doc_state mutex is *enabled* only when the mutex is free.

   No proofs here.  What is abstract:
     text   = (id, ident): an identifier of the character sequence + an identifier of the set of
              source-code identifiers a tree-sitter parser extracts from it (create_ident_dict)
     cfg    = an identifier of the client's settings object (paths of the dictionary files are fixed)
     word   = an identifier of a dictionary word
     version = nat (textDocument.version; the clients considered number their messages from 0 upwards)
     diagnostics are represented by their *provenance* `dargs`: the text, language, the dictionary of
     the linter, the dictionary the document was parsed with, linter configuration, parse configuration,
     severity configuration and ignore list they were computed from
     (DocumentState::generate_diagnostics is a function of exactly these).

   State of /repo modelled: after `fix: an update with an older document version never replaces a newer
   text` + `fix: an outdated update leaves the document state alone altogether` (DocumentState.version, the
   check is the first thing done under the doc_state lock; updates from a file carry no version), `fix: the identifier dictionary of a source file
   survives later updates` (DocumentState.base_dict) and `fix: save_dict writes to a temporary file and
   renames it over the dictionary` (no truncated dictionary file is ever visible), `fix: add-to-dictionary
   commands load, extend and save a dictionary under one lock` (Backend.dict_write_lock = s_dlock: ILoadUD / ILoadFD
   are enabled only while it is free and take it, IWriteUD / IWriteFD release it). *)
Require Import Base.

(* ---------- urls, languages, texts, dictionaries ---------- *)
Inductive url := UFile (d n : nat) | UUntitled (n : nat).
Inductive target := TFile (d n : nat) | TDir (d : nat).   (* uri of a didChangeWatchedFiles DELETED event *)

Definition url_eqb (a b : url) : bool :=
  match a, b with
  | UFile d n, UFile d' n' => (d =? d') && (n =? n')
  | UUntitled n, UUntitled n' => n =? n'
  | _, _ => false
  end.

(* `url.as_str().starts_with(change.uri.as_str())`: the file itself or anything below a directory
   (file names used by the harness are never prefixes of one another) *)
Definition matches (tg : target) (u : url) : bool :=
  match tg, u with
  | TFile d n, UFile d' n' => (d =? d') && (n =? n')
  | TDir d, UFile d' _ => d =? d'
  | _, UUntitled _ => false
  end.

Definition is_file (u : url) : bool := match u with UFile _ _ => true | UUntitled _ => false end.

Inductive lang := LPlain | LMarkdown | LCode | LUnknown.
Inductive lkind := KPlain | KCode | KNone.
(* the `match language_id` of update_document: tree-sitter languages build an identifier dictionary,
   markdown/plaintext/html/typst/git-commit/mail do not, anything else has no parser *)
Definition kind (l : lang) : lkind :=
  match l with LPlain => KPlain | LMarkdown => KPlain | LCode => KCode | LUnknown => KNone end.
Definition lang_eqb (a b : lang) : bool :=
  match a, b with
  | LPlain, LPlain | LMarkdown, LMarkdown | LCode, LCode | LUnknown, LUnknown => true
  | _, _ => false
  end.

Record text := mktext { t_id : nat; t_ident : nat }.   (* t_ident = 0: no identifiers (empty ident dict) *)
Definition word := nat.
Definition cfg := nat.

(* a MergedDictionary: curated ++ user dictionary ++ file dictionary (++ identifier dictionary) *)
Record dictv := mkdict { dv_user : list word; dv_file : list word; dv_ident : nat }.

Fixpoint list_eqb (a b : list nat) : bool :=
  match a, b with
  | [], [] => true
  | x :: a', y :: b' => (x =? y) && list_eqb a' b'
  | _, _ => false
  end.
(* MergedDictionary::eq compares the hashes of the children's word lists *)
Definition dictv_eqb (a b : dictv) : bool :=
  list_eqb (dv_user a) (dv_user b) && list_eqb (dv_file a) (dv_file b) && (dv_ident a =? dv_ident b).

(* ---------- published diagnostics, by provenance ---------- *)
Record dargs := mkargs {
  a_text : text; a_lang : lang;
  a_dict : dictv;    (* dictionary of the LintGroup (SpellCheck::dictionary) *)
  a_ddict : dictv;   (* dictionary the Document was parsed with (word metadata, CollapseIdentifiers) *)
  a_lcfg : cfg;      (* lint_config + dialect the LintGroup was built with *)
  a_pcfg : cfg;      (* markdown options + isolate_english the Document was parsed with *)
  a_scfg : cfg;      (* diagnostic_severity at publish time *)
  a_ign : list nat   (* ignored lints *)
}.
Inductive pub := PEmpty | PDiag (a : dargs).

(* ---------- association lists keyed by url ---------- *)
Section Assoc.
  Context {V : Type}.
  Fixpoint lookup (u : url) (m : list (url * V)) : option V :=
    match m with
    | [] => None
    | (k, v) :: m' => if url_eqb u k then Some v else lookup u m'
    end.
  Fixpoint remove (u : url) (m : list (url * V)) : list (url * V) :=
    match m with
    | [] => []
    | (k, v) :: m' => if url_eqb u k then remove u m' else (k, v) :: remove u m'
    end.
  (* HashMap::insert / entry().or_insert + mutation *)
  Definition upsert (u : url) (v : V) (m : list (url * V)) : list (url * V) := (u, v) :: remove u m.
  Definition keys (m : list (url * V)) : list url := map fst m.
End Assoc.

Definition mem_url (u : url) (l : list url) : bool := existsb (url_eqb u) l.

(* IgnoredLints is a HashSet of context hashes: ignore lists are kept sorted and without duplicates *)
Fixpoint ins (k : nat) (l : list nat) : list nat :=
  match l with
  | [] => [k]
  | x :: l' => if k <? x then k :: l else if k =? x then l else x :: ins k l'
  end.

(* ---------- DocumentState ---------- *)
Record entry := mkentry {
  e_lang : option lang;       (* language_id *)
  e_dict : dictv;             (* dict; the linter's dictionary is always this one *)
  e_ident : nat;              (* ident_dict (0 = Default::default(), the empty dictionary) *)
  e_lcfg : cfg;               (* configuration the linter was built with *)
  e_text : option text;       (* document (None = Default::default(), the empty document) *)
  e_pcfg : cfg;               (* configuration the document was parsed with *)
  e_ign : list nat;           (* ignored_lints *)
  e_base : dictv;             (* base_dict: what was loaded from the dictionary files last time *)
  e_ddict : dictv;            (* the dictionary `document` was parsed with: Document::new(text, &parser, &doc_state.dict) *)
  e_ver : option nat          (* version *)
}.

(* cd_ver: the version the client sent with its last didOpen / didChange for the document *)
Record cdoc := mkcdoc { cd_lang : lang; cd_text : text; cd_ign : list nat; cd_ver : nat }.

(* ---------- the world: client, file system, server ---------- *)
Record world := mkworld {
  w_open : list (url * cdoc);          (* client: open buffers *)
  w_ccfg : cfg;                        (* client: current settings *)
  w_disk : list (url * text);          (* file system: documents *)
  w_udict : list word;                 (* file system: user dictionary file *)
  w_fdict : list (url * list word);    (* file system: per-file dictionaries *)
  s_cfg : cfg;                         (* Backend.config *)
  s_docs : list (url * entry);         (* Backend.doc_state *)
  s_lock : bool;                       (* doc_state mutex held by a suspended handler *)
  s_log : list (url * pub);            (* publishDiagnostics sent so far, newest first *)
  s_dlock : bool                       (* Backend.dict_write_lock held by a suspended handler (cfbe845) *)
}.

Definition set_open f w := mkworld f (w_ccfg w) (w_disk w) (w_udict w) (w_fdict w) (s_cfg w) (s_docs w) (s_lock w) (s_log w) (s_dlock w).
Definition set_ccfg f w := mkworld (w_open w) f (w_disk w) (w_udict w) (w_fdict w) (s_cfg w) (s_docs w) (s_lock w) (s_log w) (s_dlock w).
Definition set_disk f w := mkworld (w_open w) (w_ccfg w) f (w_udict w) (w_fdict w) (s_cfg w) (s_docs w) (s_lock w) (s_log w) (s_dlock w).
Definition set_udict f w := mkworld (w_open w) (w_ccfg w) (w_disk w) f (w_fdict w) (s_cfg w) (s_docs w) (s_lock w) (s_log w) (s_dlock w).
Definition set_fdict f w := mkworld (w_open w) (w_ccfg w) (w_disk w) (w_udict w) f (s_cfg w) (s_docs w) (s_lock w) (s_log w) (s_dlock w).
Definition set_scfg f w := mkworld (w_open w) (w_ccfg w) (w_disk w) (w_udict w) (w_fdict w) f (s_docs w) (s_lock w) (s_log w) (s_dlock w).
Definition set_docs f w := mkworld (w_open w) (w_ccfg w) (w_disk w) (w_udict w) (w_fdict w) (s_cfg w) f (s_lock w) (s_log w) (s_dlock w).
Definition set_lock f w := mkworld (w_open w) (w_ccfg w) (w_disk w) (w_udict w) (w_fdict w) (s_cfg w) (s_docs w) f (s_log w) (s_dlock w).
Definition set_log f w := mkworld (w_open w) (w_ccfg w) (w_disk w) (w_udict w) (w_fdict w) (s_cfg w) (s_docs w) (s_lock w) f (s_dlock w).
Definition set_dlock f w := mkworld (w_open w) (w_ccfg w) (w_disk w) (w_udict w) (w_fdict w) (s_cfg w) (s_docs w) (s_lock w) (s_log w) f.

Definition send (u : url) (p : pub) (w : world) : world := set_log ((u, p) :: s_log w) w.

(* load_file_dictionary: untitled documents have the empty dictionary; a missing file reads as empty *)
Definition fdict_of (w : world) (u : url) : list word :=
  if is_file u then match lookup u (w_fdict w) with Some l => l | None => [] end else [].

(* MutableDictionary::append_word *)
Definition add_word (x : word) (l : list word) : list word :=
  if existsb (Nat.eqb x) l then l else l ++ [x].

(* ---------- operations of the client ---------- *)
Inductive op :=
| Open (u : url) (l : lang) (t : text) (v : nat)
| Change (u : url) (t : text) (v : nat)
| Save (u : url)
| Close (u : url)
| Delete (tg : target)
| AddUser (x : word) (u : url)
| AddFile (x : word) (u : url)
| Ignore (u : url) (k : nat)
| RecordLint
| CfgChange (c : cfg) (order : list url).   (* `order` resolves the HashMap iteration order *)

(* what the client (and the file system) does when it sends the message *)
Definition client_effect (o : op) (w : world) : world :=
  match o with
  | Open u l t v => set_open (upsert u (mkcdoc l t [] v) (w_open w)) w
  | Change u t v =>
      match lookup u (w_open w) with
      | Some cd => set_open (upsert u (mkcdoc (cd_lang cd) t (cd_ign cd) v) (w_open w)) w
      | None => w
      end
  | Save u =>
      match lookup u (w_open w) with
      | Some cd => if is_file u then set_disk (upsert u (cd_text cd) (w_disk w)) w else w
      | None => w
      end
  | Close u => set_open (remove u (w_open w)) w
  | Delete tg =>
      set_open (filter (fun kv => negb (matches tg (fst kv))) (w_open w))
        (set_disk (filter (fun kv => negb (matches tg (fst kv))) (w_disk w)) w)
  | Ignore u k =>
      match lookup u (w_open w) with
      | Some cd => set_open (upsert u (mkcdoc (cd_lang cd) (cd_text cd) (ins k (cd_ign cd)) (cd_ver cd)) (w_open w)) w
      | None => w
      end
  | CfgChange c _ => set_ccfg c w
  | AddUser _ _ | AddFile _ _ | RecordLint => w
  end.

(* ---------- handlers ---------- *)
Record locals := mklocals {
  l_url : url;
  l_text : option text;     (* text to install *)
  l_lang : option lang;     (* language_id argument of update_document *)
  l_ans : cfg;              (* the client's answer to workspace/configuration *)
  l_snap : cfg;             (* the copy of the configuration taken by update_document *)
  l_ud : list word;         (* user dictionary as read *)
  l_fd : list word;         (* file dictionary as read *)
  l_word : word;
  l_queue : list url;
  l_ver : option nat        (* version argument of update_document (None: text re-read from the file) *)
}.
Definition loc0 (u : url) : locals := mklocals u None None 0 0 [] [] 0 [] None.
Definition lset_url u l := mklocals u (l_text l) (l_lang l) (l_ans l) (l_snap l) (l_ud l) (l_fd l) (l_word l) (l_queue l) (l_ver l).
Definition lset_text t l := mklocals (l_url l) t (l_lang l) (l_ans l) (l_snap l) (l_ud l) (l_fd l) (l_word l) (l_queue l) (l_ver l).
Definition lset_lang g l := mklocals (l_url l) (l_text l) g (l_ans l) (l_snap l) (l_ud l) (l_fd l) (l_word l) (l_queue l) (l_ver l).
Definition lset_ans c l := mklocals (l_url l) (l_text l) (l_lang l) c (l_snap l) (l_ud l) (l_fd l) (l_word l) (l_queue l) (l_ver l).
Definition lset_snap c l := mklocals (l_url l) (l_text l) (l_lang l) (l_ans l) c (l_ud l) (l_fd l) (l_word l) (l_queue l) (l_ver l).
Definition lset_ud d l := mklocals (l_url l) (l_text l) (l_lang l) (l_ans l) (l_snap l) d (l_fd l) (l_word l) (l_queue l) (l_ver l).
Definition lset_fd d l := mklocals (l_url l) (l_text l) (l_lang l) (l_ans l) (l_snap l) (l_ud l) d (l_word l) (l_queue l) (l_ver l).
Definition lset_word x l := mklocals (l_url l) (l_text l) (l_lang l) (l_ans l) (l_snap l) (l_ud l) (l_fd l) x (l_queue l) (l_ver l).
Definition lset_queue q l := mklocals (l_url l) (l_text l) (l_lang l) (l_ans l) (l_snap l) (l_ud l) (l_fd l) (l_word l) q (l_ver l).
Definition lset_ver v l := mklocals (l_url l) (l_text l) (l_lang l) (l_ans l) (l_snap l) (l_ud l) (l_fd l) (l_word l) (l_queue l) v.

Inductive instr :=
(* update_document *)
| ICfgReq        (* pull_config: the workspace/configuration request goes out *)
| IAnswer        (* the client answers it with its current settings *)
| IRecv          (* update_config_from_obj: config.write() *)
| ISnap          (* "Copy necessary configuration to avoid holding lock" *)
| IReadUD        (* load_user_dictionary (tokio::fs) *)
| IReadFD        (* load_file_dictionary (tokio::fs) *)
| IUpdate        (* doc_state.lock(); entry; dictionary comparison; language; parse *)
| IIdentUD       (* use_ident_dict -> generate_file_dictionary, doc_state mutex HELD *)
| IIdentFD
| IIdentFinish   (* merged dictionary, new linter, Document::new; mutex released *)
(* update_document_from_file *)
| IReadFile      (* tokio::fs::read_to_string(url.to_file_path()) *)
(* publish_diagnostics *)
| IPublish
(* execute_command *)
| ILoadUD | ITmpUD | IWriteUD     (* dict_write_lock.lock() + load_user_dictionary; save_dict = write a temporary sibling,
                                     then rename it over the file; the guard is dropped right after the rename *)
| ILoadFD | ITmpFD | IWriteFD
| IIgnore (k : nat)
| IRecord
(* did_close / did_change_watched_files: the mutex guard lives to the end of the function *)
| IClose
| IDelete (tg : target)
| IDelSend
| IUnlock
(* did_change_configuration *)
| ICfgSet (c : cfg)
| ICfgRebuild (order : list url)
| ICfgNext.

Definition update_seq : list instr := [ICfgReq; IAnswer; IRecv; ISnap; IReadUD; IReadFD; IUpdate].

Definition new_entry (lg : option lang) (d : dictv) (c : cfg) : entry := mkentry lg d 0 c None c [] d d None.
(* a new merged dictionary + a new linter (use_ident_dict) *)
Definition e_set_dict d c e := mkentry (e_lang e) d (e_ident e) c (e_text e) (e_pcfg e) (e_ign e) (e_base e) (e_ddict e) (e_ver e).
Definition e_set_ident i e := mkentry (e_lang e) (e_dict e) i (e_lcfg e) (e_text e) (e_pcfg e) (e_ign e) (e_base e) (e_ddict e) (e_ver e).
Definition e_set_lcfg c e := mkentry (e_lang e) (e_dict e) (e_ident e) c (e_text e) (e_pcfg e) (e_ign e) (e_base e) (e_ddict e) (e_ver e).
(* doc_state.document = Document::new(text, &parser, &doc_state.dict) *)
Definition e_set_doc t c e := mkentry (e_lang e) (e_dict e) (e_ident e) (e_lcfg e) (Some t) c (e_ign e) (e_base e) (e_dict e) (e_ver e).
Definition e_add_ign k e := mkentry (e_lang e) (e_dict e) (e_ident e) (e_lcfg e) (e_text e) (e_pcfg e) (ins k (e_ign e)) (e_base e) (e_ddict e) (e_ver e).
Definition e_set_ver v e := mkentry (e_lang e) (e_dict e) (e_ident e) (e_lcfg e) (e_text e) (e_pcfg e) (e_ign e) (e_base e) (e_ddict e) v.
(* `if doc_state.base_dict != dict { base_dict = dict; dict = dict; ident_dict = Default; linter = new }` *)
Definition e_rebase d c e := mkentry (e_lang e) d 0 c (e_text e) (e_pcfg e) (e_ign e) d (e_ddict e) (e_ver e).
Definition rebase d c e := if dictv_eqb (e_base e) d then e else e_rebase d c e.
(* `if let (Some(new), Some(current)) = (version, doc_state.version) { if new < current { return } }` *)
Definition stale (nv cv : option nat) : bool :=
  match nv, cv with Some n, Some c => n <? c | _, _ => false end.
(* `if version.is_some() { doc_state.version = version }` *)
Definition bump (nv : option nat) (e : entry) : entry := match nv with Some _ => e_set_ver nv e | None => e end.

(* what publish_diagnostics(url) sends: generate_diagnostics on the entry, [] when there is none *)
Definition pubval (w : world) (u : url) : pub :=
  match lookup u (s_docs w) with
  | Some e =>
      match e_text e, e_lang e with
      | Some t, Some lg => PDiag (mkargs t lg (e_dict e) (e_ddict e) (e_lcfg e) (e_pcfg e) (s_cfg w) (e_ign e))
      | _, _ => PEmpty
      end
  | None => PEmpty
  end.

(* the keys of doc_state in the order `order` says (urls it does not mention keep the list order) *)
Definition order_keys (order ks : list url) : list url :=
  filter (fun u => mem_url u ks) order ++ filter (fun u => negb (mem_url u order)) ks.

(* exec i l w = None: the instr is blocked (doc_state mutex held by another handler).
   Otherwise Some (instrs to run next, before the rest of the program; locals; world). *)
Definition exec (i : instr) (l : locals) (w : world) : option (list instr * locals * world) :=
  let u := l_url l in
  match i with
  | ICfgReq => Some ([], l, w)
  | IAnswer => Some ([], lset_ans (w_ccfg w) l, w)
  | IRecv => Some ([], l, set_scfg (l_ans l) w)
  | ISnap => Some ([], lset_snap (s_cfg w) l, w)
  | IReadUD | IIdentUD => Some ([], lset_ud (w_udict w) l, w)
  | ILoadUD =>
      (* `let _guard = self.dict_write_lock.lock().await;` then load_user_dictionary: the handler waits while
         another add-word command holds the lock; the guard lives until the dictionary has been saved *)
      if s_dlock w then None else Some ([], lset_ud (w_udict w) l, set_dlock true w)
  | IReadFD | IIdentFD => Some ([], lset_fd (fdict_of w u) l, w)
  | IUpdate =>
      if s_lock w then None else
      match l_text l with
      | None => Some ([], l, w)
      | Some t =>
        let d := mkdict (l_ud l) (l_fd l) 0 in
        let e0 := match lookup u (s_docs w) with Some e => e | None => new_entry (l_lang l) d (l_snap l) end in
        (* the version check: the first thing done under the lock; an outdated update leaves doc_state alone *)
        if stale (l_ver l) (e_ver e0) then Some ([], l, w) else
        let e1 := bump (l_ver l) e0 in
        let e2 := rebase d (l_snap l) e1 in
        match e_lang e2 with
        | None => Some ([], l, set_docs (remove u (s_docs w)) w)
        | Some lg =>
          match kind lg with
          | KNone => Some ([], l, set_docs (remove u (s_docs w)) w)
          | KPlain => Some ([], l, set_docs (upsert u (e_set_doc t (l_snap l) e2) (s_docs w)) w)
          | KCode =>
              if e_ident e2 =? t_ident t
              then Some ([], l, set_docs (upsert u (e_set_doc t (l_snap l) e2) (s_docs w)) w)
              else Some ([IIdentUD; IIdentFD; IIdentFinish], l,
                         set_lock true (set_docs (upsert u (e_set_ident (t_ident t) e2) (s_docs w)) w))
          end
        end
      end
  | IIdentFinish =>
      match l_text l, lookup u (s_docs w) with
      | Some t, Some e =>
          let e' := e_set_doc t (l_snap l) (e_set_dict (mkdict (l_ud l) (l_fd l) (e_ident e)) (l_snap l) e) in
          Some ([], l, set_lock false (set_docs (upsert u e' (s_docs w)) w))
      | _, _ => Some ([], l, set_lock false w)
      end
  | IReadFile =>
      if is_file u then
        match lookup u (w_disk w) with
        | Some t => Some (update_seq, lset_ver None (lset_lang None (lset_text (Some t) l)), w)
        | None => Some ([], l, w)
        end
      else Some ([], l, w)
  | IPublish => if s_lock w then None else Some ([], l, send u (pubval w u) w)
  | ITmpUD => Some ([], l, w)
  | IWriteUD => Some ([], l, set_dlock false (set_udict (add_word (l_word l) (l_ud l)) w))
  | ILoadFD =>
      (* untitled: Ok(empty); save_file_dictionary then fails in file_dict_name, nothing is written *)
      (* the guard is taken first in both cases; for an untitled document it is dropped again before
         anything can suspend *)
      if s_dlock w then None else
      if is_file u then Some ([ITmpFD; IWriteFD], lset_fd (fdict_of w u) l, set_dlock true w)
      else Some ([], lset_fd [] l, w)
  | ITmpFD => Some ([], l, w)
  | IWriteFD => Some ([], l, set_dlock false (set_fdict (upsert u (add_word (l_word l) (l_fd l)) (w_fdict w)) w))
  | IIgnore k =>
      if s_lock w then None else
      match lookup u (s_docs w) with
      | Some e => Some ([IPublish], l, set_docs (upsert u (e_add_ign k e) (s_docs w)) w)
      | None => Some ([], l, w)     (* "Requested document has not been loaded." *)
      end
  | IRecord => Some ([], l, w)
  | IClose =>
      if s_lock w then None else
      Some ([], l, set_lock true (send u PEmpty (set_docs (remove u (s_docs w)) w)))
  | IDelete tg =>
      if s_lock w then None else
      let gone := filter (matches tg) (keys (s_docs w)) in
      Some (map (fun _ => IDelSend) gone, lset_queue gone l,
            set_lock true (set_docs (filter (fun kv => negb (matches tg (fst kv))) (s_docs w)) w))
  | IDelSend =>
      match l_queue l with
      | v :: q => Some ([], lset_queue q l, send v PEmpty w)
      | [] => Some ([], l, w)
      end
  | IUnlock => Some ([], l, set_lock false w)
  | ICfgSet c => Some ([], l, set_scfg c w)
  | ICfgRebuild order =>
      if s_lock w then None else
      Some ([ICfgNext], lset_queue (order_keys order (keys (s_docs w))) l,
            set_docs (map (fun kv => (fst kv, e_set_lcfg (s_cfg w) (snd kv))) (s_docs w)) w)
  | ICfgNext =>
      match l_queue l with
      | v :: q => Some ([IReadFile; IPublish; ICfgNext], lset_queue q (lset_text None (lset_url v l)), w)
      | [] => Some ([], l, w)
      end
  end.

(* the handler of each message: its first instrs and its arguments *)
Definition prog (o : op) : list instr :=
  match o with
  | Open _ _ _ _ | Change _ _ _ => update_seq ++ [IPublish]
  | Save _ => [IReadFile; IPublish]
  | Close _ => [IClose; IUnlock]
  | Delete tg => [IDelete tg; IUnlock]
  | AddUser _ _ => [ILoadUD; ITmpUD; IWriteUD; IReadFile; IPublish]
  | AddFile _ _ => [ILoadFD; IReadFile; IPublish]
  | Ignore _ k => [IIgnore k]
  | RecordLint => [IRecord]
  | CfgChange c order => [ICfgSet c; ICfgRebuild order]
  end.

Definition no_url : url := UUntitled 0.
Definition locals_of (o : op) : locals :=
  match o with
  | Open u lg t v => lset_ver (Some v) (lset_lang (Some lg) (lset_text (Some t) (loc0 u)))
  | Change u t v => lset_ver (Some v) (lset_text (Some t) (loc0 u))
  | Save u | Close u | Ignore u _ => loc0 u
  | AddUser x u | AddFile x u => lset_word x (loc0 u)
  | Delete _ | RecordLint | CfgChange _ _ => loc0 no_url
  end.

(* ---------- the dispatcher: at most four handlers in flight, any enabled one may advance ---------- *)
Record hstate := mkh { h_id : nat; h_prog : list instr; h_loc : locals }.
Record sys := mksys { y_world : world; y_flight : list hstate; y_todo : list op; y_next : nat }.

Definition max_in_flight : nat := 4.

Inductive choice :=
| CAdmit            (* buffer_unordered takes the next message from the queue and starts its handler *)
| CRun (id : nat).  (* handler `id` runs up to its next await *)

Fixpoint find_h (id : nat) (hs : list hstate) : option hstate :=
  match hs with
  | [] => None
  | h :: hs' => if h_id h =? id then Some h else find_h id hs'
  end.
Fixpoint replace_h (h' : hstate) (hs : list hstate) : list hstate :=
  match hs with
  | [] => []
  | h :: hs' => if h_id h =? h_id h' then (if match h_prog h' with [] => true | _ => false end then hs' else h' :: hs')
                else h :: replace_h h' hs'
  end.

Definition step (c : choice) (y : sys) : option sys :=
  match c with
  | CAdmit =>
      match y_todo y with
      | o :: rest =>
          if length (y_flight y) <? max_in_flight
          then Some (mksys (client_effect o (y_world y))
                           (y_flight y ++ [mkh (y_next y) (prog o) (locals_of o)]) rest (S (y_next y)))
          else None
      | [] => None
      end
  | CRun id =>
      match find_h id (y_flight y) with
      | Some h =>
          match h_prog h with
          | i :: p =>
              match exec i (h_loc h) (y_world y) with
              | Some (push, l', w') =>
                  Some (mksys w' (replace_h (mkh id (push ++ p) l') (y_flight y)) (y_todo y) (y_next y))
              | None => None
              end
          | [] => None
          end
      | None => None
      end
  end.

Fixpoint run (cs : list choice) (y : sys) : option sys :=
  match cs with
  | [] => Some y
  | c :: cs' => match step c y with Some y' => run cs' y' | None => None end
  end.

Definition init (h : list op) (w : world) : sys := mksys w [] h 0.
Definition quiescent (y : sys) : Prop := y_flight y = [] /\ y_todo y = [].
Definition quiescentb (y : sys) : bool :=
  match y_flight y, y_todo y with [], [] => true | _, _ => false end.

(* ---------- one handler at a time ---------- *)
(* run a program to completion without interruption; fuel bounds the number of instrs *)
Fixpoint run_prog (fuel : nat) (p : list instr) (l : locals) (w : world) : option world :=
  match p with
  | [] => Some w
  | i :: p' =>
      match fuel with
      | 0 => None
      | S f =>
          match exec i l w with
          | Some (push, l', w') => run_prog f (push ++ p') l' w'
          | None => None
          end
      end
  end.

(* every program of a handler started in world w ends within this many instrs *)
Definition fuel_for (w : world) : nat := 16 + 14 * length (s_docs w).

Definition run_op (o : op) (w : world) : option world :=
  let w1 := client_effect o w in run_prog (fuel_for w1) (prog o) (locals_of o) w1.

Fixpoint run_seq (h : list op) (w : world) : option world :=
  match h with
  | [] => Some w
  | o :: h' => match run_op o w with Some w' => run_seq h' w' | None => None end
  end.

(* ---------- client-interaction granularity (what the harness can execute on the real Backend) ----------
   KRun id: answer the pending workspace/configuration request of handler id (if that is what it
   waits for), then let it run alone until it completes or asks the client again. *)
Inductive kchoice := KAdmit | KRun (id : nat).

Fixpoint run_until_ask (fuel : nat) (first : bool) (id : nat) (y : sys) : option sys :=
  match fuel with
  | 0 => None
  | S f =>
      match find_h id (y_flight y) with
      | None => if first then None else Some y            (* completed *)
      | Some h =>
          match h_prog h with
          | IAnswer :: _ =>
              if first then match step (CRun id) y with Some y' => run_until_ask f false id y' | None => None end
              else Some y
          | _ => match step (CRun id) y with Some y' => run_until_ask f false id y' | None => None end
          end
      end
  end.

Definition kstep (c : kchoice) (y : sys) : option sys :=
  match c with
  | KAdmit => step CAdmit y
  | KRun id => run_until_ask (fuel_for (y_world y) + 16) true id y
  end.

Fixpoint krun (cs : list kchoice) (y : sys) : option sys :=
  match cs with
  | [] => Some y
  | c :: cs' => match kstep c y with Some y' => krun cs' y' | None => None end
  end.

(* ---------- the specification side ---------- *)
Fixpoint last_pub (u : url) (log : list (url * pub)) : option pub :=
  match log with
  | [] => None
  | (k, p) :: log' => if url_eqb u k then Some p else last_pub u log'
  end.
(* what the client shows for u: the most recent publishDiagnostics, nothing if there was none *)
Definition lastword (w : world) (u : url) : pub :=
  match last_pub u (s_log w) with Some p => p | None => PEmpty end.

(* the property's right-hand side: diagnostics of the newest text the client sent, under the
   current dictionaries and configuration; empty for closed / deleted documents *)
Definition expected (w : world) (u : url) : pub :=
  match lookup u (w_open w) with
  | Some cd =>
      match kind (cd_lang cd) with
      | KNone => PEmpty
      | k =>
          let d := mkdict (w_udict w) (fdict_of w u) (match k with KCode => t_ident (cd_text cd) | _ => 0 end) in
          PDiag (mkargs (cd_text cd) (cd_lang cd) d d (w_ccfg w) (w_ccfg w) (w_ccfg w) (cd_ign cd))
      end
  | None => PEmpty
  end.

Definition fresh (w : world) (u : url) : Prop := lastword w u = expected w u.

(* decidable versions for the driver / examples *)
Definition text_eqb (a b : text) : bool := (t_id a =? t_id b) && (t_ident a =? t_ident b).
Definition dargs_eqb (a b : dargs) : bool :=
  text_eqb (a_text a) (a_text b) && lang_eqb (a_lang a) (a_lang b) && dictv_eqb (a_dict a) (a_dict b)
  && dictv_eqb (a_ddict a) (a_ddict b) && (a_lcfg a =? a_lcfg b) && (a_pcfg a =? a_pcfg b) && (a_scfg a =? a_scfg b) && list_eqb (a_ign a) (a_ign b).
Definition pub_eqb (p q : pub) : bool :=
  match p, q with
  | PEmpty, PEmpty => true
  | PDiag a, PDiag b => dargs_eqb a b
  | _, _ => false
  end.
Definition freshb (w : world) (u : url) : bool := pub_eqb (lastword w u) (expected w u).

(* What of the two dictionaries shows in the diagnostics: SpellCheck accepts a word iff the document's
   token carries metadata (the word was in the dictionary the document was parsed with) and the linter's
   dictionary contains it.  Used by the driver only (the theorems speak about the full provenance). *)
Definition meet_words (a b : list word) : list word := filter (fun x => existsb (Nat.eqb x) b) a.
Definition meet (a b : dictv) : dictv :=
  mkdict (meet_words (dv_user a) (dv_user b)) (meet_words (dv_file a) (dv_file b))
         (if dv_ident a =? dv_ident b then dv_ident a else 0).
Definition observe (p : pub) : pub :=
  match p with
  | PEmpty => PEmpty
  | PDiag a => let m := meet (a_dict a) (a_ddict a) in
               PDiag (mkargs (a_text a) (a_lang a) m m (a_lcfg a) (a_pcfg a) (a_scfg a) (a_ign a))
  end.

Definition world0 (c : cfg) : world := mkworld [] c [] [] [] c [] false [] false.

(* entry points of the extracted driver *)
Definition model_krun (w : world) (h : list op) (cs : list kchoice) : option sys := krun cs (init h w).
Definition model_run (w : world) (h : list op) (cs : list choice) : option sys := run cs (init h w).
