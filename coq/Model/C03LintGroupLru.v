(* C03LintGroupLru.v — `impl Linter for LintGroup { fn lint }` once more (see Model/C03LintGroup.v for the code), with
   the chunk cache as the `lru` crate implements it instead of the adversarial "map that may lose entries":
     chunk_pattern_cache: LruCache<(CharString, u64, u64), Vec<Lint>>   capacity NonZero::new(10000)  [Tables_c03cap]
     cache.get(&key)      a hit moves the entry to the front            C05Lru.lru_get
     cache.put(key, v)    new key: pop the least recently used entry (the last) when len == cap, insert at the front
                                                                        C05Lru.lru_put
   Same loop, same checked operations, same hit/miss flags as C03LintGroup.lg_chunks; no `evs`, a capacity instead.
   Proofs/C03LintGroupLruProofs.v: every run of THIS model is a run of the adversarial one (refinement), panics included.
   Executable, no proofs. *)
Require Import Base Cache C05Lru C03LintGroup.
From Coq Require Import List Arith NArith Bool.
Import ListNotations.

Section LintGroupLru.
  Variables cfg kind : Type.
  Notation toks := (list (tok kind)).
  Variable enabled : cfg -> N -> bool.
  Variable cfg_hash : cfg -> N.
  Variable tok_hash : toks -> N.
  Variable linters : list (N * wrule kind).
  Variable plinters : list (N * prule kind).
  Variable cap : nat.

  (* cache.put(key, v) right after cache.get(&key) returned None: lru_put's own lookup misses again, what remains is its
     second branch (Proofs/C03LintGroupLruProofs.v lru_put_absent_eq: equal to C05Lru.lru_put whenever the key is absent) *)
  Definition lru_put_absent (k : lkey) (v : list clint) (m : lcache) : lcache :=
    (k, v) :: (if cap <=? length m then removelast m else m).

  Fixpoint lgl_chunks (t : nat) (c : cfg) (src : text) (chs : list toks) (m : lcache)
    : res (lcache * list clint * list bool) :=
    match chs with
    | [] => Ok (m, [], [])
    | ts :: rest =>
        do h <- hull_of ts;                                            (* chunk.span() *)
        match h with
        | None => lgl_chunks t c src rest m                            (* continue *)
        | Some sp =>
            do chars <- get_content sp src;
            do rt <- rel_toks (sstart sp) ts;
            let key := (chars, cfg_hash c, tok_hash rt) in
            do '(m2, rel, hit) <-
               match lru_get code_key_eqb key m with
               | (Some v, m1) => Ok (m1, v, true)                      (* cache.get(&key): promotion; hit.clone() *)
               | (None, _) =>
                   let pl := run_plinters cfg kind enabled plinters t c src ts in
                   do rel <- mapM (lpull (sstart sp)) pl;
                   Ok (lru_put_absent key rel m, rel, false)             (* cache.put(key, pattern_lints.clone()) *)
               end;
            do '(m3, out, hits) <- lgl_chunks t c src rest m2;
            Ok (m3, map (lpush (sstart sp)) rel ++ out, hit :: hits)
        end
    end.

  Definition lgl_lint (st : lstate cfg) (d : ldoc kind) : res (lstate cfg * list clint * list bool) :=
    let c := lg_cfg st in
    let t := lg_time st in
    let whole := run_linters cfg kind enabled linters t c d in
    do '(m, pat, hits) <- lgl_chunks t c (l_src d) (l_chunks d) (lg_cache st);
    Ok (mklstate c m (S t), whole ++ pat, hits).

  (* what a client can do to one LintGroup: assign the configuration, lint a document *)
  Inductive lrop :=
  | RSetCfg (c : cfg)
  | RLint (d : ldoc kind).

  Fixpoint lgl_run (h : list lrop) (st : lstate cfg) : res (lstate cfg * list (ldoc kind * list clint)) :=
    match h with
    | [] => Ok (st, [])
    | RSetCfg c :: r => lgl_run r (mklstate c (lg_cache st) (lg_time st))
    | RLint d :: r =>
        do '(st1, out, _) <- lgl_lint st d;
        do '(st2, outs) <- lgl_run r st1;
        Ok (st2, (d, out) :: outs)
    end.
End LintGroupLru.

Arguments RSetCfg {cfg kind}.
Arguments RLint {cfg kind}.

(* ---------- driver entry point (extracted): as C03LintGroup.run_lg_lint, the capacity is an argument ---------- *)
Definition run_lg_lint_lru (cap : nat) (cfg_hash : N -> N) (tok_hash : list (tok N) -> N)
    (linters : list (N * (nat -> ldoc N -> list clint)))
    (plinters : list (N * (nat -> text -> list (tok N) -> list clint)))
    (st : lstate N) (src : text) (chunks : list (list (tok N))) : option (lstate N * list clint * list bool) :=
  match lgl_lint N N drv_enabled cfg_hash tok_hash linters plinters cap st (mkldoc src chunks 0%N) with
  | Ok r => Some r
  | Panic _ => None
  end.
