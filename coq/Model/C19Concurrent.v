(* C19Concurrent.v — the append clause ACROSS PROCESSES (harper-ls/src/backend.rs save_stats; no proofs here).
     let mut writer = BufWriter::new(OpenOptions::new().read(true).append(true).create(true).open(path)?);
     stats.write(&mut writer)?;  writer.flush()?;
   Stats::write hands the serializer's output to the BufWriter fragment by fragment (`write_all`); the BufWriter (std,
   library/std/src/io/buffered/bufwriter.rs, capacity DEFAULT_BUF_SIZE = 8192) turns the fragments into CHUNKS, one
   write(2) on the O_APPEND descriptor per chunk.  O_APPEND makes every single write(2) land at the end of the file as it
   is at that moment; it says nothing about two write(2) calls of the same process.  So when two processes (two editors,
   two harper-ls, the same statsPath) shut down at the same time the file is an INTERLEAVING of their chunk sequences.
   Modelled: BufWriter::write_all / write_all_cold / flush_buf / flush exactly (fragments in, chunks out), interleavings
   as a relation and as a schedule-driven function (for the extracted driver).
   Not modelled: a write(2) that the kernel accepts only in part (regular files accept it whole), errors. *)
Require Import Base JsonEscape Stats C19Record.
From Coq Require Import List Arith NArith.
Import ListNotations.

Definition bufwriter_capacity : nat := 8192.                     (* DEFAULT_BUF_SIZE *)

(* flush_buf: one inner write of the whole buffer — none at all when the buffer is empty *)
Definition chunk_of (buf : bytes) : list bytes := match buf with [] => [] | _ => [buf] end.

(* BufWriter::write_all(frag) with `buf` buffered: (chunks handed to the inner writer, the buffer afterwards)
     if frag.len() < spare_capacity() { buffer } else { write_all_cold }
     write_all_cold: if frag.len() > spare_capacity() { flush_buf()? }
                     if frag.len() >= capacity { inner.write_all(frag) } else { buffer }           *)
Definition bw_write_all (cap : nat) (buf frag : bytes) : list bytes * bytes :=
  if length frag <? cap - length buf then ([], buf ++ frag) else
  let '(out, buf1) := if cap - length buf <? length frag then (chunk_of buf, []) else ([], buf) in
  if cap <=? length frag then (out ++ [frag], buf1) else (out, buf1 ++ frag).

(* the fragments of one session, then writer.flush() *)
Fixpoint bw_run (cap : nat) (buf : bytes) (frags : list bytes) : list bytes :=
  match frags with
  | [] => chunk_of buf
  | f :: r => let '(out, buf') := bw_write_all cap buf f in out ++ bw_run cap buf' r
  end.
Definition bufwriter (cap : nat) (frags : list bytes) : list bytes := bw_run cap [] frags.

(* two processes: the kernel serialises their write(2) calls in SOME order that keeps each process's own order *)
Inductive Interleave {A : Type} : list A -> list A -> list A -> Prop :=
| IL_nil : Interleave [] [] []
| IL_left : forall x a b m, Interleave a b m -> Interleave (x :: a) b (x :: m)
| IL_right : forall y a b m, Interleave a b m -> Interleave a (y :: b) (y :: m).

(* the file after the two sessions *)
Definition concurrent_file (file : bytes) (m : list bytes) : bytes := file ++ concat m.

(* a schedule picks whose write(2) comes next (true = the first process); when it runs out, or a process has nothing
   left, the rest follows in order *)
Fixpoint interleave_by {A : Type} (sched : list bool) (a b : list A) : list A :=
  match sched, a, b with
  | _, [], _ => b
  | _, _, [] => a
  | [], _, _ => a ++ b
  | true :: s, x :: a', _ => x :: interleave_by s a' b
  | false :: s, _, y :: b' => y :: interleave_by s a b'
  end.

(* ---------- for the extracted driver ---------- *)
(* cut a byte string into fragments of the given lengths (what is left over is a last fragment) *)
Fixpoint cut (lens : list nat) (bs : bytes) : list bytes :=
  match lens with
  | [] => chunk_of bs
  | n :: r => firstn n bs :: cut r (skipn n bs)
  end.

(* B: the chunk lengths the BufWriter makes of fragments of the given lengths *)
Definition run_bufwriter_lens (cap : nat) (lens : list nat) : list nat :=
  map (@length N) (bufwriter cap (map (fun n => repeat 0%N n) lens)).

(* C: two sessions (their bytes and the fragment lengths Stats::write produced) appended to `start` under a schedule:
   the file, and what the modelled Stats::read makes of it: None = rejected, Some (n, which) with n = number of records
   and which = 1 if the lines are A's then B's, 2 if B's then A's, 0 otherwise *)
Fixpoint lines_eqb (x y : list bytes) : bool :=
  match x, y with
  | [], [] => true
  | p :: x', q :: y' => bytes_eqb p q && lines_eqb x' y'
  | _, _ => false
  end.
Definition run_concurrent (cap : nat) (start : bytes) (la lb : list bytes) (fa fb : list nat) (sched : list bool)
  : bytes * option (nat * nat) :=
  let wa := flat_map (fun l => l ++ [10%N]) la in
  let wb := flat_map (fun l => l ++ [10%N]) lb in
  let file := concurrent_file start (interleave_by sched (bufwriter cap (cut fa wa)) (bufwriter cap (cut fb wb))) in
  (file,
   match read drv_record drv_de file, read drv_record drv_de start with
   | Some rs, Some old =>
       let got := map drv_ser rs in
       let o := map drv_ser old in
       Some (length rs, if lines_eqb got (o ++ la ++ lb) then 1 else if lines_eqb got (o ++ lb ++ la) then 2 else 0)
   | Some rs, None => Some (length rs, 0)
   | None, _ => None
   end).
