(* Wasm.v — model of harper_wasm::Linter (harper-wasm/src/lib.rs): the state the JavaScript-facing
   object carries and its public methods as one step function.  No proofs here.

   What is code of harper-wasm / harper-core glue is modelled as written:
     Linter::new, synchronize_lint_dict, lint (config overlay -> LintGroup::lint -> remove_overlaps ->
     remove_ignored -> problem text), ignore_lint, export/import/clear_ignored_lints, import_words
     (with its "synchronise when the user dictionary changed" test: `self.user_dictionary != before`),
     export_words, set_lint_config_from_json (clear, then merge) / get_lint_config_as_json
     (LintGroupConfig::merge_from / clear / fill_with_curated), apply_suggestion (one statistics
     record, then Suggestion::apply).
   What is not (the rules, the parsers, the hash of a lint's context, WordId) enters as Section
   variables:  raw_lints, ctx, word_id, curated.  *)
Require Import Base Overlap Suggestion LintJson.

(* ---------- sorted association maps with N keys: BTreeMap<String,_> (keys numbered in name order)
   and HashMap<WordId,_> (iteration order is unspecified there; the model fixes key order, the
   harness sorts what it observes) ---------- *)
Fixpoint ains {V : Type} (k : N) (v : V) (m : list (N * V)) : list (N * V) :=
  match m with
  | [] => [(k, v)]
  | (k', v') :: r =>
      match N.compare k k' with
      | Lt => (k, v) :: m
      | Eq => (k, v) :: r            (* insert on an existing key replaces the value *)
      | Gt => (k', v') :: ains k v r
      end
  end.

Fixpoint aget {V : Type} (k : N) (m : list (N * V)) : option V :=
  match m with
  | [] => None
  | (k', v) :: r => if (k =? k')%N then Some v else aget k r
  end.

(* LintGroupConfig { inner: BTreeMap<String, Option<bool>> } *)
Definition config := list (N * option bool).
(* WordMap { inner: HashMap<WordId, WordMapEntry> }: WordId -> canonical spelling
   (import_words always stores WordMetadata::default(), so the metadata is not carried) *)
Definition dict := list (N * text).

(* MutableDictionary: PartialEq (derived: WordMap -> HashMap<WordId, WordMapEntry> equality = same keys with
   equal entries; the metadata is always WordMetadata::default() here).  On the sorted association
   lists of the model this is list equality. *)
Fixpoint text_eqb (a b : text) : bool :=
  match a, b with
  | [], [] => true
  | x :: a', y :: b' => (x =? y)%N && text_eqb a' b'
  | _, _ => false
  end.
Fixpoint dict_eqb (a b : dict) : bool :=
  match a, b with
  | [], [] => true
  | (k, w) :: a', (k', w') :: b' => (k =? k')%N && text_eqb w w' && dict_eqb a' b'
  | _, _ => false
  end.

(* merge_from: `for (key, val) in other.inner.iter() { if val.is_none() { continue } self.insert(key, *val) }` *)
Definition cfg_merge_from (self other : config) : config :=
  fold_left (fun acc kv => match snd kv with Some b => ains (fst kv) (Some b) acc | None => acc end) other self.
(* clear: `for val in self.inner.values_mut() { *val = None }` — the keys stay *)
Definition cfg_clear (c : config) : config := map (fun kv => (fst kv, @None bool)) c.
(* fill_with_curated: `let mut temp = Self::new_curated(); swap(self, &mut temp); self.merge_from(&mut temp)` *)
Definition cfg_fill_with_curated (curated self : config) : config := cfg_merge_from curated self.

(* HashSet<u64>::insert / extend *)
Definition hmem (h : N) (s : list N) : bool := existsb (N.eqb h) s.
Definition hadd (s : list N) (h : N) : list N := if hmem h s then s else s ++ [h].

(* ---------- remove_overlaps on full lints: the function only reads spans, the payload rides along.
   Lints are numbered, Overlap.remove_overlaps runs on (span, number), numbers are looked up again. ---------- *)
Fixpoint number (i : nat) (raw : list rlint) : list lint :=
  match raw with
  | [] => []
  | r :: t => mklint (rspan r) i :: number (S i) t
  end.
Definition ro_full (raw : list rlint) : list rlint :=
  flat_map (fun l => match nth_error raw (lid l) with Some r => [r] | None => [] end)
           (remove_overlaps (number 0 raw)).

(* IgnoredLints::remove_ignored, with its early return *)
Definition remove_ignored (ign : list N) (c : rlint -> N) (ls : list rlint) : list rlint :=
  match ign with
  | [] => ls
  | _ => filter (fun l => negb (hmem (c l) ign)) ls
  end.

(* `.map(|l| { let problem_text = l.span.get_content_string(&source); Lint::new(l, problem_text, language) })` *)
Fixpoint attach (t : text) (lang : language) (ls : list rlint) : res (list wlint) :=
  match ls with
  | [] => Ok []
  | l :: rest =>
      do pt <- get_content (rspan l) t;
      do rest' <- attach t lang rest;
      Ok (mkwl l pt lang :: rest')
  end.

(* what determines a statistics record: RecordKind::from_lint(&lint.inner, &doc) with
   doc = Document(source_text, lint.language parser, self.dictionary) *)
Record stat_record := mkrec { sr_kind : lint_kind; sr_span : span; sr_text : text; sr_lang : language; sr_dict : dict }.

Record state := mkst {
  s_cfg : config;          (* lint_group.config *)
  s_user : dict;           (* user_dictionary *)
  s_lint_dict : dict;      (* the user part of `dictionary` = what lint_group was built with *)
  s_ignored : list N;      (* ignored_lints.context_hashes *)
  s_stats : list stat_record;
  s_dialect : nat }.

Inductive call :=
| CLint (t : text) (lang : language)
| CApply (t : text) (l : wlint) (s : suggestion)
| CIgnore (t : text) (l : wlint)
| CExportIgnored
| CImportIgnored (json : text)
| CClearIgnored
| CImportWords (ws : list text)
| CExportWords
| CSetConfig (c : option config)      (* None: the JSON text did not deserialize *)
| CGetConfig
| CGetStats
| CGetDialect.

Inductive out :=
| OUnit
| OErr                                 (* Result::Err(String) *)
| OPanic (why : panic_kind)
| OLints (ls : list wlint)
| OText (t : text)
| OJson (j : text)
| OWords (ws : list text)
| OConfig (c : config)
| OStats (rs : list stat_record)
| ODialect (d : nat).

Section Wasm.
  Variable curated : config.                 (* LintGroup::new_curated(..).config *)
  Variable word_id : text -> N.              (* WordId::from_word_chars *)
  (* LintGroup::lint on Document::new_from_vec(text, parser(lang), dictionary) with the given config;
     dictionary = curated + the given user part; dialect fixed at construction *)
  Variable raw_lints : text -> language -> config -> dict -> nat -> list rlint.
  (* IgnoredLints::hash_lint_context(lint, Document(text, parser(lang), dictionary)) *)
  Variable ctx : rlint -> text -> language -> dict -> N.

  (* Linter::new *)
  Definition new (dialect : nat) : state :=
    mkst (cfg_clear curated) [] [] [] [] dialect.

  (* synchronize_lint_dict *)
  Definition synchronize (st : state) : state :=
    let lint_config := s_cfg st in
    mkst (cfg_merge_from (cfg_clear curated) lint_config)
         (s_user st) (s_user st) (s_ignored st) (s_stats st) (s_dialect st).

  Definition dict_extend (d : dict) (ws : list text) : dict :=
    fold_left (fun acc w => ains (word_id w) w acc) ws d.

  (* import_words: `let before = self.user_dictionary.clone(); extend_words(..);
     if self.user_dictionary != before { self.synchronize_lint_dict() }` *)
  Definition import_words (st : state) (ws : list text) : state :=
    let before := s_user st in
    let st' := mkst (s_cfg st) (dict_extend (s_user st) ws) (s_lint_dict st) (s_ignored st) (s_stats st) (s_dialect st) in
    (* Only synchronize if the dictionary changed: a new word, or a new spelling of a known one *)
    if dict_eqb (s_user st') before then st' else synchronize st'.

  (* HISTORY (before fix ba0a239, finding C16-F15): synchronised only when the word count grew.  Kept for
     the regression witness C16_words_roundtrip_old_refuted; not part of `step`. *)
  Definition import_words_old (st : state) (ws : list text) : state :=
    let init_len := length (s_user st) in
    let st' := mkst (s_cfg st) (dict_extend (s_user st) ws) (s_lint_dict st) (s_ignored st) (s_stats st) (s_dialect st) in
    if init_len <? length (s_user st') then synchronize st' else st'.

  Definition export_words (st : state) : list text := map snd (s_user st).

  (* lint *)
  Definition lint_kept (st : state) (t : text) (lang : language) : list rlint :=
    let eff := cfg_fill_with_curated curated (s_cfg st) in
    let raw := raw_lints t lang eff (s_lint_dict st) (s_dialect st) in
    let kept := ro_full raw in
    remove_ignored (s_ignored st) (fun l => ctx l t lang (s_lint_dict st)) kept.
  Definition api_lint (st : state) (t : text) (lang : language) : res (list wlint) :=
    attach t lang (lint_kept st t lang).

  (* ignore_lint *)
  Definition ignore_lint (st : state) (t : text) (l : wlint) : state :=
    mkst (s_cfg st) (s_user st) (s_lint_dict st)
         (hadd (s_ignored st) (ctx (winner l) t (wlang l) (s_lint_dict st)))
         (s_stats st) (s_dialect st).

  Definition set_ignored (st : state) (ign : list N) : state :=
    mkst (s_cfg st) (s_user st) (s_lint_dict st) ign (s_stats st) (s_dialect st).
  Definition set_cfg (st : state) (c : config) : state :=
    mkst c (s_user st) (s_lint_dict st) (s_ignored st) (s_stats st) (s_dialect st).

  (* apply_suggestion: the record is pushed before the edit is attempted *)
  Definition push_record (st : state) (t : text) (l : wlint) : state :=
    mkst (s_cfg st) (s_user st) (s_lint_dict st) (s_ignored st)
         (s_stats st ++ [mkrec (rkind (winner l)) (rspan (winner l)) t (wlang l) (s_lint_dict st)])
         (s_dialect st).

  Definition step (st : state) (c : call) : state * out :=
    match c with
    | CLint t lang =>
        (st, match api_lint st t lang with Ok ls => OLints ls | Panic w => OPanic w end)
    | CApply t l s =>
        let st' := push_record st t l in
        (st', match apply s (rspan (winner l)) t with Ok t' => OText t' | Panic w => OPanic w end)
    | CIgnore t l => (ignore_lint st t l, OUnit)
    | CExportIgnored => (st, OJson (print_ignored (s_ignored st)))
    | CImportIgnored json =>
        match ignored_from_json json with
        | Some hs => (set_ignored st (fold_left hadd hs (s_ignored st)), OUnit)
        | None => (st, OErr)
        end
    | CClearIgnored => (set_ignored st [], OUnit)
    | CImportWords ws => (import_words st ws, OUnit)
    | CExportWords => (st, OWords (export_words st))
    (* set_lint_config_from_json: `let mut new_config = from_str(&json)?; self.lint_group.config.clear();
       self.lint_group.config.merge_from(&mut new_config)` — rules the new configuration leaves unset
       go back to unset (keys stay) *)
    | CSetConfig (Some c) => (set_cfg st (cfg_merge_from (cfg_clear (s_cfg st)) c), OUnit)
    | CSetConfig None => (st, OErr)
    | CGetConfig => (st, OConfig (s_cfg st))
    | CGetStats => (st, OStats (s_stats st))
    | CGetDialect => (st, ODialect (s_dialect st))
    end.

  (* a history: the outputs in call order and the final state *)
  Fixpoint run (st : state) (cs : list call) : state * list out :=
    match cs with
    | [] => (st, [])
    | c :: rest =>
        let '(st1, o) := step st c in
        let '(st2, os) := run st1 rest in
        (st2, o :: os)
    end.
End Wasm.
