(* C12Merge.v — the two document-wide post-processing shapes among the struct rules of LintGroup::new_curated.
   No proofs here.

   linting/merge_linters.rs (the macro merge_linters!, pinned by tools/tables/c12rules.py):
       let mut lints = Vec::new();
       $( lints.extend(self.<sub>.lint(document)); )*
       remove_overlaps(&mut lints);
       lints
   linting/currency_placement.rs (shape ThenRemoveOverlaps IterChunks):
       for chunk in document.iter_chunks() { .. lints.extend(..) .. }
       remove_overlaps(&mut lints);
       lints
   remove_overlaps is C13's model (Model/Overlap.v: stable sort by (start, MAX - end), sweep, remove_indices). *)
Require Import Base Overlap ParaSplit.

Definition merge_rule (subs : list (list tok -> text -> list lint)) (ts : list tok) (src : text) : list lint :=
  remove_overlaps (flat_map (fun r => r ts src) subs).

Definition then_remove_overlaps (r : list tok -> text -> list lint) (ts : list tok) (src : text) : list lint :=
  remove_overlaps (r ts src).
