(* C12Comma.v — linting/comma_fixes.rs (phase 6), the last struct rule outside every proved shape.  No proofs here.

     for ci in document.iter_comma_indices() {
         toks.0 = (ci >= 2).then(|| get_token(ci - 2).unwrap());   toks.1 = (ci >= 1).then(|| get_token(ci - 1).unwrap());
         toks.3 = get_token(ci + 1);                               toks.4 = get_token(ci + 2);          // OPTIONAL neighbours
         kinds = (toks.0.map(kind), toks.1.map(kind), first char under the comma token, toks.3.map(kind), toks.4.map(kind));
         let (span, suggestion, message) = match kinds { 10 arms .., _ => continue };
         lints.push(Lint { span, .., priority: 32 })
     }

   A neighbour pattern of an arm is `_`, `Some(Word(_))`, `Some(Space(_))` or `Some(Unlintable)`; the centre pattern is ','
   or '、' | '，'.  So all the match can see of a neighbour is its VIEW: Word, Space, Unlintable or "nothing of interest" —
   and an ABSENT neighbour (None) and a neighbour of any other kind (a ParagraphBreak in particular) have the same view.
   The arms are a TABLE (first match wins), `cf_arms`; the table is read from the source by tools/tables/c12rules.py
   (Tables_c12rules.comma_arms_raw) and decoded here.

   Unlintable: ParaSplit.kind puts Unlintable into KOther together with Url / EmailAddress / Hostname / .. (the iterators do
   not tell them apart).  The rule's test `Some(Unlintable)` is therefore a PARAMETER `unl : tok -> bool` of the model,
   consulted for KOther tokens only; the theorems hold for every `unl` that the move of a token (shift_tok) does not change
   (in the code the test reads t.kind, and a move changes of a kind nothing but a quote's twin index).
   The span of a lint is the comma's, the preceding Space's, or Span::new(space.start, comma.end); the lint id encodes
   suggestion and message:  1 = "space before", 2 = "East Asian comma", 4 = "space after" (sum) + 8 * suggestion
   (0 Remove, 1 ReplaceWith [','], 2 ReplaceWith [',', ' '], 3 InsertAfter [' ']). *)
From Coq Require Import List Arith NArith Bool.
Require Import Base Overlap ParaSplit Tables_c12rules.
Import ListNotations.

Inductive nview := VWord | VSpace | VUnl | VNo.          (* what a match arm can see of a neighbour *)
Inductive npat := NAny | NWord | NSpace | NUnl.          (* `_` | Some(Word(_)) | Some(Space(_)) | Some(Unlintable) *)
Inductive cclass := CAscii | CAsian | CNone.             (* ',' ; '、' | '，' ; any other first character *)
Inductive cfspan := SComma | SPrev | SPrevComma.         (* toks.2.span ; toks.1.span ; Span::new(toks.1.start, toks.2.end) *)

Record arm := mkarm { a0 : npat; a1 : npat; ac : cclass; a3 : npat; a4 : npat; aout : option (cfspan * nat) }.

Definition npat_ok (p : npat) (v : nview) : bool :=
  match p, v with
  | NAny, _ => true
  | NWord, VWord => true
  | NSpace, VSpace => true
  | NUnl, VUnl => true
  | _, _ => false
  end.
Definition cclass_eqb (a b : cclass) : bool :=
  match a, b with CAscii, CAscii => true | CAsian, CAsian => true | CNone, CNone => true | _, _ => false end.
Definition arm_ok (a : arm) (v0 v1 : nview) (c : cclass) (v3 v4 : nview) : bool :=
  npat_ok (a0 a) v0 && npat_ok (a1 a) v1 && cclass_eqb (ac a) c && npat_ok (a3 a) v3 && npat_ok (a4 a) v4.
(* `match kinds { arm, arm, .., _ => continue }`: the first arm that matches; None = continue *)
Fixpoint run_arms (l : list arm) (v0 v1 : nview) (c : cclass) (v3 v4 : nview) : option (cfspan * nat) :=
  match l with
  | [] => None
  | a :: r => if arm_ok a v0 v1 c v3 v4 then aout a else run_arms r v0 v1 c v3 v4
  end.

(* decoding of the generated table: neighbour pattern 0 `_` 1 Word 2 Space 3 Unlintable; centre 0 ',' 1 '、' | '，';
   result (0, _) = continue, (1, id) comma span, (2, id) the span of toks.1, (3, id) Span::new(toks.1.start, toks.2.end) *)
Definition npat_of (n : nat) : npat := match n with 1 => NWord | 2 => NSpace | 3 => NUnl | _ => NAny end.
Definition arm_of (r : nat * nat * nat * nat * nat * (nat * nat)) : arm :=
  let '(p0, p1, c, p3, p4, (w, id)) := r in
  mkarm (npat_of p0) (npat_of p1) (match c with 0 => CAscii | _ => CAsian end) (npat_of p3) (npat_of p4)
        (match w with 0 => None | 1 => Some (SComma, id) | 2 => Some (SPrev, id) | _ => Some (SPrevComma, id) end).
Definition cf_arms : list arm := map arm_of comma_arms_raw.

Definition comma_ascii : N := 44%N.
Definition comma_ideographic : N := 12289%N.   (* U+3001 *)
Definition comma_fullwidth : N := 65292%N.     (* U+FF0C *)
Definition cclass_of (o : option N) : cclass :=
  match o with
  | Some c => if N.eqb c comma_ascii then CAscii
              else if N.eqb c comma_ideographic || N.eqb c comma_fullwidth then CAsian else CNone
  | None => CNone
  end.

Section Comma.
  Variable unl : tok -> bool.      (* matches!(t.kind, TokenKind::Unlintable), asked of KOther tokens only *)

  Definition view (o : option tok) : nview :=
    match o with
    | None => VNo
    | Some t => match tkind t with
                | KWord => VWord
                | KSpace => VSpace
                | KOther => if unl t then VUnl else VNo
                | _ => VNo
                end
    end.

  Definition cf_span_of (w : cfspan) (o1 : option tok) (t : tok) : span :=
    match w, o1 with
    | SComma, _ => tspan t
    | SPrev, Some t1 => tspan t1
    | SPrevComma, Some t1 => mkspan (sstart (tspan t1)) (send (tspan t))
    | _, None => tspan t                       (* unreachable: these arms require toks.1 = Some(Space) *)
    end.

  (* the loop body for the token t = tokens[ci] with its four optional neighbours *)
  Definition cf_at (src : text) (o0 o1 : option tok) (t : tok) (o3 o4 : option tok) : list lint :=
    match tkind t with
    | KComma =>
        match run_arms cf_arms (view o0) (view o1)
                       (cclass_of (hd_error (slice src (sstart (tspan t)) (send (tspan t))))) (view o3) (view o4) with
        | Some (w, id) => [mklint (cf_span_of w o1 t) id]
        | None => []
        end
    | _ => []
    end.

  (* the loop, index by index: get_token(ci - 2), get_token(ci - 1) are the two tokens passed last (None at the start),
     get_token(ci + 1), get_token(ci + 2) the next two (None at the end) *)
  Fixpoint cf_go (src : text) (p2 p1 : option tok) (ts : list tok) : list lint :=
    match ts with
    | [] => []
    | t :: r => cf_at src p2 p1 t (hd_error r) (hd_error (tl r)) ++ cf_go src p1 (Some t) r
    end.

  Definition comma_fixes (ts : list tok) (src : text) : list lint := cf_go src None None ts.

  (* ---- the same with the panicking operations checked: get_content (Span::get_content indexes the source),
     `.first().unwrap()`, `toks.1.unwrap()`, Span::new(toks.1.start, toks.2.end) ---- *)
  Definition cf_span_chk (w : cfspan) (o1 : option tok) (t : tok) : res span :=
    match w, o1 with
    | SComma, _ => Ok (tspan t)
    | SPrev, Some t1 => Ok (tspan t1)
    | SPrevComma, Some t1 => span_new (sstart (tspan t1)) (send (tspan t))
    | _, None => Panic PUnwrap
    end.
  Definition cf_at_chk (src : text) (o0 o1 : option tok) (t : tok) (o3 o4 : option tok) : res (list lint) :=
    match tkind t with
    | KComma =>
        do content <- get_content (tspan t) src;
        match content with
        | [] => Panic PUnwrap
        | c :: _ =>
            match run_arms cf_arms (view o0) (view o1) (cclass_of (Some c)) (view o3) (view o4) with
            | Some (w, id) => do sp <- cf_span_chk w o1 t; Ok [mklint sp id]
            | None => Ok []
            end
        end
    | _ => Ok []
    end.
  Fixpoint cf_go_chk (src : text) (p2 p1 : option tok) (ts : list tok) : res (list lint) :=
    match ts with
    | [] => Ok []
    | t :: r => do a <- cf_at_chk src p2 p1 t (hd_error r) (hd_error (tl r));
                do b <- cf_go_chk src p1 (Some t) r;
                Ok (a ++ b)
    end.
  Definition comma_fixes_chk (ts : list tok) (src : text) : res (list lint) := cf_go_chk src None None ts.

  (* the same written with indices, as the source does (equal: C12CommaProofs.comma_fixes_idx_eq) *)
  Definition get_token (ts : list tok) (i : nat) : option tok := nth_error ts i.
  Definition comma_fixes_idx (ts : list tok) (src : text) : list lint :=
    flat_map (fun ci => match get_token ts ci with
                        | Some t => cf_at src (if 2 <=? ci then get_token ts (ci - 2) else None)
                                          (if 1 <=? ci then get_token ts (ci - 1) else None)
                                          t (get_token ts (ci + 1)) (get_token ts (ci + 2))
                        | None => []
                        end) (seq 0 (length ts)).
End Comma.

(* ---------- executable instance for the correspondence (extracted; cases K) ---------- *)
(* tokens as (class code, (start, (end, u))) with u = 1 for an Unlintable token; the Unlintable test by span start *)
Definition unl_tab (us : list nat) (t : tok) : bool := existsb (Nat.eqb (sstart (tspan t))) us.
Definition run_comma (l : list (nat * (nat * (nat * nat)))) (src : text) : list (nat * (nat * nat)) :=
  let ts := map (fun x => mktok (mkspan (fst (snd x)) (fst (snd (snd x)))) (kind_of_code (fst x))) l in
  let us := flat_map (fun x => match snd (snd (snd x)) with 0 => [] | _ => [fst (snd x)] end) l in
  map (fun x => (lstart x, (lend x, lid x))) (comma_fixes (unl_tab us) ts src).
