(* EditDistance.v — the Levenshtein distance (specification) and harper-core/src/edit_distance.rs
   (`edit_distance_min_alloc`: two-row Wagner–Fischer over `u8` rows, the rows being caller-owned
   buffers that are reused from call to call).  No proofs here.

   u8 values are `nat` (< 256); usize = nat; char = N.  Every Rust operation that can panic is
   checked: slice/Vec indexing (PIndex), `u8 + u8` (debug build: POverflow; release build: wraps
   mod 256).  Since fix 7a7de79 strings of more than 254 characters are handled by
   `edit_distance_long` (usize rows) and the result saturates at 255; the former debug `assert!`
   is gone (the pre-fix function survives as wf_min_alloc_old, PUnwrap = the failed assertion).
   `dbg = true`  is the build with debug assertions and overflow checks (the harness profile),
   `dbg = false` the release build. *)
Require Import Base.

(* ---------- specification: the textbook recursion ---------- *)
Definition cost (a b : char) : nat := if N.eqb a b then 0 else 1.

Fixpoint lev (s : text) : text -> nat :=
  match s with
  | [] => fun t => length t
  | a :: s' =>
      fix lev_s (t : text) : nat :=
        match t with
        | [] => S (length s')
        | b :: t' => Nat.min (Nat.min (lev s' t + 1) (lev_s t' + 1)) (lev s' t' + cost a b)
        end
  end.

(* ---------- u8 arithmetic ---------- *)
Definition as_u8 (n : nat) : nat := n mod 256.                      (* `n as u8` *)
Definition add_u8 (dbg : bool) (a b : nat) : res nat :=
  if a + b <? 256 then Ok (a + b)
  else if dbg then Panic POverflow else Ok ((a + b) mod 256).

(* Vec::resize(n, v) *)
Definition resize {A} (l : list A) (n : nat) (v : A) : list A :=
  firstn n l ++ repeat v (n - length l).

(* ---------- the inner loop:  for i in 1..=row_width { ... current_row[i] = ... } ----------
   `is` is the list of the remaining values of i.  Evaluation order as in the Rust expression
     (previous_row[i] + 1).min(current_row[i - 1] + 1).min(previous_row[i - 1] + cost)          *)
Fixpoint wf_inner (dbg : bool) (source target : text) (j : nat) (prev cur : list nat) (is_ : list nat)
  : res (list nat) :=
  match is_ with
  | [] => Ok cur
  | i :: rest =>
      do a <- nth_chk source (i - 1);
      do b <- nth_chk target (j - 1);
      let c := cost a b in
      do p_i <- nth_chk prev i;
      do x <- add_u8 dbg p_i 1;
      do c_i1 <- nth_chk cur (i - 1);
      do y <- add_u8 dbg c_i1 1;
      do p_i1 <- nth_chk prev (i - 1);
      do z <- add_u8 dbg p_i1 c;
      do cur' <- set_nth cur i (Nat.min (Nat.min x y) z);
      wf_inner dbg source target j prev cur' rest
  end.

(* ---------- the outer loop:  for j in 1..=col_height { current_row[0] = j as u8; inner; swap } *)
Fixpoint wf_outer (dbg : bool) (source target : text) (prev cur : list nat) (js : list nat)
  : res (list nat * list nat) :=
  match js with
  | [] => Ok (prev, cur)
  | j :: rest =>
      do cur0 <- set_nth cur 0 (as_u8 j);
      do cur' <- wf_inner dbg source target j prev cur0 (seq 1 (length source));
      wf_outer dbg source target cur' prev rest                      (* std::mem::swap *)
  end.

(* ---------- edit_distance_long(source, target): the same two rows over `usize`, freshly allocated ----------
   (fix 7a7de79).  usize additions are modelled without overflow: every cell is <= max(|s|,|t|) + 1,
   far below 2^64 for any slice that fits into memory.  Indexing is checked.
     for (i, s) in source.iter().enumerate() {
        current_row[i + 1] = (previous_row[i + 1] + 1).min(current_row[i] + 1).min(previous_row[i] + cost) } *)
Fixpoint wfl_inner (t : char) (prev cur : list nat) (i : nat) (ss : text) : res (list nat) :=
  match ss with
  | [] => Ok cur
  | s :: rest =>
      let c := cost s t in
      do p_i1 <- nth_chk prev (i + 1);
      do c_i <- nth_chk cur i;
      do p_i <- nth_chk prev i;
      do cur' <- set_nth cur (i + 1) (Nat.min (Nat.min (p_i1 + 1) (c_i + 1)) (p_i + c));
      wfl_inner t prev cur' (S i) rest
  end.

(* for (j, t) in target.iter().enumerate() { current_row[0] = j + 1; inner; swap } *)
Fixpoint wfl_outer (source : text) (prev cur : list nat) (j : nat) (ts : text)
  : res (list nat * list nat) :=
  match ts with
  | [] => Ok (prev, cur)
  | t :: rest =>
      do cur0 <- set_nth cur 0 (j + 1);
      do cur' <- wfl_inner t prev cur0 0 source;
      wfl_outer source cur' prev (S j) rest                          (* std::mem::swap *)
  end.

Definition wf_long (source target : text) : res nat :=
  let prev0 := seq 0 (S (length source)) in            (* (0..=source.len()).collect() *)
  let cur0 := repeat 0 (length source + 1) in          (* vec![0usize; source.len() + 1] *)
  do '(prev, _) <- wfl_outer source prev0 cur0 0 target;
  nth_chk prev (length source).

(* edit_distance_min_alloc(source, target, previous_row, current_row): returns the distance and the
   two buffers as the call leaves them (MutableDictionary::fuzzy_match reuses them).  Strings of more
   than 254 characters take the usize path, whose result saturates at u8::MAX; the caller's buffers are
   not touched then. *)
Definition wf_min_alloc (dbg : bool) (source target : text) (buf_prev buf_cur : list nat)
  : res (nat * list nat * list nat) :=
  let row_width := length source in
  let col_height := length target in
  if (254 <? row_width) || (254 <? col_height) then
    do r <- wf_long source target;
    Ok (Nat.min r 255, buf_prev, buf_cur)               (* .min(u8::MAX as usize) as u8 *)
  else
    let prev0 := seq 0 (S (as_u8 row_width)) in       (* clear(); extend(0u8..=row_width as u8) *)
    let cur0 := resize buf_cur (row_width + 1) 0 in   (* resize(row_width + 1, 0) *)
    do '(prev, cur) <- wf_outer dbg source target prev0 cur0 (seq 1 col_height);
    do r <- nth_chk prev row_width;
    Ok (r, prev, cur).

(* edit_distance(source, target): fresh buffers *)
Definition wf_u8 (dbg : bool) (source target : text) : res nat :=
  do '(r, _, _) <- wf_min_alloc dbg source target [] [];
  Ok r.

(* ---------- HISTORY: edit_distance_min_alloc before fix 7a7de79 (F19) — u8 rows for every length, guarded
   only by a debug assertion.  Kept for the regression witness C15_wf_u8_old_refuted. *)
Definition wf_min_alloc_old (dbg : bool) (source target : text) (buf_prev buf_cur : list nat)
  : res (nat * list nat * list nat) :=
  let row_width := length source in
  let col_height := length target in
  if dbg && ((255 <? row_width) || (255 <? col_height)) then Panic PUnwrap      (* assert!(..) *)
  else
    let prev0 := seq 0 (S (as_u8 row_width)) in
    let cur0 := resize buf_cur (row_width + 1) 0 in
    do '(prev, cur) <- wf_outer dbg source target prev0 cur0 (seq 1 col_height);
    do r <- nth_chk prev row_width;
    Ok (r, prev, cur).

Definition wf_u8_old (dbg : bool) (source target : text) : res nat :=
  do '(r, _, _) <- wf_min_alloc_old dbg source target [] [];
  Ok r.

(* ---------- a clean functional two-row formulation (used by the proofs as the stepping stone
   and by the extracted driver where the faithful buffer version would be needlessly slow) ------ *)
Fixpoint lev_row (a_prev_diag : nat) (left : nat) (source : text) (prev_tail : list nat) (b : char)
  : list nat :=
  (* left = current_row[i-1], a_prev_diag = previous_row[i-1], prev_tail = previous_row[i..] *)
  match source, prev_tail with
  | a :: s', p :: pt =>
      let v := Nat.min (Nat.min (p + 1) (left + 1)) (a_prev_diag + cost a b) in
      v :: lev_row p v s' pt b
  | _, _ => []
  end.

Definition next_row (source : text) (prev : list nat) (j : nat) (b : char) : list nat :=
  match prev with
  | [] => []
  | p0 :: pt => j :: lev_row p0 j source pt b
  end.

Fixpoint lev_rows (source : text) (prev : list nat) (j : nat) (target : text) : list nat :=
  match target with
  | [] => prev
  | b :: t' => lev_rows source (next_row source prev (S j) b) (S j) t'
  end.

Definition lev_fast (source target : text) : nat :=
  last (lev_rows source (seq 0 (S (length source))) 0 target) 0.
