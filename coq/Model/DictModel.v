(* DictModel.v — harper-core/src/spell/{word_id,word_map,mutable_dictionary,fst_dictionary,
   merged_dictionary}.rs and CharStringExt::{normalized,to_lower} (char_string.rs): the exact
   (non-fuzzy) queries of the three dictionary back-ends.  No proofs here.

   * WordId = hash of lower(normalized(word)).  The hash is modelled as the identity on the hashed
     character sequence (injectivity on the explored universe is monitored by the harness), so an id
     is a `text`.
   * WordMap (a hashbrown HashMap<WordId, WordMapEntry>) is an association list with unique keys;
     its iteration order is whatever order the list has — the theorems hold for every order.
   * WordMetadata is opaque: a `nat` tag (the harness interns the metadata values it uses).
   * Unicode data (char::is_lowercase, char::to_lowercase) are Section variables. *)
Require Import Base Tables_normalize.

Fixpoint text_eqb (a b : text) : bool :=
  match a, b with
  | [], [] => true
  | x :: a', y :: b' => N.eqb x y && text_eqb a' b'
  | _, _ => false
  end.

(* Ord for [char] / CharString: lexicographic by code point, a proper prefix is smaller *)
Fixpoint text_leb (a b : text) : bool :=
  match a, b with
  | [], _ => true
  | _ :: _, [] => false
  | x :: a', y :: b' => if N.ltb x y then true else if N.eqb x y then text_leb a' b' else false
  end.

(* char_to_normalized: the generated match table, default arm = identity *)
Fixpoint table_lookup (tbl : list (N * N)) (c : char) : char :=
  match tbl with
  | [] => c
  | (k, v) :: rest => if N.eqb c k then v else table_lookup rest c
  end.
Definition norm_char (c : char) : char := table_lookup normalize_table c.

(* CharStringExt::normalized, as written: Cow::Borrowed(self) unless some character changes *)
Definition normalized (w : text) : text :=
  if existsb (fun c => negb (N.eqb (norm_char c) c)) w then map norm_char w else w.

(* WordMetadata: opaque *)
Definition meta := nat.

Record entry := mkentry { e_meta : meta; e_canon : text }.
Definition wordmap := list (text * entry).

(* one result of a fuzzy search (FuzzyMatchResult) *)
Record fres := mkfres { r_word : text; r_dist : nat; r_meta : meta }.

(* what a `dyn Dictionary` can be asked (the trait methods C15 talks about); the *_str variants
   collect the chars of the &str and call these *)
Record dict_ops := mkops {
  d_contains : text -> bool;                          (* contains_word *)
  d_exact : text -> bool;                             (* contains_exact_word *)
  d_meta : text -> option meta;                       (* get_word_metadata *)
  d_canon : text -> option text;                      (* get_correct_capitalization_of *)
  d_from_id : text -> option text;                    (* get_word_from_id (id = hashed text) *)
  d_fuzzy : text -> text -> nat -> nat -> res (list fres);
                                                      (* fuzzy_match word (String::to_lowercase of the
                                                         normalised word, supplied by the caller: it is
                                                         std's, not harper's) max_distance max_results *)
  d_words : list text;                                (* words_iter, in iteration order *)
  d_count : nat                                       (* word_count *)
}.

(* slice::sort_unstable_by / sort_unstable_by_key / Itertools::sorted_by_key: modelled by the stable
   insertion sort for the comparison `le` (x is placed in front of the first element it is <= to).
   Which order an *unstable* sort gives to elements that compare equal is unspecified; the theorems
   about search results are therefore stated for every sorted permutation (Proofs/FuzzyProofs.v). *)
Fixpoint insert_by {A} (le : A -> A -> bool) (x : A) (l : list A) : list A :=
  match l with
  | [] => [x]
  | y :: ys => if le x y then x :: y :: ys else y :: insert_by le x ys
  end.
Fixpoint isort {A} (le : A -> A -> bool) (l : list A) : list A :=
  match l with
  | [] => []
  | x :: xs => insert_by le x (isort le xs)
  end.

(* Vec::dedup_by(same) / dedup_by_key: an element equal (under `same`) to the last element kept is dropped *)
Fixpoint dedup_from {A} (same : A -> A -> bool) (last : A) (l : list A) : list A :=
  match l with
  | [] => []
  | y :: rest => if same y last then dedup_from same last rest else y :: dedup_from same y rest
  end.
Definition dedup_by {A} (same : A -> A -> bool) (l : list A) : list A :=
  match l with
  | [] => []
  | x :: rest => x :: dedup_from same x rest
  end.

(* driver helper: the list is already in non-decreasing spelling order (see fst_new_bulk) *)
Fixpoint adj_sorted (l : list (text * nat)) : bool :=
  match l with
  | a :: rest => match rest with
                 | b :: _ => text_leb (fst a) (fst b) && adj_sorted rest
                 | [] => true
                 end
  | [] => true
  end.

Section Dict.
  Variable is_lower : char -> bool.            (* char::is_lowercase *)
  Variable lower : char -> list char.          (* char::to_lowercase *)

  (* CharStringExt::to_lower, as written *)
  Definition to_lower (w : text) : text :=
    if forallb is_lower w then w else flat_map lower w.

  (* WordId::from_word_chars *)
  Definition word_id (w : text) : text := to_lower (normalized w).

  (* ---------- WordMap ---------- *)
  Fixpoint wm_get (m : wordmap) (id : text) : option entry :=
    match m with
    | [] => None
    | (k, e) :: rest => if text_eqb k id then Some e else wm_get rest id
    end.

  (* HashMap::insert: an existing key keeps its slot, the value is replaced *)
  Fixpoint wm_put (m : wordmap) (id : text) (e : entry) : wordmap :=
    match m with
    | [] => [(id, e)]
    | (k, e0) :: rest => if text_eqb k id then (k, e) :: rest else (k, e0) :: wm_put rest id e
    end.

  (* WordMap::insert *)
  Definition wm_insert (m : wordmap) (e : entry) : wordmap := wm_put m (word_id (e_canon e)) e.

  Definition wm_get_with_chars (m : wordmap) (w : text) : option entry := wm_get m (word_id w).

  (* ---------- MutableDictionary ---------- *)
  (* extend_words: inserts in the order given *)
  Definition mut_extend (m : wordmap) (words : list (text * meta)) : wordmap :=
    fold_left (fun m wm => wm_insert m (mkentry (snd wm) (fst wm))) words m.

  Definition mut_meta (m : wordmap) (w : text) : option meta :=
    option_map e_meta (wm_get_with_chars m w).
  Definition mut_contains (m : wordmap) (w : text) : bool :=
    match wm_get_with_chars m w with Some _ => true | None => false end.
  Definition mut_canon (m : wordmap) (w : text) : option text :=
    option_map e_canon (wm_get_with_chars m w).
  (* contains_exact_word (after fix ebb53b3): the stored spelling is compared in normalized form too *)
  Definition mut_exact (m : wordmap) (w : text) : bool :=
    let n := normalized w in
    match wm_get_with_chars m n with
    | Some found => text_eqb (normalized (e_canon found)) n
    | None => false
    end.
  Definition mut_from_id (m : wordmap) (id : text) : option text := option_map e_canon (wm_get m id).
  Definition mut_words (m : wordmap) : list text := map (fun kv => e_canon (snd kv)) m.

  (* ---------- FstDictionary ---------- *)
  (* words.sort_unstable_by(|(a,_),(b,_)| a.cmp(b)).  Entries with equal spelling are
     indistinguishable for the comparison; which of them comes first is unspecified in Rust (the
     harness never gives two different metadata to one spelling in an FstDictionary). *)
  Definition wsort (l : list (text * meta)) : list (text * meta) :=
    isort (fun x y => text_leb (fst x) (fst y)) l.
  (* words.dedup_by(|(a,_),(b,_)| a == b): Vec::dedup_by compares each element with the last
     element that was kept and drops it when they are "the same" *)
  Definition wdedup (l : list (text * meta)) : list (text * meta) :=
    dedup_by (fun x y => text_eqb (fst x) (fst y)) l.

  Record fst_dict := mkfst {
    f_full : wordmap;                         (* full_dict: MutableDictionary *)
    f_words : list (text * meta)              (* words: sorted, deduplicated; index = value in the fst::Map *)
  }.

  (* FstDictionary::new (after fix 71c98b2): sort, dedup by spelling, build the word map, then
     words.retain(|(w, _)| full_dict.get_correct_capitalization_of(w) == Some(w)) — only the spellings
     the word map kept stay in the fuzzy index (`words` + the fst::Map built from it) *)
  Definition kept_by (full : wordmap) (wm : text * meta) : bool :=
    match mut_canon full (fst wm) with
    | Some c => text_eqb c (fst wm)
    | None => false
    end.

  Definition fst_new (words : list (text * meta)) : fst_dict :=
    let ws := wdedup (wsort words) in
    let full := mut_extend [] ws in
    mkfst full (filter (kept_by full) ws).

  (* HISTORY: FstDictionary::new before fix 71c98b2 (FC15a) — `words` kept every spelling.  Only for the
     regression witness C15_fst_new_collision_old_refuted. *)
  Definition fst_new_old (words : list (text * meta)) : fst_dict :=
    let ws := wdedup (wsort words) in
    mkfst (mut_extend [] ws) ws.

  (* From<MutableDictionary> for FstDictionary: word_map.into_iter() in iteration order *)
  Definition fst_of_mutable (m : wordmap) : fst_dict :=
    fst_new (map (fun kv => (e_canon (snd kv), e_meta (snd kv))) m).

  (* every exact query delegates to full_dict *)
  Definition fst_meta (f : fst_dict) := mut_meta (f_full f).
  Definition fst_contains (f : fst_dict) := mut_contains (f_full f).
  Definition fst_canon (f : fst_dict) := mut_canon (f_full f).
  Definition fst_exact (f : fst_dict) := mut_exact (f_full f).
  Definition fst_from_id (f : fst_dict) := mut_from_id (f_full f).
  Definition fst_words_iter (f : fst_dict) := mut_words (f_full f).

  (* ---------- MergedDictionary: loops over the children, first answer wins ---------- *)
  Fixpoint first_some {A B} (f : A -> option B) (l : list A) : option B :=
    match l with
    | [] => None
    | x :: rest => match f x with Some v => Some v | None => first_some f rest end
    end.

  Definition merged_contains (cs : list dict_ops) (w : text) : bool := existsb (fun c => d_contains c w) cs.
  Definition merged_exact (cs : list dict_ops) (w : text) : bool := existsb (fun c => d_exact c w) cs.
  Definition merged_meta (cs : list dict_ops) (w : text) : option meta := first_some (fun c => d_meta c w) cs.
  Definition merged_canon (cs : list dict_ops) (w : text) : option text := first_some (fun c => d_canon c w) cs.
  Definition merged_from_id (cs : list dict_ops) (id : text) : option text := first_some (fun c => d_from_id c id) cs.
  Definition merged_words (cs : list dict_ops) : list text := flat_map d_words cs.
  Definition merged_count (cs : list dict_ops) : nat := fold_right (fun c n => d_count c + n) 0 cs.
End Dict.

(* ---------- MergedDictionary::hash_dictionary / PartialEq (after fix f2dc537) ----------
   child hash = words_iter().map(|w| hasher_builder.hash_one(w)).fold(0u64, wrapping_add)   (the curated
   dictionary, recognised by pointer, hashes to 1 and is not modelled here); two merged dictionaries are
   `==` iff their lists of child hashes are equal.  `hash_one` (foldhash) is a parameter. *)
Definition two64 : N := 18446744073709551616%N.
Definition wrapping_add64 (a b : N) : N := ((a + b) mod two64)%N.
Definition hash_words (hash_one : text -> N) (ws : list text) : N :=
  fold_left (fun acc w => wrapping_add64 acc (hash_one w)) ws 0%N.
Definition merged_eqb (hash_one : text -> N) (cs cs' : list (list text)) : bool :=
  let hs := map (hash_words hash_one) cs in
  let hs' := map (hash_words hash_one) cs' in
  (length hs =? length hs') && forallb (fun p => N.eqb (fst p) (snd p)) (combine hs hs').

(* HISTORY: before fix f2dc537 the characters of all words went into ONE hasher, in iteration order, with
   no separator: the hash was a function of the concatenation of the words *)
Definition hash_words_old (hash_stream : text -> N) (ws : list text) : N := hash_stream (concat ws).
