(* C02Inert.v — phase 7: the decidable classes of Markdown token vectors that the Document::new theorems cover.
     class 0  every zero-width token is a ParagraphBreak                      (C02_document_markdown_breaks)
     class 1  not 0; every zero-width Newline counts >= 2 lines and, after condense_spaces, none of them is a
              neighbour (in the vector) of another Newline — condense_newlines leaves them alone, newlines_to_breaks
              turns them into floating breaks                                  (C02_document_markdown_inert_newlines)
     class 2  the REMAINING class: a zero-width Newline that condense_newlines merges with a neighbour
   No proofs here.  `md_doc_class` is extracted and printed by the driver on every M line (the harness computes the
   same class natively from the implementation's tokens). *)
Require Import Base Overlap Tables_lexer Lexer Condense.
From Coq Require Import List Arith Bool.
Import ListNotations.

Definition zwb (t : token) : bool := tstart t =? tend t.
Definition is_nl (t : token) : bool := match tkind_of t with KNewline _ => true | _ => false end.
(* a zero-width Newline read as the zero-width ParagraphBreak of the same span *)
Definition nl2pb (t : token) : token := if zwb t && is_nl t then mktok (tspan t) KParagraphBreak else t.

Definition nl2b (t : token) : bool :=
  match tkind_of t with KNewline n => negb (zwb t) || (2 <=? n) | _ => true end.

(* no two neighbours in the vector are both Newlines with one of them zero-width *)
Fixpoint iso (ts : list token) : bool :=
  match ts with
  | x :: r => match r with
              | y :: _ => negb (is_nl x && is_nl y && (zwb x || zwb y)) && iso r
              | [] => true
              end
  | [] => true
  end.

Definition nl_inertb (ts : list token) : bool :=
  forallb nl2b ts && match condense_spaces ts with Ok t1 => iso t1 | Panic _ => false end.

Definition zw_only_breaksb (ts : list token) : bool :=
  forallb (fun t => negb (zwb t) || match tkind_of t with KParagraphBreak => true | _ => false end) ts.

Definition md_doc_class (ts : list token) : nat :=
  if zw_only_breaksb ts then 0 else if nl_inertb ts then 1 else 2.
