(* C03Roots.v (phase 5) — the span sources of the PATTERN rules' bodies, as a small expression language over the slice
   `matched_tokens` that run_on_chunk hands to match_to_lint (harper-core/src/linting/**, `impl PatternLinter for X`).
   tools/tables/c03roots.py (scanner: spanexprs.py §4) parses, on every run, the `span` of every `Lint { .. }` and the
   receiver of every `get_content` / `get_content_string` of every match_to_lint into this language and records the ROOT
   variable (the matched-tokens parameter, not shadowed — or anything else): Model/Tables_c03roots.v.

     Rust (P = first parameter of match_to_lint)                         here
     P[n].span   P.get(n)?.span                                           ATok (IConst n)
     P.first()?.span   P.first().unwrap().span                            ATok IFirst
     P.last()?.span                                                       ATok ILast
     P[P.len() - k].span                                                  ATok (ILenMinus k)
     P[e].span, e any other index expression; `for (v, _) in P.iter()`    ATok (IDyn j)     j-th run-time value: ANY number
     v.span  where  let v = &P[..] | P.first()? | ..                      the parse of v's definition
     P.span()?   P[a..b].span()?   P[a..].span()?   P[a..=b].span().unwrap()   AHull lo hi
     s  where  let s = <one of the above>                                 the parse of s's definition

   `eval_src` gives the span the expression denotes on a slice (None = no lint: an index panics, `?` leaves, the hull of
   an empty slice).  `pattern_prule` is a whole pattern rule as LintGroup::lint sees it: run_on_chunk of Pattern.v over
   the chunk, and for every matched range a body that may or may not lint (`sel`: which Lint construction is reached,
   the run-time values, the payload — arbitrary) with the span eval_src computes.   No proofs here. *)
Require Import Base Cache TokenSeq Pattern C03LintGroup.
From Coq Require Import List Arith NArith Bool String.
Import ListNotations.

Inductive idx := IConst (n : nat) | IFirst | ILast | ILenMinus (k : nat) | IDyn (j : nat).
Inductive hbound := HNone | HExcl (i : idx) | HIncl (i : idx).
Inductive src_ast := ATok (i : idx) | AHull (lo : option idx) (hi : hbound) | AUnknown.
Inductive src_root := RMatched | ROther.
Inductive site_kind := SLint | SRead.
Inductive payload_src := PNoRead | PLintSpan | PMatched | POther.
Record site := mksite { s_kind : site_kind; s_expr : string; s_ast : src_ast; s_root : src_root; s_ndyn : nat }.
Record prow := mkprow { p_file : string; p_name : string; p_sites : list site }.

Section Eval.
  Variable kind : Type.
  Notation toks := (list (Cache.tok kind)).

  Definition eval_idx (n : nat) (dyn : nat -> nat) (i : idx) : option nat :=
    match i with
    | IConst k => Some k
    | IFirst => Some 0
    | ILast => if n =? 0 then None else Some (n - 1)                 (* .last()? *)
    | ILenMinus k => if n <? k then None else Some (n - k)            (* P.len() - k: underflow panics *)
    | IDyn j => Some (dyn j)
    end.

  Definition eval_src (mt : toks) (dyn : nat -> nat) (a : src_ast) : option span :=
    let n := List.length mt in
    match a with
    | ATok i =>
        match eval_idx n dyn i with
        | Some k => option_map snd (nth_error mt k)                   (* P[k].span: out of range = panic = no lint *)
        | None => None
        end
    | AHull lo hi =>
        match (match lo with None => Some 0 | Some i => eval_idx n dyn i end),
              (match hi with HNone => Some n | HExcl i => eval_idx n dyn i | HIncl i => option_map S (eval_idx n dyn i) end) with
        | Some a0, Some b0 =>
            match slice_chk mt a0 b0 with                             (* &P[a..b] *)
            | Ok sl => match hull_of sl with Ok (Some s) => Some s | _ => None end   (* .span()? / .span().unwrap() *)
            | Panic _ => None
            end
        | _, _ => None
        end
    | AUnknown => None
    end.
End Eval.
Arguments eval_idx n dyn i : assert.
Arguments eval_src {kind}.

(* ---------- a pattern rule of LintGroup::lint built from a row of the table ----------
   kind := everything of a token but its span (TokenSeq.tok = span + kind id + flags + identity) *)
Definition pkind := (nat * N * nat)%type.
Definition to_tok (x : Cache.tok pkind) : TokenSeq.tok :=
  let '((k, f, i), sp) := x in mktok sp k f i.

Section Rule.
  Variable leaf : nat -> TokenSeq.tok -> text -> res bool.
  Variable oracle : nat -> list TokenSeq.tok -> text -> res bool.

  (* what the rest of a body decides: None = `return None`; Some (i, dyn, payload) = the i-th Lint construction of the
     body is reached with these run-time index values and this payload (kind, message, suggestions: cl_body) *)
  Definition body_sel := nat -> list (Cache.tok pkind) -> text -> option (nat * (nat -> nat) * N).

  Definition body_lint (asts : list src_ast) (sel : body_sel) (t : nat) (src : text) (mt : list (Cache.tok pkind)) : list clint :=
    match sel t mt src with
    | None => []
    | Some (i, dyn, payload) =>
        match nth_error asts i with
        | None => []
        | Some a => match eval_src mt dyn a with Some s => [mkclint s payload] | None => [] end
        end
    end.

  (* run_on_chunk(linter, chunk, source): the ranges of Pattern.run_on_chunk, match_to_lint on each slice; a panic of the
     pattern gives no result (the call dies: C01's business) *)
  Definition pattern_prule (p : pat) (asts : list src_ast) (sel : body_sel) : prule pkind :=
    fun t src ts =>
      match run_on_chunk leaf oracle p (map to_tok ts) src with
      | Ok ranges => flat_map (fun ab => body_lint asts sel t src (slice ts (fst ab) (snd ab))) ranges
      | Panic _ => []
      end.
End Rule.

(* ---------- the table's own checks (executable) ---------- *)
Definition ast_known (a : src_ast) : bool := match a with AUnknown => false | _ => true end.
Definition site_matched (s : site) : bool :=
  match s_root s with RMatched => ast_known (s_ast s) | ROther => false end.
Definition is_lint (s : site) : bool := match s_kind s with SLint => true | SRead => false end.
Definition row_lints_matched (r : prow) : bool :=
  forallb site_matched (filter is_lint (p_sites r)) && existsb is_lint (p_sites r).
Definition row_reads_matched (r : prow) : bool :=
  forallb site_matched (filter (fun s => negb (is_lint s)) (p_sites r)).
Definition row_lint_asts (r : prow) : list src_ast := map s_ast (filter is_lint (p_sites r)).

(* ---------- driver entry point (extracted): the span of the lint the body of rule `name` makes on a matched slice ----------
   `spans`: the spans of the matched tokens; `got`: the span the implementation reported.  Answer: the span every Lint
   site of the rule denotes when they all agree and need no run-time value; otherwise whether SOME site with SOME run-time
   values below |slice| denotes `got` (Some got) or none does (None). *)
Fixpoint nat_list_eqb (a b : list nat) : bool :=
  match a, b with
  | [], [] => true
  | x :: a', y :: b' => (x =? y) && nat_list_eqb a' b'
  | _, _ => false
  end.
Definition span_eqb (a b : span) : bool := (sstart a =? sstart b) && (send a =? send b).
Definition ospan_eqb (a b : option span) : bool :=
  match a, b with Some x, Some y => span_eqb x y | None, None => true | _, _ => false end.
Definition idx_dyn (i : idx) : bool := match i with IDyn _ => true | _ => false end.
Definition ast_dyn (a : src_ast) : bool :=
  match a with
  | ATok i => idx_dyn i
  | AHull lo hi => (match lo with Some i => idx_dyn i | None => false end) ||
                   (match hi with HExcl i | HIncl i => idx_dyn i | HNone => false end)
  | AUnknown => true
  end.
(* run-time values: all pairs (d0, d1) below n (no site of the table has more than two) *)
Definition dyn_candidates (n : nat) : list (nat -> nat) :=
  flat_map (fun d0 => map (fun d1 => fun j : nat => match j with 0 => d0 | _ => d1 end) (seq 0 (S n))) (seq 0 (S n)).

Definition run_rule_span (table : list (list nat * list src_ast)) (name : list nat) (spans : list span) (got : span)
  : option (option span) :=
  match find (fun r => nat_list_eqb (fst r) name) table with
  | None => None                                                     (* unknown rule *)
  | Some (_, asts) =>
      let mt : list (Cache.tok unit) := map (fun s => (tt, s)) spans in
      match asts with
      | [] => None
      | a :: rest =>
          if negb (existsb ast_dyn asts) then
            let v := eval_src mt (fun _ => 0) a in
            if forallb (fun b => ospan_eqb (eval_src mt (fun _ => 0) b) v) rest then Some v else None
          else
            if existsb (fun b => existsb (fun d => ospan_eqb (eval_src mt d b) (Some got)) (dyn_candidates (List.length mt))) asts
            then Some (Some got) else Some None
      end
  end.
