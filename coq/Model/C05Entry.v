(* C05Entry.v — the two ENTRY POINTS that keep one LintGroup alive, as they compose the pieces:

     harper_wasm::Linter::lint (harper-wasm/src/lib.rs)            DocumentState::generate_diagnostics (harper-ls)
       let temp = self.lint_group.config.clone();                    let temp = self.linter.config.clone();
       self.lint_group.config.fill_with_curated();                   self.linter.config.fill_with_curated();
       let mut lints = self.lint_group.lint(&document);              let mut lints = self.linter.lint(&self.document);
       self.lint_group.config = temp;                                self.linter.config = temp;
       remove_overlaps(&mut lints);                                  -
       self.ignored_lints.remove_ignored(&mut lints, &document);     self.ignored_lints.remove_ignored(&mut lints, ..);

   and the operations that change what they hold between two lints:
     set_lint_config_from_json/object   config.clear(); config.merge_from(&mut new)          (caches survive)
     ignore_lint / import_ignored_lints / clear_ignored_lints   (a HashSet<u64> of context hashes)
     import_words -> synchronize_lint_dict   a NEW LintGroup (empty caches) over the new dictionary, the old
                                             configuration merged onto new_curated_empty_config's
     harper-ls update_document on a changed dictionary, did_change_configuration:
                                             LintGroup::new_curated(dict, dialect).with_lint_config(cfg)
   LintGroup::lint is Cache.lint_doc (chunk cache, spelling cache, any eviction); remove_overlaps is
   Overlap.remove_overlaps (frozen model of C13), applied to the lints numbered by position.
   No proofs here (Proofs/C05EntryProofs.v). *)
Require Import Base Overlap Cache.

(* ---------- remove_overlaps on the lints of this model (span + opaque body): Overlap.remove_overlaps over the
   lints numbered by their position, the survivors looked up again ---------- *)
Fixpoint number_lints (i : nat) (ls : list clint) : list lint :=
  match ls with
  | [] => []
  | l :: t => mklint (cl_span l) i :: number_lints (S i) t
  end.
Definition remove_overlaps_c (ls : list clint) : list clint :=
  flat_map (fun o => match nth_error ls (lid o) with
                     | Some l => [mkclint (lspan o) (cl_body l)]
                     | None => []
                     end)
           (remove_overlaps (number_lints 0 ls)).

(* ---------- LintGroupConfig, concretely: BTreeMap<String, Option<bool>> as a list of (key bytes, value)
   strictly ascending in the byte-wise order of `str` ---------- *)
Definition ckey := list N.
Fixpoint ckcmp (a b : ckey) : comparison :=
  match a, b with
  | [], [] => Eq
  | [], _ :: _ => Lt
  | _ :: _, [] => Gt
  | x :: a', y :: b' => match N.compare x y with Eq => ckcmp a' b' | Lt => Lt | Gt => Gt end
  end.
Definition lgconfig := list (ckey * option bool).
(* BTreeMap::insert *)
Fixpoint cinsert (k : ckey) (v : option bool) (c : lgconfig) : lgconfig :=
  match c with
  | [] => [(k, v)]
  | (k', v') :: t =>
      match ckcmp k k' with
      | Lt => (k, v) :: c
      | Eq => (k', v) :: t
      | Gt => (k', v') :: cinsert k v t
      end
  end.
(* clear(): every value becomes None, the keys stay *)
Definition cclear (c : lgconfig) : lgconfig := map (fun e => (fst e, None)) c.
(* merge_from(&mut self, other): for (key, val) in other { if val.is_none() { continue }; self.insert(key, val) } *)
Definition cmerge_into (self other : lgconfig) : lgconfig :=
  fold_left (fun acc e => match snd e with None => acc | Some _ => cinsert (fst e) (snd e) acc end) other self.
(* fill_with_curated(&mut self): temp = new_curated(); swap(self, temp); self.merge_from(&mut temp) *)
Definition cfill (curated self : lgconfig) : lgconfig := cmerge_into curated self.
(* harper_wasm::Linter::set_lint_config_from_*: self.lint_group.config.clear(); ...merge_from(&mut new_config) *)
Definition wasm_set_cfg (stored new : lgconfig) : lgconfig := cmerge_into (cclear stored) new.
(* synchronize_lint_dict: new_curated_empty_config(..).config.merge_from(&mut old_config) *)
Definition wasm_sync_cfg (curated stored : lgconfig) : lgconfig := cmerge_into (cclear curated) stored.
(* self.inner.get(key).cloned().flatten().unwrap_or(false) *)
Fixpoint cis_enabled (c : lgconfig) (k : ckey) : bool :=
  match c with
  | [] => false
  | (k', v) :: t => match ckcmp k k' with Eq => match v with Some b => b | None => false end | _ => cis_enabled t k end
  end.

Inductive entry := Wasm | Ls.

Section Entry.
  Variables cfg kind dict : Type.
  Notation K := (text * N * N)%type.
  Notation toks := (list (tok kind)).
  Variable cfg_hash : cfg -> N.
  Variable tok_hash : toks -> N.
  (* LintGroupConfig::fill_with_curated as a function of the stored configuration *)
  Variable fill : cfg -> cfg.
  (* the rules now take the dictionary (and dialect) the LintGroup was built over *)
  Variable pattern_rel : dict -> text -> toks -> cfg -> list clint.
  Variables struct_pre struct_post : dict -> cfg -> doc kind -> list clint.
  Variable spell_on : cfg -> bool.
  Variable suggest : dict -> text -> list text.
  Variable spell_mk : text -> span -> list text -> clint.
  (* the hash of LintContext::from_lint(lint, document) *)
  Variable ctx : doc kind -> clint -> N.

  (* IgnoredLints::remove_ignored: if self.context_hashes.is_empty() { return }; lints.retain(|l| !self.is_ignored(l, document)) *)
  Definition is_ignored (ign : list N) (d : doc kind) (l : clint) : bool := existsb (N.eqb (ctx d l)) ign.
  Definition remove_ignored (ign : list N) (d : doc kind) (ls : list clint) : list clint :=
    match ign with
    | [] => ls
    | _ :: _ => filter (fun l => negb (is_ignored ign d l)) ls
    end.

  (* what the entry point does to the lints of LintGroup::lint *)
  Definition post (e : entry) (ign : list N) (d : doc kind) (ls : list clint) : list clint :=
    remove_ignored ign d (match e with Wasm => remove_overlaps_c ls | Ls => ls end).

  (* the dictionary the LintGroup was built over, the LintGroup (stored configuration + the two caches),
     the context hashes of the ignored lints (a HashSet: only membership and emptiness are read) *)
  Record estate := mkestate { e_dict : dict; e_lg : state cfg K; e_ign : list N }.
  Definition efresh (dc : dict) (c : cfg) : estate := mkestate dc (fresh c) [].

  Inductive eop :=
  | ESetCfg (c : cfg)                       (* the stored configuration becomes c; the caches survive *)
  | ELint (d : doc kind) (evs : list (K -> bool)) (sevs : list (text -> bool))
  | EIgnore (d : doc kind) (l : clint)      (* ignore_lint(lint, document) *)
  | EImportIgnored (hs : list N)            (* import_ignored_lints: append *)
  | EClearIgnored
  | ERebuild (dc : dict) (c : cfg)          (* a new LintGroup over dc with stored configuration c: EMPTY caches *)
  | EEvict (keep : K -> bool) (skeep : text -> bool).

  Definition lint_group_lint (dc : dict) :=
    lint_doc cfg kind K code_key_eqb (code_key cfg_hash tok_hash) (pattern_rel dc)
             (struct_pre dc) (struct_post dc) spell_on (suggest dc) spell_mk.

  (* Linter::lint / generate_diagnostics.  Flags: hit/miss per chunk with a span, per word *)
  Definition entry_lint (e : entry) (st : estate) (d : doc kind) evs sevs
    : res (estate * list clint * (list bool * list bool)) :=
    let lg := e_lg st in
    let temp := st_cfg lg in                                              (* let temp = config.clone() *)
    let lg1 := mkstate (fill temp) (st_cache lg) (st_spell lg) in          (* config.fill_with_curated() *)
    do '(lg2, out, flags) <- lint_group_lint (e_dict st) lg1 d evs sevs;   (* lint_group.lint(&document) *)
    let lg3 := mkstate temp (st_cache lg2) (st_spell lg2) in               (* config = temp *)
    Ok (mkestate (e_dict st) lg3 (e_ign st), post e (e_ign st) d out, flags).

  Definition estep (e : entry) (st : estate) (o : eop) : res (estate * option (list clint)) :=
    match o with
    | ESetCfg c => Ok (mkestate (e_dict st) (mkstate c (st_cache (e_lg st)) (st_spell (e_lg st))) (e_ign st), None)
    | ELint d evs sevs => do '(st', out, _) <- entry_lint e st d evs sevs; Ok (st', Some out)
    | EIgnore d l => Ok (mkestate (e_dict st) (e_lg st) (ctx d l :: e_ign st), None)
    | EImportIgnored hs => Ok (mkestate (e_dict st) (e_lg st) (hs ++ e_ign st), None)
    | EClearIgnored => Ok (mkestate (e_dict st) (e_lg st) [], None)
    | ERebuild dc c => Ok (mkestate dc (fresh c) (e_ign st), None)
    | EEvict keep skeep =>
        Ok (mkestate (e_dict st)
                     (mkstate (st_cfg (e_lg st)) (evict keep (st_cache (e_lg st))) (evict skeep (st_spell (e_lg st))))
                     (e_ign st), None)
    end.

  Fixpoint run_ehist (e : entry) (h : list eop) (st : estate) : res (estate * list (list clint)) :=
    match h with
    | [] => Ok (st, [])
    | o :: t =>
        do '(st1, out) <- estep e st o;
        do '(st2, outs) <- run_ehist e t st1;
        Ok (st2, match out with Some l => l :: outs | None => outs end)
    end.

  (* ---------- the specification: NO cache anywhere.  What is left of the state is the abstract state
     (dictionary, stored configuration, ignored context hashes) ---------- *)
  Record astate := mkastate { a_dict : dict; a_cfg : cfg; a_ign : list N }.
  Definition abs_of (st : estate) : astate := mkastate (e_dict st) (st_cfg (e_lg st)) (e_ign st).
  Definition astep (a : astate) (o : eop) : astate :=
    match o with
    | ESetCfg c => mkastate (a_dict a) c (a_ign a)
    | ELint _ _ _ => a
    | EIgnore d l => mkastate (a_dict a) (a_cfg a) (ctx d l :: a_ign a)
    | EImportIgnored hs => mkastate (a_dict a) (a_cfg a) (hs ++ a_ign a)
    | EClearIgnored => mkastate (a_dict a) (a_cfg a) []
    | ERebuild dc c => mkastate dc c (a_ign a)
    | EEvict _ _ => a
    end.
  Definition abs_after (h : list eop) (a : astate) : astate := fold_left astep h a.

  (* the answer as a function of (entry point, dictionary, stored configuration, ignore list, document) *)
  Definition espec_lint (e : entry) (a : astate) (d : doc kind) : list clint :=
    post e (a_ign a) d
      (spec_lint cfg kind (pattern_rel (a_dict a)) (struct_pre (a_dict a)) (struct_post (a_dict a)) spell_on
                 (suggest (a_dict a)) spell_mk (fill (a_cfg a)) d).
  Fixpoint espec_hist (e : entry) (h : list eop) (a : astate) : list (list clint) :=
    match h with
    | [] => []
    | ELint d evs sevs :: t => espec_lint e a d :: espec_hist e t a
    | o :: t => espec_hist e t (astep a o)
    end.

  (* what a freshly built entry point in the same abstract state answers (empty caches, nothing evicted) *)
  Definition efresh_lint (e : entry) (a : astate) (d : doc kind) : res (list clint) :=
    do '(_, out, _) <- entry_lint e (mkestate (a_dict a) (fresh (a_cfg a)) (a_ign a)) d [] []; Ok out.

  (* the (chars, relative tokens, EFFECTIVE configuration) triples the history hands to the pattern rules *)
  Fixpoint ehist_triples (h : list eop) (c : cfg) : list (text * toks * cfg) :=
    match h with
    | [] => []
    | ESetCfg c' :: t => ehist_triples t c'
    | ERebuild _ c' :: t => ehist_triples t c'
    | ELint d _ _ :: t => doc_triples cfg kind (fill c) d ++ ehist_triples t c
    | _ :: t => ehist_triples t c
    end.
  Fixpoint ehist_wf (h : list eop) : Prop :=
    match h with
    | [] => True
    | ELint d _ _ :: t => doc_wf d /\ ehist_wf t
    | _ :: t => ehist_wf t
    end.
End Entry.

Arguments mkestate {cfg dict}.
Arguments e_dict {cfg dict}.
Arguments e_lg {cfg dict}.
Arguments e_ign {cfg dict}.
Arguments efresh {cfg dict}.
Arguments mkastate {cfg dict}.
Arguments a_dict {cfg dict}.
Arguments a_cfg {cfg dict}.
Arguments a_ign {cfg dict}.
Arguments ESetCfg {cfg kind dict}.
Arguments ELint {cfg kind dict}.
Arguments EIgnore {cfg kind dict}.
Arguments EImportIgnored {cfg kind dict}.
Arguments EClearIgnored {cfg kind dict}.
Arguments ERebuild {cfg kind dict}.
Arguments EEvict {cfg kind dict}.

(* ---------- driver entry points (extracted).  cfg := lgconfig (concrete), kind := N, dict := N ---------- *)
Definition drv_estate := estate lgconfig N.
Definition drv_new (dc : N) (c : lgconfig) : drv_estate := efresh dc c.
Definition drv_stored (st : drv_estate) : lgconfig := st_cfg (e_lg st).
Definition drv_set_stored (st : drv_estate) (c : lgconfig) : drv_estate :=
  mkestate (e_dict st) (mkstate c (st_cache (e_lg st)) (st_spell (e_lg st))) (e_ign st).
(* Linter::set_lint_config_from_json *)
Definition drv_wasm_set_cfg (st : drv_estate) (new : lgconfig) : drv_estate :=
  drv_set_stored st (wasm_set_cfg (drv_stored st) new).
(* Linter::import_words that changed the dictionary -> synchronize_lint_dict *)
Definition drv_wasm_sync (curated : lgconfig) (st : drv_estate) (dc : N) : drv_estate :=
  mkestate dc (fresh (wasm_sync_cfg curated (drv_stored st))) (e_ign st).
(* harper-ls: LintGroup::new_curated(dict, dialect).with_lint_config(cfg) *)
Definition drv_ls_rebuild (st : drv_estate) (dc : N) (c : lgconfig) : drv_estate :=
  mkestate dc (fresh c) (e_ign st).
Definition drv_ignore (st : drv_estate) (h : N) : drv_estate := mkestate (e_dict st) (e_lg st) (h :: e_ign st).
Definition drv_clear_ignored (st : drv_estate) : drv_estate := mkestate (e_dict st) (e_lg st) [].
Definition drv_evict (st : drv_estate) (keep : text * N * N -> bool) (skeep : text -> bool) : drv_estate :=
  mkestate (e_dict st)
           (mkstate (st_cfg (e_lg st)) (evict keep (st_cache (e_lg st))) (evict skeep (st_spell (e_lg st))))
           (e_ign st).
Definition drv_spell_key : ckey := [83; 112; 101; 108; 108; 67; 104; 101; 99; 107]%N.   (* "SpellCheck" *)
Definition drv_entry_lint (e : entry) (curated : lgconfig)
    (cfg_hash : lgconfig -> N) (tok_hash : list (tok N) -> N)
    (pattern_rel : N -> text -> list (tok N) -> lgconfig -> list clint)
    (pre post_ : list clint) (suggest : N -> text -> list text) (ctx : clint -> N)
    (st : drv_estate) (d : doc N) (evs : list (text * N * N -> bool)) (sevs : list (text -> bool))
  : res (drv_estate * list clint * (list bool * list bool)) :=
  entry_lint lgconfig N N cfg_hash tok_hash (cfill curated) pattern_rel
             (fun _ _ _ => pre) (fun _ _ _ => post_) (fun c => cis_enabled c drv_spell_key) suggest drv_spell_mk
             (fun _ l => ctx l) e st d evs sevs.
(* the effective configuration of the next lint, for the driver to name it *)
Definition drv_effective (curated : lgconfig) (st : drv_estate) : lgconfig := cfill curated (drv_stored st).
