(* C12Currency.v — phase 7: per-slice bodies that run under a document-wide remove_overlaps, as faithful functions of
   the chunk's tokens (spans computed FROM the tokens), and the well-formedness guard under which such a body reports
   inside its slice.  No proofs here.

   linting/currency_placement.rs, the body of `for chunk in document.iter_chunks() { .. }`:
       for (a, b) in chunk.iter().tuple_windows()            { extend(generate_lint_for_tokens(a, b)) }
       if let Some((a, b, c)) = ...tuple_windows().next()    { if b.is_whitespace() { extend(gen(a, c)) } }
       for (p, a, b, c) in chunk.iter().tuple_windows()      { if !b.is_whitespace() || p.is_currency() { continue } extend(gen(a, c)) }
   generate_lint_for_tokens: span = Span::new(a.span.start, b.span.end), priority 63.
   The three generators are C13's model (Model/C13Callers.v: windows2 / first_triple / windows4 / chunk_cands, tied to
   the code by C13's correspondence `run_currency`); here they run on the tokens of ONE relativised chunk as `lift`
   hands them over.  The kind classes of ParaSplit.kind do not separate Punctuation::Currency from other punctuation:
   `cur` is that test (a parameter, like `unl` of CommaFixes); `wrong chars s e` = `correct != actual` on chars[s..e). *)
Require Import Base Overlap ParaSplit C13Callers.

(* TokenKind::as_punctuation / as_number / is_whitespace / is_currency on the kind classes *)
Definition cp_ckind (is_cur : bool) (k : kind) : ckind :=
  match k with
  | KNumber => CkNumber
  | KSpace | KNewline => CkSpace
  | KPunct => if is_cur then CkCurrency else CkPunct
  | KPeriod | KBang | KQuestion | KComma | KColon | KQuote _ => CkPunct
  | KBreak | KWord | KOther => CkOther
  end.

(* the body for an arbitrary classification of the slice's tokens *)
Definition cp_body_cls (cls : tok -> text -> ckind) (wrong : text -> nat -> nat -> bool)
           (c : list tok) (chars : text) : list lint :=
  match chunk_cands (wrong chars) (map (fun t => mkctok (cls t chars) (tspan t)) c) with
  | Ok spans => map (fun s => mklint s 63) spans
  | Panic _ => []
  end.

Definition cp_body (cur : tok -> text -> bool) (wrong : text -> nat -> nat -> bool) : list tok -> text -> list lint :=
  cp_body_cls (fun t chars => cp_ckind (cur t chars) (tkind t)) wrong.

(* ---------- the well-formedness of a (slice, characters) pair as `lift` produces it on Document tokens ---------- *)
(* every token covers at least one character and ends inside the characters (C02: the tokens of a plain-English
   Document tile the text) *)
Definition tok_wfb (n : nat) (t : tok) : bool :=
  (sstart (tspan t) <? send (tspan t)) && (send (tspan t) <=? n).
Definition wf_pairb (c : list tok) (chars : text) : bool := forallb (tok_wfb (length chars)) c.

(* a body restricted to well-formed pairs: agrees with the body on every slice of a Document *)
Definition guard_wf (g0 : list tok -> text -> list lint) (c : list tok) (chars : text) : list lint :=
  if wf_pairb c chars then g0 c chars else [].

(* ---------- the blanket `impl<L: PatternLinter> Linter for L` body (linting/pattern_linter.rs: run_on_chunk) ---------- *)
(*   loop { if tok_cursor >= chunk.len() { break }
            let match_len = pattern.matches(&chunk[tok_cursor..], source);
            if match_len != 0 { lints.extend(match_to_lint(&chunk[tok_cursor..tok_cursor + match_len], source)); tok_cursor += match_len }
            else { tok_cursor += 1 } }
   match_to_lint of the nine sub-rules of the four merge_linters! rules takes its lint span either from ONE matched token
   (`matched_tokens[i].span`, `.first()?.span`) or from the hull of a sub-slice (`matched_tokens[a..b].span()?`, `matched_tokens.span()?`);
   which one, and whether to report at all, is the rule's business: `report`.  `matches` is arbitrary (a length greater
   than the rest of the chunk panics in the slice: no lints; C01 bounds the match length). *)
Inductive pat_sel := SelTok (i : nat) | SelHull (a : nat) (b : option nat).   (* b = None: open end *)
Definition sel_span (m : list tok) (s : pat_sel) : option span :=
  match s with
  | SelTok i => option_map tspan (nth_error m i)
  | SelHull a b => hull (slice m a (match b with Some b' => b' | None => length m end))
  end.

Fixpoint pat_body_go (matches : list tok -> text -> nat) (report : list tok -> text -> option (pat_sel * nat))
         (fuel : nat) (rest : list tok) (chars : text) : list lint :=
  match fuel, rest with
  | 0, _ | _, [] => []
  | S f, _ :: tl =>
      let len := matches rest chars in
      if Nat.eqb len 0 then pat_body_go matches report f tl chars
      else if Nat.ltb (length rest) len then []
      else
        let m := firstn len rest in
        let here := match report m chars with
                    | Some (s, id) => match sel_span m s with Some sp => [mklint sp id] | None => [] end
                    | None => []
                    end in
        here ++ pat_body_go matches report f (skipn len rest) chars
  end.
Definition pat_body (matches : list tok -> text -> nat) (report : list tok -> text -> option (pat_sel * nat))
           (c : list tok) (chars : text) : list lint :=
  pat_body_go matches report (length c) c chars.

(* the generated table's encoding (Tables_c12rules.match_span_raw): (0, i, _) one token, (1, a, b) a sub-slice, b = 0 open *)
Definition decode_sel (r : nat * nat * nat) : pat_sel :=
  let '(k, a, b) := r in
  match k with 0 => SelTok a | _ => SelHull a (match b with 0 => None | _ => Some b end) end.
