(* C16Stats.v — the statistics of harper_wasm::Linter with the CONCRETE harper_stats::Record of C19's
   Model/C19Record.v (imported, not edited), and the exports of harper-wasm that Model/C16Api.v left outside:

     Linter::apply_suggestion        self.stats.records.push(Record::now(RecordKind::from_lint(&lint.inner, &doc)))
                                       = Record { kind: Lint { kind: lint.lint_kind, context: doc.fat_tokens_intersecting(lint.span) },
                                                  when: Utc::now().timestamp(), uuid: Uuid::new_v4() }
                                     (the clock and the random uuid are the `env` of a call; the fat tokens of the
                                      document are the Section variable fat_context)
     Linter::generate_stats_file     Stats::write over the records            (C19Record.ser_record per line)
     Linter::import_stats_file       Stats::read (C19Record.de_record per line), then Vec::append
     Linter::summarize_stats(a, b)   clone; if let Some(a): retain(when > a); if let Some(b): retain(when < b); summarize()
                                     (the Summary is then handed to serde_wasm_bindgen: the JsValue is outside the model)
     Linter::get_lint_descriptions_as_json / _as_object
                                     lint_group.all_descriptions(): rule name -> description, a constant of the rule set
     Linter::get_lint_config_as_object        the value get_lint_config_as_json serialises
     Linter::set_lint_config_from_object      the steps of set_lint_config_from_json on the deserialised value
     get_default_lint_config                  the value get_default_lint_config_as_json serialises
   The state is Model/Wasm.v's state next to the list of concrete records; every other call is C16Api.xstep.
   No proofs here. *)
Require Import Base Overlap Suggestion LintJson Wasm JsonEscape Stats C16Api C19Record.
From Coq Require Import List ZArith.
Import ListNotations.

(* LintKind as C19Record numbers it: the index into C19Record.lintkind_names (= declaration order) *)
Definition kind_idx (k : lint_kind) : nat :=
  match k with
  | Spelling => 0 | Capitalization => 1 | Style => 2 | Formatting => 3 | Repetition => 4 | Enhancement => 5
  | Readability => 6 | WordChoice => 7 | Miscellaneous => 8 | Punctuation => 9
  end.

Inductive ycall :=
| YX (c : xcall)                                  (* every call of Model/C16Api.v (and so of Model/Wasm.v) *)
| YSummarize (start_time end_time : option Z)     (* summarize_stats *)
| YGetDescriptions                                (* get_lint_descriptions_as_json *)
| YGetDescriptionsObject                          (* get_lint_descriptions_as_object *)
| YGetConfigObject                                (* get_lint_config_as_object *)
| YSetConfigObject (c : option Wasm.config)       (* set_lint_config_from_object; None: from_value failed *)
| YGetDefaultConfigObject.                        (* get_default_lint_config *)

Inductive yout :=
| YOut (o : xout)
| YFileOut (f : bytes)
| YSummary (s : summary nat C19Record.config)
| YDescriptions (d : list (N * text)).

(* the JsValue exports and the export whose value they hand to / take from serde_wasm_bindgen *)
Definition twin (c : ycall) : option ycall :=
  match c with
  | YGetDescriptionsObject => Some YGetDescriptions
  | YGetConfigObject => Some (YX (XBase CGetConfig))
  | YSetConfigObject c => Some (YX (XBase (CSetConfig c)))
  | YGetDefaultConfigObject => Some (YX XGetDefaultConfig)
  | _ => None
  end.

Section CStats.
  Variable F : Type.
  Variable finite : F -> Prop.
  Variable print_f64 : F -> bytes.
  Variable parse_f64 : bytes -> option F.
  Variable curated : Wasm.config.
  Variable word_id : text -> N.
  Variable raw_lints : text -> language -> Wasm.config -> dict -> nat -> list rlint.
  Variable ctx : rlint -> text -> language -> dict -> N.
  Variable title_case : text -> text.
  Variable likely_english : text -> dict -> bool.
  Variable isolate : text -> dict -> text.
  Variable descriptions : list (N * text).          (* all_descriptions(), keys numbered like the configuration's *)
  (* Document(text, parser(lang), dictionary).fat_tokens_intersecting(span), each token .into() a FatStringToken *)
  Variable fat_context : text -> language -> dict -> span -> list (fattoken F).

  Definition cstate := (state * list (record F))%type.

  Definition record_now (t : text) (l : wlint) (d : dict) (env : Z * text) : record F :=
    (RKLint F (kind_idx (LintJson.rkind (winner l))) (fat_context t (wlang l) d (rspan (winner l))), env).

  Definition when_of (r : record F) : Z := fst (snd r).
  (* the two `retain` passes of summarize_stats *)
  Definition window (start_time end_time : option Z) (rs : list (record F)) : list (record F) :=
    let rs1 := match start_time with Some a => filter (fun r => (a <? when_of r)%Z) rs | None => rs end in
    match end_time with Some b => filter (fun r => (when_of r <? b)%Z) rs1 | None => rs1 end.
  Definition summary_of_records (rs : list (record F)) : summary nat C19Record.config :=
    summarize nat Nat.eqb C19Record.config [] (map (rkind_of F) rs).

  (* the calls that do not read or write the concrete records go through C16Api.xstep (its ser / de are not used) *)
  Definition xs (st : state) (c : xcall) : state * xout :=
    xstep curated word_id raw_lints ctx title_case likely_english isolate (fun _ => []) (fun _ => None) st c.

  Definition cstep (env : Z * text) (cs : cstate) (c : ycall) : cstate * yout :=
    let '(st, log) := cs in
    match c with
    | YX (XBase (CApply t l s)) =>
        let '(st', o) := xs st (XBase (CApply t l s)) in
        ((st', log ++ [record_now t l (s_lint_dict st) env]), YOut o)
    | YX XGenerateStats =>
        (cs, YFileOut (write (record F) (ser_record F finite print_f64 parse_f64) log))
    | YX (XImportStats f) =>
        match read (record F) (de_record F finite print_f64 parse_f64) f with
        | Some rs => ((st, log ++ rs), YOut (XOut OUnit))
        | None => (cs, YOut (XOut OErr))
        end
    | YX c' => let '(st', o) := xs st c' in ((st', log), YOut o)
    | YSummarize a b => (cs, YSummary (summary_of_records (window a b log)))
    | YGetDescriptions => (cs, YDescriptions descriptions)
    | YGetDescriptionsObject => (cs, YDescriptions descriptions)
    | YGetConfigObject => let '(st', o) := xs st (XBase CGetConfig) in ((st', log), YOut o)
    | YSetConfigObject c' => let '(st', o) := xs st (XBase (CSetConfig c')) in ((st', log), YOut o)
    | YGetDefaultConfigObject => let '(st', o) := xs st XGetDefaultConfig in ((st', log), YOut o)
    end.

  Fixpoint crun (cs : cstate) (h : list ((Z * text) * ycall)) : cstate * list yout :=
    match h with
    | [] => (cs, [])
    | (env, c) :: rest =>
        let '(cs1, o) := cstep env cs c in
        let '(cs2, os) := crun cs1 rest in
        (cs2, o :: os)
    end.

  (* what a call of the whole API does to the linter of Model/Wasm.v: the call of C16Api.v it is, or nothing *)
  Definition yproj (c : ycall) : option xcall :=
    match c with
    | YX (XImportStats _) => None
    | YX c' => Some c'
    | YSetConfigObject c' => Some (XBase (CSetConfig c'))
    | _ => None
    end.
  Fixpoint yproj_calls (h : list ((Z * text) * ycall)) : list xcall :=
    match h with
    | [] => []
    | (_, c) :: r => match yproj c with Some x => x :: yproj_calls r | None => yproj_calls r end
    end.
End CStats.

(* ---------- the extracted driver: a float is the text serde_json printed for it, as C19Record's drv_ser / drv_de ---------- *)
Definition drv_cstep := cstep bytes drv_finite (fun t => t) (fun t => Some t).
Definition drv_line (l : bytes) : option drv_record := drv_de l.
