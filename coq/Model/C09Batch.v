(* C09Batch.v — C09, mixed batches of didOpen / didChange / didSave / didClose: the critical sections.
   Executable definitions only (no proofs); extracted with the C09 driver.

   Every handler of these four messages touches doc_state in ONE critical section (the part of
   update_document under the doc_state lock, use_ident_dict included; the body of did_close).  `trace`
   records, for a schedule of the dispatcher of Model/Server.v, the critical sections in the order they
   are executed, with the arguments they were executed with.  `acrit` is what one critical section does to
   the document, seen from the client (language, text, ignore list, version), when dictionaries and
   settings do not change; `afold` composes them.  Proofs/C09BatchProofs.v shows that the final doc_state of
   EVERY schedule is the afold of its trace, and reads the shapes below off it. *)
Require Import Base Server.

Inductive event :=
| EUpd (u : url) (lg : option lang) (t : text) (v : option nat)   (* update_document(url, text, language_id, version) reaches the lock *)
| EClose (u : url).                                               (* did_close removes the document *)

Definition ev_url (e : event) : url := match e with EUpd u _ _ _ => u | EClose u => u end.

Definition is_update (i : instr) : bool := match i with IUpdate => true | _ => false end.
Definition is_close (i : instr) : bool := match i with IClose => true | _ => false end.

(* the critical section a handler has still ahead of it *)
Definition hevent (hs : hstate) : option event :=
  if existsb is_update (h_prog hs) then
    match l_text (h_loc hs) with
    | Some t => Some (EUpd (l_url (h_loc hs)) (l_lang (h_loc hs)) t (l_ver (h_loc hs)))
    | None => None
    end
  else if existsb is_close (h_prog hs) then Some (EClose (l_url (h_loc hs))) else None.

(* the critical section executed when handler `id` is run now *)
Definition crit_event (id : nat) (y : sys) : list event :=
  match find_h id (y_flight y) with
  | Some hs =>
      match h_prog hs with
      | IUpdate :: _ => match hevent hs with Some e => [e] | None => [] end
      | IClose :: _ => match hevent hs with Some e => [e] | None => [] end
      | _ => []
      end
  | None => []
  end.

Definition step_events (c : choice) (y : sys) : list event :=
  match c with CAdmit => [] | CRun id => crit_event id y end.

Fixpoint trace (cs : list choice) (y : sys) : list event :=
  match cs with
  | [] => []
  | c :: cs' => match step c y with Some y' => step_events c y ++ trace cs' y' | None => [] end
  end.

(* ---------- what a critical section does, seen from the client ---------- *)
Definition acrit (e : event) (a : option cdoc) : option cdoc :=
  match e with
  | EClose _ => None
  | EUpd _ lgo t vo =>
      match a with
      | Some cd =>
          if stale vo (Some (cd_ver cd)) then a
          else Some (mkcdoc (cd_lang cd) t (cd_ign cd) (match vo with Some v => v | None => cd_ver cd end))
      | None =>
          match lgo, vo with
          | Some lg, Some v => match kind lg with KNone => None | _ => Some (mkcdoc lg t [] v) end
          | _, _ => None      (* no language: the entry just inserted is removed again *)
          end
      end
  end.

Definition astep (u : url) (a : option cdoc) (e : event) : option cdoc :=
  if url_eqb (ev_url e) u then acrit e a else a.
Definition afold (u : url) (es : list event) (a : option cdoc) : option cdoc := fold_left (astep u) es a.

(* the document doc_state holds for u on an up-to-date server *)
Definition astate0 (w : world) (u : url) : option cdoc :=
  match lookup u (w_open w) with
  | Some cd => match kind (cd_lang cd) with KNone => None | _ => Some cd end
  | None => None
  end.

(* ---------- the messages considered ---------- *)
Definition batch_op (o : op) : bool :=
  match o with Open _ _ _ _ | Change _ _ _ | Save _ | Close _ => true | _ => false end.
Definition crit_op (o : op) : bool :=
  match o with Open _ _ _ _ | Change _ _ _ | Close _ => true | _ => false end.
Definition event_of (o : op) : event :=
  match o with
  | Open u lg t v => EUpd u (Some lg) t (Some v)
  | Change u t v => EUpd u None t (Some v)
  | Close u => EClose u
  | _ => EClose no_url
  end.

(* ---------- the shapes ---------- *)
Definition has_parser (lg : lang) : bool := match kind lg with KNone => false | _ => true end.
(* a didOpen (language with a parser) of u: it creates the entry when there is none *)
Definition creates (u : url) (e : event) : bool :=
  match e with
  | EUpd u' (Some lg) _ (Some _) => url_eqb u' u && has_parser lg
  | _ => false
  end.
Definition closes (u : url) (e : event) : bool :=
  match e with EClose u' => url_eqb u' u | _ => false end.

(* is there an entry for u after the critical sections es (p: is there one before) *)
Fixpoint present (u : url) (es : list event) (p : bool) : bool :=
  match es with
  | [] => p
  | e :: r => present u r (if closes u e then false else if creates u e then true else p)
  end.

(* SHAPE 1 (document closed at the end): the last of the didOpen / didClose critical sections of u is a
   didOpen's - a didClose overtook the didOpen it follows *)
Definition close_overtaken (w0 : world) (u : url) (es : list event) : bool :=
  present u es (match astate0 w0 u with Some _ => true | None => false end).

Definition carries (u : url) (vn : nat) (e : event) : bool :=
  match e with EUpd u' _ _ (Some v) => url_eqb u' u && (v =? vn) | _ => false end.

(* a critical section carrying version vn is executed while u has an entry (opened: it has one now) *)
Fixpoint newest_installed (u : url) (vn : nat) (opened : bool) (es : list event) : bool :=
  match es with
  | [] => false
  | e :: r =>
      if opened then carries u vn e || newest_installed u vn true r
      else if creates u e then carries u vn e || newest_installed u vn true r
      else newest_installed u vn false r
  end.

(* SHAPE 2 (document opened in the batch, open at the end, newest version vn): every critical section
   carrying the newest version is executed BEFORE the didOpen's - the newest didChange overtook the didOpen *)
Definition open_overtaken (w0 : world) (u : url) (vn : nat) (es : list event) : bool :=
  match astate0 w0 u with
  | Some cd0 => negb ((cd_ver cd0 =? vn) || newest_installed u vn true es)   (* u has an entry from the start *)
  | None => negb (newest_installed u vn false es)
  end.

(* the client's state after it has sent the whole history *)
Definition client_after (h : list op) (w : world) : world := fold_left (fun w o => client_effect o w) h w.

(* static conditions on the messages of a history that concern u, relative to the client's final copy cd:
   didOpen with cd's language, versions not above cd's, the newest version carried with cd's text and only
   with it, no didSave, no didClose *)
Definition sess_op (u : url) (cd : cdoc) (o : op) : bool :=
  match o with
  | Open u' lg t v =>
      if url_eqb u' u then lang_eqb lg (cd_lang cd) && (v <=? cd_ver cd) && Bool.eqb (v =? cd_ver cd) (text_eqb t (cd_text cd)) else true
  | Change u' t v =>
      if url_eqb u' u then (v <=? cd_ver cd) && Bool.eqb (v =? cd_ver cd) (text_eqb t (cd_text cd)) else true
  | Save u' | Close u' => negb (url_eqb u' u)
  | _ => false
  end.
Definition sess_ok (u : url) (cd : cdoc) (h : list op) : bool := forallb (sess_op u cd) h.

(* the same for the entry u has from the start (no Ignore command is in a batch: the ignore list stays) *)
Definition init_okb (w0 : world) (u : url) (cd : cdoc) : bool :=
  match astate0 w0 u with
  | Some cd0 => lang_eqb (cd_lang cd0) (cd_lang cd) && list_eqb (cd_ign cd0) (cd_ign cd) && (cd_ver cd0 <=? cd_ver cd)
                && Bool.eqb (cd_ver cd0 =? cd_ver cd) (text_eqb (cd_text cd0) (cd_text cd))
  | None => match cd_ign cd with [] => true | _ => false end
  end.

(* ---------- client-interaction schedules as dispatcher schedules (for the driver) ---------- *)
Fixpoint expand_until_ask (fuel : nat) (first : bool) (id : nat) (y : sys) : option (list choice * sys) :=
  match fuel with
  | 0 => None
  | S f =>
      match find_h id (y_flight y) with
      | None => if first then None else Some ([], y)
      | Some h =>
          let go := match step (CRun id) y with
                    | Some y' => match expand_until_ask f false id y' with
                                 | Some (cs, y'') => Some (CRun id :: cs, y'')
                                 | None => None
                                 end
                    | None => None
                    end in
          match h_prog h with
          | IAnswer :: _ => if first then go else Some ([], y)
          | _ => go
          end
      end
  end.

Fixpoint kexpand (ks : list kchoice) (y : sys) : option (list choice) :=
  match ks with
  | [] => Some []
  | KAdmit :: ks' =>
      match step CAdmit y with
      | Some y' => match kexpand ks' y' with Some cs => Some (CAdmit :: cs) | None => None end
      | None => None
      end
  | KRun id :: ks' =>
      match expand_until_ask (fuel_for (y_world y) + 16) true id y with
      | Some (cs1, y') => match kexpand ks' y' with Some cs => Some (cs1 ++ cs) | None => None end
      | None => None
      end
  end.

(* what the driver prints for a batch case: the dispatcher schedule, the final system, and per url the
   verdict of the shape that applies (true = the last word is predicted wrong) *)
Definition shape_verdict (w0 : world) (h : list op) (tr : list event) (u : url) : bool :=
  match astate0 (client_after h w0) u with
  | Some cd => open_overtaken w0 u (cd_ver cd) tr
  | None => close_overtaken w0 u tr
  end.

Definition batch_krun (w0 : world) (h : list op) (ks : list kchoice) : option (sys * list event) :=
  match kexpand ks (init h w0) with
  | Some cs => match run cs (init h w0) with Some y => Some (y, trace cs (init h w0)) | None => None end
  | None => None
  end.
