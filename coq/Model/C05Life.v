(* C05Life.v — the LIFETIMES of the LintGroup inside an entry point.

   `LintGroup` carries its own `hasher_builder: RandomState` (lint_group.rs: field of the struct, set to
   `RandomState::default()` by the one constructor `LintGroup::empty()`; both key hashes of `LintGroup::lint` —
   `self.hasher_builder.hash_one(&self.config)` and `self.hasher_builder.build_hasher()` for the token hash — go
   through it; pinned by tools/tables/c05statics.py).  Every rebuild of the linter — harper_wasm
   `synchronize_lint_dict`, harper-ls `update_document` on a changed dictionary, `did_change_configuration` — makes
   a NEW LintGroup: empty caches AND another hash function.  So the two hashes are not one function per history
   (as in C05Entry / C05Thread, where they are fixed Section functions) but one function per LIFETIME.

   Model: the hashes take a SEED (`cfg_hash s`, `tok_hash s` = the functions of the RandomState with seed s); a
   history is a list of SEGMENTS (seed, operations with their thread ids); segment i is run by C05Thread.wrun
   instantiated with the hashes of its seed, the world (process cells, thread states, the linter with its ignore
   list) handed from one segment to the next.  Faithful histories start every segment but the first with a rebuild
   (`starts_rebuild`): the hash function changes exactly when the caches are emptied.  (A segment may contain
   further rebuilds — the adversary may also choose the same seed again; that is a superset of what the code does.)
   No proofs here (Proofs/C05LifeProofs.v). *)
Require Import Base Overlap Cache C05Entry C05Thread.

Section Life.
  Variables cfg kind dict : Type.
  Variables B DFA pat MD FD lang : Type.
  Notation toks := (list (tok kind)).
  Variable cfg_hash : nat -> cfg -> N.              (* seed -> hash_one(&config) *)
  Variable tok_hash : nat -> toks -> N.             (* seed -> the token hash *)
  Variable fill : cfg -> cfg.
  Variable pattern_rel : dict -> text -> toks -> cfg -> list clint.
  Variables struct_pre struct_post : dict -> cfg -> doc kind -> list clint.
  Variable spell_on : cfg -> bool.
  Variable spell_mk : text -> span -> list text -> clint.
  Variable ctx : doc kind -> clint -> N.
  Variable builder_new : nat -> B.
  Variable build : B -> text -> DFA.
  Variable sdist : dict -> text -> nat.
  Variables snorm slower : text -> text.
  Variable sfinish : dict -> text -> DFA -> DFA -> list text.
  Variables contraction_init ellipsis_init latin_init article_init wordnum_init : unit -> pat.
  Variable mut_new : unit -> MD.
  Variable fst_from : MD -> FD.
  Variable mkdict : FD -> list text -> dict.
  Variable uses_collapse : lang -> bool.
  Variable doc_body : dict -> lang -> option pat -> pat -> pat -> pat -> pat -> text -> list toks * list (span * text) * N.

  Notation wop := (wop cfg kind dict lang).
  Notation world := (world cfg dict B pat MD FD).
  Notation eop := (eop cfg kind dict).
  Notation astate := (astate cfg dict).

  (* a segment: the seed of the LintGroup instance that serves it, and its operations (thread id, operation) *)
  Definition seg := (nat * list (nat * wop))%type.

  (* the operation makes a new LintGroup *)
  Definition is_rebuild (o : wop) : bool :=
    match o with
    | WRebuild _ _ => true
    | WOp (ERebuild _ _) => true
    | _ => false
    end.
  Definition starts_rebuild (h : list (nat * wop)) : bool :=
    match h with
    | (_, o) :: _ => is_rebuild o
    | [] => false
    end.

  Definition wrun_seed (s : nat) :=
    wrun cfg kind dict B DFA pat MD FD lang (cfg_hash s) (tok_hash s) fill pattern_rel struct_pre struct_post spell_on spell_mk ctx
         builder_new build sdist snorm slower sfinish contraction_init ellipsis_init latin_init article_init wordnum_init
         mut_new fst_from mkdict uses_collapse doc_body.

  Fixpoint wrun_segs (e : entry) (segs : list seg) (w : world) : res (world * list (list clint)) :=
    match segs with
    | [] => Ok (w, [])
    | (s, h) :: t =>
        do '(w1, o1) <- wrun_seed s e h w;
        do '(w2, o2) <- wrun_segs e t w1;
        Ok (w2, o1 ++ o2)
    end.

  (* what is left when seeds, threads, cells, builders and buffers are forgotten: ONE C05Entry history *)
  Definition erase_seg (h : list (nat * wop)) (dc : dict) : list eop :=
    erase cfg kind dict pat MD FD lang contraction_init ellipsis_init latin_init article_init wordnum_init mut_new fst_from
          mkdict uses_collapse doc_body (map snd h) dc.
  Fixpoint segs_erase (segs : list seg) (a : astate) : list eop :=
    match segs with
    | [] => []
    | (_, h) :: t =>
        let eh := erase_seg h (a_dict a) in
        eh ++ segs_erase t (abs_after cfg kind dict ctx eh a)
    end.
  (* the same history without the segmentation *)
  Definition segs_flat (segs : list seg) : list (nat * wop) := concat (map snd segs).
End Life.

Arguments is_rebuild {cfg kind dict lang}.
Arguments starts_rebuild {cfg kind dict lang}.
