(* C09Seq.v — C09, one handler at a time, for EVERY kind of message: the big-step specification of the
   handlers and the exact description of the documents whose last word is wrong.
   Executable definitions only (no proofs); extracted with the C09 driver.

   `sstep o w` says in one piece what the handler of message o does when it runs alone: what pull_config and the
   dictionary files are read as, which documents are re-read from disk, what is installed in doc_state and
   what is published - without instrs, locals or fuel.  Proofs/C09SeqProofs.v shows that it IS `run_op`
   (Model/Server.v) on every world a sequential history can reach, and reads the exceptions F17b-d off it. *)
Require Import Base Server.

Definition sq_idof (lg : lang) (t : text) : nat := match kind lg with KCode => t_ident t | _ => 0 end.
Definition sq_dict (w : world) (u : url) : dictv := mkdict (w_udict w) (fdict_of w u) 0.
Definition sq_with (d : dictv) (i : nat) : dictv := mkdict (dv_user d) (dv_file d) i.
Definition sq_has_parser (lg : lang) : bool := match kind lg with KNone => false | _ => true end.

(* update_document on a document doc_state holds (entry e): text t parsed and linted with the dictionary
   files and the settings as they are NOW; language and ignore list stay; the version is replaced when given *)
Definition reinstall (w : world) (u : url) (e : entry) (t : text) (nv : option nat) : entry :=
  match e_lang e with
  | Some lg =>
      let i := sq_idof lg t in
      let B := sq_dict w u in
      mkentry (Some lg) (sq_with B i) i (w_ccfg w) (Some t) (w_ccfg w) (e_ign e) B (sq_with B i)
              (match nv with Some n => Some n | None => e_ver e end)
  | None => e
  end.

Definition first_entry (w : world) (u : url) (lg : lang) (t : text) (v : nat) : entry :=
  let i := sq_idof lg t in
  let B := sq_dict w u in
  mkentry (Some lg) (sq_with B i) i (w_ccfg w) (Some t) (w_ccfg w) [] B (sq_with B i) (Some v).

(* doc_state after update_document(u, t, language, version) *)
Definition sq_install (w : world) (u : url) (t : text) (lgo : option lang) (nv : option nat) : list (url * entry) :=
  match lookup u (s_docs w) with
  | Some e => if stale nv (e_ver e) then s_docs w else upsert u (reinstall w u e t nv) (s_docs w)
  | None =>
      match lgo, nv with
      | Some lg, Some v => if sq_has_parser lg then upsert u (first_entry w u lg t v) (s_docs w) else s_docs w
      | _, _ => s_docs w        (* no language: the entry just inserted is removed again *)
      end
  end.

Definition publish (u : url) (w : world) : world := send u (pubval w u) w.

(* update_document + publish_diagnostics *)
Definition update_publish (u : url) (t : text) (lgo : option lang) (nv : option nat) (w : world) : world :=
  publish u (set_docs (sq_install w u t lgo nv) w).

(* what tokio::fs::read_to_string(url.to_file_path()) gives *)
Definition disk_text (w : world) (u : url) : option text := if is_file u then lookup u (w_disk w) else None.

(* update_document_from_file (errors are logged and dropped) + publish_diagnostics *)
Definition reread (u : url) (w : world) : world :=
  match disk_text w u with
  | Some t => update_publish u t None None w
  | None => publish u w
  end.

Definition sq_send_all (q : list url) (w : world) : world := fold_left (fun w v => send v PEmpty w) q w.

Definition sstep (o : op) (w0 : world) : world :=
  let w := client_effect o w0 in
  match o with
  | Open u lg t v => update_publish u t (Some lg) (Some v) w
  | Change u t v => update_publish u t None (Some v) w
  | Save u => reread u w
  | Close u => send u PEmpty (set_docs (remove u (s_docs w)) w)
  | Delete tg =>
      sq_send_all (filter (matches tg) (keys (s_docs w)))
                  (set_docs (filter (fun kv => negb (matches tg (fst kv))) (s_docs w)) w)
  | AddUser x u => reread u (set_udict (add_word x (w_udict w)) w)
  | AddFile x u =>
      reread u (if is_file u then set_fdict (upsert u (add_word x (fdict_of w u)) (w_fdict w)) w else w)
  | Ignore u k =>
      match lookup u (s_docs w) with
      | Some e => publish u (set_docs (upsert u (e_add_ign k e) (s_docs w)) w)
      | None => w
      end
  | RecordLint => w
  | CfgChange c order =>
      (* the settings object replaces Backend.config; every linter is rebuilt; then every document of
         doc_state is re-read from its file and re-published, in HashMap order *)
      fold_left (fun w v => reread v w) (order_keys order (keys (s_docs w)))
                (set_docs (map (fun kv => (fst kv, e_set_lcfg c (snd kv))) (s_docs w)) (set_scfg c w))
  end.

Fixpoint sfold (h : list op) (w : world) : world :=
  match h with
  | [] => w
  | o :: h' => sfold h' (sstep o w)
  end.

(* ---------- protocol conformance of the client ---------- *)
(* didOpen only of a document that is not open; the version of a didChange is not older than the previous
   one of the open document.  Everything else is allowed at any time. *)
Definition proto_okb (w : world) (o : op) : bool :=
  match o with
  | Open u _ _ _ => match lookup u (w_open w) with None => true | Some _ => false end
  | Change u _ v => match lookup u (w_open w) with Some cd => cd_ver cd <=? v | None => true end
  | _ => true
  end.

Fixpoint proto_seqb (h : list op) (w : world) : bool :=
  match h with
  | [] => true
  | o :: h' => proto_okb w o && proto_seqb h' (sstep o w)
  end.

(* ---------- how the entry of an open document can lag behind ---------- *)
(* open on the client in a language that has a parser *)
Definition tracked (w : world) (u : url) : bool :=
  match lookup u (w_open w) with Some cd => sq_has_parser (cd_lang cd) | None => false end.

Definition lag_of (w : world) (u : url) (e : entry) : bool :=
  negb (match e_text e, lookup u (w_open w) with Some t, Some cd => text_eqb t (cd_text cd) | _, _ => false end)   (* text *)
  || negb (dictv_eqb (e_base e) (sq_dict w u))                                                                     (* dictionaries *)
  || negb (e_pcfg e =? w_ccfg w).                                                                                  (* parser settings *)

Definition lagb (w : world) (u : url) : bool :=
  match lookup u (s_docs w) with Some e => lag_of w u e | None => false end.

(* ---------- one message: who lags afterwards ---------- *)
(* the text the handler of o (re)installs for u (w1: the world after the client has sent o) *)
Definition installs (o : op) (w1 : world) (u : url) : option text :=
  match o with
  | Open v _ t _ | Change v t _ => if url_eqb u v then Some t else None
  | Save v | AddUser _ v | AddFile _ v => if url_eqb u v then disk_text w1 u else None
  | CfgChange _ _ => disk_text w1 u
  | _ => None
  end.

(* the dictionary files after the command *)
Definition files_after (o : op) (w1 : world) : world :=
  match o with
  | AddUser x _ => set_udict (add_word x (w_udict w1)) w1
  | AddFile x v => if is_file v then set_fdict (upsert v (add_word x (fdict_of w1 v)) (w_fdict w1)) w1 else w1
  | _ => w1
  end.

Definition lag_after (o : op) (w : world) (u : url) : bool :=
  let w1 := client_effect o w in
  let w2 := files_after o w1 in
  if negb (tracked w1 u) then false else
  match installs o w1 u with
  | Some t => negb (match lookup u (w_open w1) with Some cd => text_eqb t (cd_text cd) | None => false end)
  | None => match lookup u (s_docs w) with Some e => lag_of w2 u e | None => false end
  end.

(* ---------- the exceptions, on a document that does not lag before ---------- *)
Definition rereads (o : op) (u : url) : bool :=
  match o with
  | AddUser _ v | AddFile _ v => url_eqb u v
  | CfgChange _ _ => true
  | _ => false
  end.

(* the command changes something the diagnostics of u depend on *)
Definition changes_for (o : op) (w : world) (u : url) : bool :=
  match o with
  | AddUser x _ => negb (existsb (Nat.eqb x) (w_udict w))
  | AddFile x v => url_eqb u v && is_file v && negb (existsb (Nat.eqb x) (fdict_of w v))
  | CfgChange c _ => negb (c =? w_ccfg w)
  | _ => false
  end.

(* F17b: the command re-reads u from its FILE, whose text is not the client's buffer *)
Definition f17b (o : op) (w : world) (u : url) : bool :=
  tracked w u && rereads o u &&
  match disk_text w u, lookup u (w_open w) with
  | Some t, Some cd => negb (text_eqb t (cd_text cd))
  | _, _ => false
  end.
(* F17c: the command changes the user dictionary and re-checks another document only *)
Definition f17c (o : op) (w : world) (u : url) : bool :=
  tracked w u && negb (rereads o u) && changes_for o w u.
(* F17d: the command changes the dictionaries / settings of u but u cannot be read from disk *)
Definition f17d (o : op) (w : world) (u : url) : bool :=
  tracked w u && rereads o u && changes_for o w u && match disk_text w u with None => true | Some _ => false end.

Definition exception (o : op) (w : world) (u : url) : bool := f17b o w u || f17c o w u || f17d o w u.

(* what the driver prints for a sequential case: the final world by the big-step specification *)
Definition model_seq (w : world) (h : list op) : world := sfold h w.
