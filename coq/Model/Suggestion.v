(* Suggestion.v — model of Suggestion::apply (harper-core/src/linting/suggestion.rs), with every
   index, slice and usize subtraction checked (debug-build semantics: overflow/underflow panic).
   No proofs here. *)
Require Import Base.

Inductive suggestion :=
| ReplaceWith (cs : text)
| InsertAfter (cs : text)
| Remove.

(* for (index, c) in chars.iter().enumerate() { source[index + span.start] = *c } *)
Fixpoint overwrite (src : text) (at_ : nat) (cs : text) : res text :=
  match cs with
  | [] => Ok src
  | c :: cs' => do src' <- set_nth src at_ c; overwrite src' (S at_) cs'
  end.

(* for i in span.end..source.len() { source[i - span.len()] = source[i]; }
   `n` counts the remaining iterations (source.len() - i; the range is empty when end > len) *)
Fixpoint shift_left (n i len_sp : nat) (src : text) : res text :=
  match n with
  | 0 => Ok src
  | S n' =>
      do c <- nth_chk src i;
      do j <- sub_chk i len_sp;
      do src' <- set_nth src j c;
      shift_left n' (S i) len_sp src'
  end.

Definition apply (s : suggestion) (sp : span) (src : text) : res text :=
  match s with
  | ReplaceWith cs =>
      do len <- span_len sp;                                  (* chars.len() == span.len() *)
      if length cs =? len then overwrite src (sstart sp) cs
      else
        do '(kept, popped) <- split_off src (sstart sp);        (* source.split_off(span.start) *)
        Ok (kept ++ cs ++ skipn len popped)                     (* extend; extend(popped.skip(len)) *)
  | Remove =>
      do len <- span_len sp;
      do src' <- shift_left (length src - send sp) (send sp) len src;
      do n <- sub_chk (length src') len;                        (* source.len() - span.len() *)
      Ok (firstn n src')                                        (* truncate *)
  | InsertAfter cs =>
      do '(kept, popped) <- split_off src (send sp);
      Ok (kept ++ cs ++ popped)
  end.

(* specification side: what the flagged text is replaced by *)
Definition repl (s : suggestion) (flagged : text) : text :=
  match s with
  | ReplaceWith cs => cs
  | InsertAfter cs => flagged ++ cs
  | Remove => []
  end.

Definition splice (s : suggestion) (sp : span) (src : text) : text :=
  firstn (sstart sp) src ++ repl s (slice src (sstart sp) (send sp)) ++ skipn (send sp) src.

(* one suggestion per lint, applied back to front (last element of the list first) *)
Definition apply_back_to_front (src : text) (es : list (span * suggestion)) : res text :=
  fold_right (fun e acc => do t <- acc; apply (snd e) (fst e) t) (Ok src) es.

(* the simultaneous splice of a left-to-right chain of edits, starting at position pos *)
Fixpoint splice_sim (pos : nat) (src : text) (es : list (span * suggestion)) : text :=
  match es with
  | [] => skipn pos src
  | (sp, s) :: es' =>
      slice src pos (sstart sp) ++ repl s (slice src (sstart sp) (send sp)) ++ splice_sim (send sp) src es'
  end.

(* driver entry point: 0 = ReplaceWith, 1 = InsertAfter, 2 = Remove; None = panic *)
Definition run_apply (kind : nat) (cs : text) (a b : nat) (src : text) : option text :=
  let s := match kind with 0 => ReplaceWith cs | 1 => InsertAfter cs | _ => Remove end in
  match apply s (mkspan a b) src with Ok t => Some t | Panic _ => None end.
