(* EffectsLinked.v — C10, the dependency part over the graph cargo itself resolves (Tables_effects.linked_graph:
   `cargo metadata --offline --locked --filter-platform x86_64-unknown-linux-gnu --filter-platform
   wasm32-unknown-unknown`, features resolved, edges of kind normal + build).  Compared with Effects.check_crates
   over lock_graph (every edge of Cargo.lock, all platforms) the allow-lists are SMALLER: no Windows / WASI / Redox /
   Hermit bindings can be linked into what is shipped.  Executable definitions only; lemmas in
   Proofs/EffectsLinkedProofs.v. *)
Require Import Base EffectsBase Effects.
From Coq Require Import String.
Open Scope string_scope.
Open Scope list_scope.

(* net-capable crates that may be LINKED: the async runtime, its reactor, the libc binding, `url` *)
Definition net_capable_linked : list string := ["tokio"; "mio"; "socket2"; "tokio-util"; "libc"; "url"].
(* process-spawning crates that may be linked / run at build time: `open` (HarperOpen only), build-script helpers *)
Definition process_linked : list string := ["open"; "autocfg"; "version_check"; "cc"].

Definition class_ok_in (nets procs : list string) (members : list pkg) (t : list (pkg * eclass)) (a : pkg) : bool :=
  pmem a members ||
  match class_of t a with
  | None => false
  | Some CNetClient => false
  | Some CNetRuntime => smem (fst a) nets
  | Some CProcess => smem (fst a) procs
  | Some CFs => true
  | Some CPure => true
  end.

Definition check_crates_in (nets procs : list string) (g : graph) (t : list (pkg * eclass)) (members roots : list pkg) : bool :=
  let R := reach_set g roots in
  forallb (fun r => pmem r R) roots && closed g R && forallb (class_ok_in nets procs members t) R.

(* every edge of every row of g is an edge of h (h = the lock graph: the linked graph only ever DROPS edges) *)
Definition subgraph (g h : graph) : bool :=
  forallb (fun kd => forallb (fun d => pmem d (deps h (fst kd))) (snd kd)) g.

(* names of the packages in a list *)
Definition names_of (l : list pkg) : list string := map fst l.
