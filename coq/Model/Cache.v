(* Cache.v — model of the two caches a long-lived linter carries:
     * LintGroup::chunk_pattern_cache  (harper-core/src/linting/lint_group.rs, LintGroup::lint)
         LruCache<(CharString, u64), Vec<Lint>> : (chunk characters, hash of the configuration) ->
         the lints of all enabled pattern rules on that chunk, spans RELATIVE to the chunk start;
     * SpellCheck::word_cache          (harper-core/src/linting/spell_check.rs,
         cached_suggest_correct_spelling)   LruCache<CharString, Vec<CharString>> : word -> suggestions.
   No proofs here (Proofs/CacheProofs.v).

   What is modelled literally: the order struct rules / chunks, the `continue` on a chunk without span,
   the key construction, get -> clone on a hit; on a miss run the rules, pull_by(chunk start) (checked
   usize subtraction), put, then push_by(chunk start) for hits and misses alike; the spelling cache's
   get / compute / put; `self.config` as mutable state between lints.

   What is abstract (Section variables; each one is monitored on the implementation by harness/src/bin/c05.rs):
     pattern_rel   the lints all enabled pattern rules produce on a chunk, relative to the chunk start, as a
                   function of (chunk characters, token structure of the chunk, configuration).  The token
                   structure is everything run_on_chunk hands to the rules: the chunk's tokens (kinds with
                   metadata, spans relative to the chunk start).  [monitor rule_fun: the same triple never
                   yields two different results, at any offset, in any document]
     struct_pre / struct_post   the lints of the enabled struct rules sorted before / after "SpellCheck" in
                   the BTreeMap, as functions of (configuration, document)
     suggest       cached_suggest_correct_spelling's uncached body (dictionary and dialect are fields of the
                   instance, fixed for its lifetime), spell_mk the lint SpellCheck::lint builds from it
     the LRU       a finite map that may lose ANY entries between any two cache operations: every Lint
                   carries an adversarial eviction schedule (one keep-predicate per chunk / per word, applied
                   before the lookup) and there is an Evict operation between operations.  This covers every
                   capacity >= 0 and every replacement order; `get` promoting an entry is then unobservable.
     the key       mkkey : chars -> toks -> cfg -> K.  The code's key is `code_key` below: (chars, hash cfg) —
                   it ignores the tokens.  `fixed_key` is the key proposed in fixes/F11.diff. *)
Require Import Base.

(* a lint: its span and everything else (kind, message, suggestions, priority) as an opaque identity *)
Record clint := mkclint { cl_span : span; cl_body : N }.

Definition lpush (by_ : nat) (l : clint) : clint := mkclint (push_by (cl_span l) by_) (cl_body l).
Definition lpull (by_ : nat) (l : clint) : res clint :=
  do s <- pull_by (cl_span l) by_; Ok (mkclint s (cl_body l)).

Fixpoint mapM {A B} (f : A -> res B) (l : list A) : res (list B) :=
  match l with
  | [] => Ok []
  | x :: t => do y <- f x; do t' <- mapM f t; Ok (y :: t')
  end.

Fixpoint text_eqb (a b : text) : bool :=
  match a, b with
  | [], [] => true
  | x :: a', y :: b' => N.eqb x y && text_eqb a' b'
  | _, _ => false
  end.

(* ---------- finite maps as association lists (first match wins) ---------- *)
Section Assoc.
  Context {K V : Type}.
  Variable eqb : K -> K -> bool.
  Fixpoint lookup (k : K) (m : list (K * V)) : option V :=
    match m with
    | [] => None
    | (k', v) :: t => if eqb k k' then Some v else lookup k t
    end.
  Definition remove_key (k : K) (m : list (K * V)) : list (K * V) :=
    filter (fun kv => negb (eqb k (fst kv))) m.
  (* LruCache::put: replaces the value of an existing key, else inserts *)
  Definition put (k : K) (v : V) (m : list (K * V)) : list (K * V) := (k, v) :: remove_key k m.
  (* the adversary: keep exactly the entries whose key satisfies `keep` *)
  Definition evict (keep : K -> bool) (m : list (K * V)) : list (K * V) :=
    filter (fun kv => keep (fst kv)) m.
End Assoc.

Definition keep_all {K} : K -> bool := fun _ => true.

Section Cache.
  Variables cfg toks K : Type.
  Variable k_eqb : K -> K -> bool.
  Variable mkkey : text -> toks -> cfg -> K.
  Variable pattern_rel : text -> toks -> cfg -> list clint.

  (* a chunk that has a span: where it starts in the document, its characters
     (document.get_span_content(&chunk_span)), its tokens *)
  Record chunk := mkchunk { c_start : nat; c_chars : text; c_toks : toks }.
  (* a document as LintGroup::lint and SpellCheck::lint see it: the chunks of iter_chunks() in order
     (None = `chunk.span()` is None, the loop continues), the words SpellCheck does not accept (span and
     characters, in order), and an identity standing for everything else the struct rules read *)
  Record doc := mkdoc { d_chunks : list (option chunk); d_miss : list (span * text); d_rest : N }.

  Variables struct_pre struct_post : cfg -> doc -> list clint.
  Variable spell_on : cfg -> bool.
  Variable suggest : text -> list text.
  Variable spell_mk : text -> span -> list text -> clint.

  Definition pcache := list (K * list clint).
  Definition scache := list (text * list text).

  (* the `for chunk in document.iter_chunks()` loop.  Third component: hit (true) / miss per chunk with a span *)
  Fixpoint lint_chunks (c : cfg) (chs : list (option chunk)) (evs : list (K -> bool)) (m : pcache)
    : res (pcache * list clint * list bool) :=
    match chs with
    | [] => Ok (m, [], [])
    | oc :: rest =>
        let m1 := evict (hd keep_all evs) m in
        match oc with
        | None => lint_chunks c rest (tl evs) m1
        | Some ch =>
            let key := mkkey (c_chars ch) (c_toks ch) c in
            do '(m2, rel, hit) <-
               match lookup k_eqb key m1 with
               | Some v => Ok (m1, v, true)                                   (* hit.clone() *)
               | None =>
                   (* run_on_chunk of every enabled pattern rule: spans in document space *)
                   let absl := map (lpush (c_start ch)) (pattern_rel (c_chars ch) (c_toks ch) c) in
                   do rel <- mapM (lpull (c_start ch)) absl;                  (* lint.span.pull_by(chunk_span.start) *)
                   Ok (put k_eqb key rel m1, rel, false)
               end;
            do '(m3, out, hits) <- lint_chunks c rest (tl evs) m2;
            Ok (m3, map (lpush (c_start ch)) rel ++ out, hit :: hits)         (* push_by(chunk_span.start); append *)
        end
    end.

  (* SpellCheck::lint over the words it does not accept.  Third component: hit (true) / miss per word *)
  Fixpoint lint_words (ws : list (span * text)) (sevs : list (text -> bool)) (sm : scache)
    : scache * list clint * list bool :=
    match ws with
    | [] => (sm, [], [])
    | (sp, w) :: rest =>
        let sm1 := evict (hd keep_all sevs) sm in
        let '(sm2, sug, hit) :=
           match lookup text_eqb w sm1 with
           | Some v => (sm1, v, true)                                         (* return hit.clone() *)
           | None => let v := suggest w in (put text_eqb w v sm1, v, false)   (* compute; word_cache.put *)
           end in
        let '(sm3, out, hits) := lint_words rest (tl sevs) sm2 in
        (sm3, spell_mk w sp sug :: out, hit :: hits)
    end.

  Record state := mkstate { st_cfg : cfg; st_cache : pcache; st_spell : scache }.
  Definition fresh (c : cfg) : state := mkstate c [] [].

  Inductive op :=
  | SetCfg (c : cfg)
  | Lint (d : doc) (evs : list (K -> bool)) (sevs : list (text -> bool))
  | Evict (keep : K -> bool) (skeep : text -> bool).

  (* LintGroup::lint.  Hit/miss flags: per chunk with a span, then per word *)
  Definition lint_doc (st : state) (d : doc) evs sevs : res (state * list clint * (list bool * list bool)) :=
    let c := st_cfg st in
    let '(sm, spell, whits) :=
      if spell_on c then lint_words (d_miss d) sevs (st_spell st) else (st_spell st, [], []) in
    do '(m, pat, hits) <- lint_chunks c (d_chunks d) evs (st_cache st);
    Ok (mkstate c m sm, struct_pre c d ++ spell ++ struct_post c d ++ pat, (hits, whits)).

  Definition step (st : state) (o : op) : res (state * option (list clint)) :=
    match o with
    | SetCfg c => Ok (mkstate c (st_cache st) (st_spell st), None)
    | Lint d evs sevs => do '(st', out, _) <- lint_doc st d evs sevs; Ok (st', Some out)
    | Evict keep skeep => Ok (mkstate (st_cfg st) (evict keep (st_cache st)) (evict skeep (st_spell st)), None)
    end.

  (* a history; the outputs of its Lint steps in order *)
  Fixpoint run_hist (h : list op) (st : state) : res (state * list (list clint)) :=
    match h with
    | [] => Ok (st, [])
    | o :: t =>
        do '(st1, out) <- step st o;
        do '(st2, outs) <- run_hist t st1;
        Ok (st2, match out with Some l => l :: outs | None => outs end)
    end.

  (* ---------- the specification: no cache anywhere ---------- *)
  Definition spec_chunk (c : cfg) (oc : option chunk) : list clint :=
    match oc with
    | None => []
    | Some ch => map (lpush (c_start ch)) (pattern_rel (c_chars ch) (c_toks ch) c)
    end.
  Definition spec_words (ws : list (span * text)) : list clint :=
    map (fun p => spell_mk (snd p) (fst p) (suggest (snd p))) ws.
  Definition spec_lint (c : cfg) (d : doc) : list clint :=
    struct_pre c d ++ (if spell_on c then spec_words (d_miss d) else []) ++ struct_post c d
    ++ flat_map (spec_chunk c) (d_chunks d).
  Fixpoint spec_hist (h : list op) (c : cfg) : list (list clint) :=
    match h with
    | [] => []
    | SetCfg c' :: t => spec_hist t c'
    | Lint d _ _ :: t => spec_lint c d :: spec_hist t c
    | Evict _ _ :: t => spec_hist t c
    end.

  (* what a freshly built linter (same dictionary, dialect; the configuration of that moment; empty caches;
     LRU never full) answers at each Lint step of a history *)
  Fixpoint fresh_hist (h : list op) (c : cfg) : list (res (list clint)) :=
    match h with
    | [] => []
    | SetCfg c' :: t => fresh_hist t c'
    | Lint d _ _ :: t => (do '(_, out, _) <- lint_doc (fresh c) d [] []; Ok out) :: fresh_hist t c
    | Evict _ _ :: t => fresh_hist t c
    end.

  (* the (chars, tokens, configuration) triples a history hands to the pattern rules or looks up *)
  Definition doc_triples (c : cfg) (d : doc) : list (text * toks * cfg) :=
    flat_map (fun oc => match oc with None => [] | Some ch => [(c_chars ch, c_toks ch, c)] end) (d_chunks d).
  Fixpoint hist_triples (h : list op) (c : cfg) : list (text * toks * cfg) :=
    match h with
    | [] => []
    | SetCfg c' :: t => hist_triples t c'
    | Lint d _ _ :: t => doc_triples c d ++ hist_triples t c
    | Evict _ _ :: t => hist_triples t c
    end.
End Cache.

Arguments mkchunk {toks}.
Arguments c_start {toks}.
Arguments c_chars {toks}.
Arguments c_toks {toks}.
Arguments mkdoc {toks}.
Arguments d_chunks {toks}.
Arguments d_miss {toks}.
Arguments d_rest {toks}.
Arguments SetCfg {cfg toks K}.
Arguments Lint {cfg toks K}.
Arguments Evict {cfg toks K}.
Arguments mkstate {cfg K}.
Arguments st_cfg {cfg K}.
Arguments st_cache {cfg K}.
Arguments st_spell {cfg K}.
Arguments fresh {cfg K}.

(* ---------- the key the code builds: (chunk_chars.into(), hasher_builder.hash_one(&self.config)) ---------- *)
Definition code_key {cfg toks} (cfg_hash : cfg -> N) (chars : text) (_ : toks) (c : cfg) : text * N :=
  (chars, cfg_hash c).
Definition code_key_eqb (a b : text * N) : bool := text_eqb (fst a) (fst b) && N.eqb (snd a) (snd b).

(* ---------- the key of fixes/F11.diff: additionally a hash of the chunk's token kinds and relative spans ---------- *)
Definition fixed_key {cfg toks} (cfg_hash : cfg -> N) (tok_hash : toks -> N) (chars : text) (t : toks) (c : cfg)
  : text * N * N := (chars, cfg_hash c, tok_hash t).
Definition fixed_key_eqb (a b : text * N * N) : bool :=
  text_eqb (fst (fst a)) (fst (fst b)) && N.eqb (snd (fst a)) (snd (fst b)) && N.eqb (snd a) (snd b).

(* ---------- driver entry points (extracted).  cfg, toks := N (identities interned by the harness) ---------- *)
(* a chunk from the document source and the hull span of its tokens, as LintGroup::lint builds it:
   chunk.span() then document.get_span_content(&span) (Span::get_content, panics outside the source) *)
Definition chunk_of (src : text) (hull : option span) (t : N) : res (option (chunk N)) :=
  match hull with
  | None => Ok None
  | Some sp => do chars <- get_content sp src; Ok (Some (mkchunk (sstart sp) chars t))
  end.

(* spell_mk of the driver: the harness hands `suggest w` over as [[payload]] — the identity of the lint a
   fresh SpellCheck builds for the word w — so the lint served from the cache is visible in the output *)
Definition drv_spell_mk (_ : text) (sp : span) (sug : list text) : clint := mkclint sp (hd 0%N (hd [] sug)).

Definition run_lint_code (cfg_hash : N -> N) (pattern_rel : text -> N -> N -> list clint)
    (pre post : list clint) (spell_on : bool) (suggest : text -> list text)
    (st : state N (text * N)) (d : doc N) (evs : list (text * N -> bool)) (sevs : list (text -> bool))
  : res (state N (text * N) * list clint * (list bool * list bool)) :=
  lint_doc N N (text * N) code_key_eqb (code_key cfg_hash) pattern_rel
           (fun _ _ => pre) (fun _ _ => post) (fun _ => spell_on) suggest drv_spell_mk st d evs sevs.

Definition run_lint_fixed (cfg_hash : N -> N) (pattern_rel : text -> N -> N -> list clint)
    (pre post : list clint) (spell_on : bool) (suggest : text -> list text)
    (st : state N (text * N * N)) (d : doc N) (evs : list (text * N * N -> bool)) (sevs : list (text -> bool))
  : res (state N (text * N * N) * list clint * (list bool * list bool)) :=
  lint_doc N N (text * N * N) fixed_key_eqb (fixed_key cfg_hash (fun t => t)) pattern_rel
           (fun _ _ => pre) (fun _ _ => post) (fun _ => spell_on) suggest drv_spell_mk st d evs sevs.

Definition run_set_cfg {K} (st : state N K) (c : N) : state N K := mkstate c (st_cache st) (st_spell st).
Definition run_evict {K} (st : state N K) (keep : K -> bool) (skeep : text -> bool) : state N K :=
  mkstate (st_cfg st) (evict keep (st_cache st)) (evict skeep (st_spell st)).
