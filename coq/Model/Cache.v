(* Cache.v — model of the two caches a long-lived linter carries:
     * LintGroup::chunk_pattern_cache  (harper-core/src/linting/lint_group.rs, LintGroup::lint)
         LruCache<(CharString, u64, u64), Vec<Lint>> :
         (chunk characters, hash of the configuration, hash of the chunk's token kinds and of their spans
          relative to the chunk start) -> the lints of all enabled pattern rules on that chunk, spans RELATIVE
         to the chunk start;
     * SpellCheck::word_cache          (harper-core/src/linting/spell_check.rs,
         cached_suggest_correct_spelling)   LruCache<CharString, Vec<CharString>> : word -> suggestions.
   No proofs here (Proofs/CacheProofs.v).

   What is modelled literally: the order struct rules / chunks, the hull of a chunk (`chunk.span()`: minimum and
   maximum over the starts and ends of its tokens, Span::new), the `continue` on a chunk without span,
   get_span_content, the key construction — including the two checked usize subtractions per token
   (`token.span.start - chunk_span.start`, `token.span.end - chunk_span.start`) that feed the token hash —,
   get -> clone on a hit; on a miss run the rules, pull_by(chunk start) (checked usize subtraction), put, then
   push_by(chunk start) for hits and misses alike; the spelling cache's get / compute / put; `self.config` as
   mutable state between lints.

   What is abstract (Section variables; each one is monitored on the implementation by harness/src/bin/c05.rs):
     kind          a token's TokenKind with everything inside it (word metadata, a quote's twin_loc, ...)
     pattern_rel   the lints all enabled pattern rules produce on a chunk, relative to the chunk start, as a
                   function of (chunk characters, the chunk's tokens — kinds, spans relative to the chunk start —,
                   configuration): everything run_on_chunk hands to the rules, up to translation.
                   [monitor rule_fun: the same triple never yields two different results, at any offset, in
                   any document]
     struct_pre / struct_post   the lints of the enabled struct rules sorted before / after "SpellCheck" in
                   the BTreeMap, as functions of (configuration, document)
     suggest       cached_suggest_correct_spelling's uncached body (dictionary and dialect are fields of the
                   instance, fixed for its lifetime), spell_mk the lint SpellCheck::lint builds from it
     the LRU       a finite map that may lose ANY entries between any two cache operations: every Lint
                   carries an adversarial eviction schedule (one keep-predicate per chunk / per word, applied
                   before the lookup) and there is an Evict operation between operations.  This covers every
                   capacity >= 0 and every replacement order; `get` promoting an entry is then unobservable.
     the key       mkkey : chars -> relative tokens -> cfg -> K.  The code's key is `code_key` below:
                   (chars, hash cfg, hash tokens).  `code_key_old` is the key before commit a050122 (it ignored
                   the tokens: finding F11), kept for the regression witness only. *)
Require Import Base.

(* a lint: its span and everything else (kind, message, suggestions, priority) as an opaque identity *)
Record clint := mkclint { cl_span : span; cl_body : N }.

Definition lpush (by_ : nat) (l : clint) : clint := mkclint (push_by (cl_span l) by_) (cl_body l).
Definition lpull (by_ : nat) (l : clint) : res clint :=
  do s <- pull_by (cl_span l) by_; Ok (mkclint s (cl_body l)).

Fixpoint mapM {A B} (f : A -> res B) (l : list A) : res (list B) :=
  match l with
  | [] => Ok []
  | x :: t => do y <- f x; do t' <- mapM f t; Ok (y :: t')
  end.

Fixpoint text_eqb (a b : text) : bool :=
  match a, b with
  | [], [] => true
  | x :: a', y :: b' => N.eqb x y && text_eqb a' b'
  | _, _ => false
  end.

(* itertools::minmax over a non-empty sequence x :: l *)
Fixpoint pts_min (x : nat) (l : list nat) : nat :=
  match l with [] => x | y :: r => pts_min (Nat.min x y) r end.
Fixpoint pts_max (x : nat) (l : list nat) : nat :=
  match l with [] => x | y :: r => pts_max (Nat.max x y) r end.

(* ---------- finite maps as association lists (first match wins) ---------- *)
Section Assoc.
  Context {K V : Type}.
  Variable eqb : K -> K -> bool.
  Fixpoint lookup (k : K) (m : list (K * V)) : option V :=
    match m with
    | [] => None
    | (k', v) :: t => if eqb k k' then Some v else lookup k t
    end.
  Definition remove_key (k : K) (m : list (K * V)) : list (K * V) :=
    filter (fun kv => negb (eqb k (fst kv))) m.
  (* LruCache::put: replaces the value of an existing key, else inserts *)
  Definition put (k : K) (v : V) (m : list (K * V)) : list (K * V) := (k, v) :: remove_key k m.
  (* the adversary: keep exactly the entries whose key satisfies `keep` *)
  Definition evict (keep : K -> bool) (m : list (K * V)) : list (K * V) :=
    filter (fun kv => keep (fst kv)) m.
End Assoc.

Definition keep_all {K} : K -> bool := fun _ => true.

(* ---------- tokens ---------- *)
Section Tokens.
  Variable kind : Type.
  (* a token as the caches see it: its kind and its span *)
  Definition tok := (kind * span)%type.

  (* TokenStringExt::span of a token slice: minmax over the starts and ends of all tokens;
     NoElements => None, OneElement(m) => Span::new(m, m), MinMax(a, b) => Span::new(a, b) *)
  Definition tok_points (t : tok) : list nat := [sstart (snd t); send (snd t)].
  Definition hull_of (ts : list tok) : res (option span) :=
    match flat_map tok_points ts with
    | [] => Ok None
    | [x] => do s <- span_new x x; Ok (Some s)
    | x :: r => do s <- span_new (pts_min x r) (pts_max x r); Ok (Some s)
    end.

  (* what the token hash is fed with, per token: the kind, `token.span.start - chunk_span.start` and
     `token.span.end - chunk_span.start` (usize subtractions: panic on underflow in a debug build) *)
  Definition rel_tok (base : nat) (t : tok) : res tok :=
    do s <- sub_chk (sstart (snd t)) base;
    do e <- sub_chk (send (snd t)) base;
    Ok (fst t, mkspan s e).
  Definition rel_toks (base : nat) (ts : list tok) : res (list tok) := mapM (rel_tok base) ts.
End Tokens.
Arguments tok_points {kind}.
Arguments hull_of {kind}.
Arguments rel_tok {kind}.
Arguments rel_toks {kind}.

Section Cache.
  Variables cfg kind K : Type.
  Variable k_eqb : K -> K -> bool.
  Notation toks := (list (tok kind)).
  Variable mkkey : text -> toks -> cfg -> K.
  Variable pattern_rel : text -> toks -> cfg -> list clint.

  (* a chunk that has a span: where it starts in the document (chunk_span.start), its characters
     (document.get_span_content(&chunk_span)), its tokens with their spans in document space *)
  Record chunk := mkchunk { c_start : nat; c_chars : text; c_toks : toks }.
  (* a document as LintGroup::lint and SpellCheck::lint see it: the chunks of iter_chunks() in order
     (None = `chunk.span()` is None, the loop continues), the words SpellCheck does not accept (span and
     characters, in order), and an identity standing for everything else the struct rules read *)
  Record doc := mkdoc { d_chunks : list (option chunk); d_miss : list (span * text); d_rest : N }.

  (* the chunk as LintGroup::lint derives it from the source and a token slice of iter_chunks():
     chunk.span() (None: continue), then get_span_content (Span::get_content, panics outside the source) *)
  Definition chunk_of (src : text) (ts : toks) : res (option chunk) :=
    do h <- hull_of ts;
    match h with
    | None => Ok None
    | Some sp => do chars <- get_content sp src; Ok (Some (mkchunk (sstart sp) chars ts))
    end.
  Definition doc_of (src : text) (chunks : list toks) (miss : list (span * text)) (rest : N) : res doc :=
    do chs <- mapM (chunk_of src) chunks; Ok (mkdoc chs miss rest).

  Variables struct_pre struct_post : cfg -> doc -> list clint.
  Variable spell_on : cfg -> bool.
  Variable suggest : text -> list text.
  Variable spell_mk : text -> span -> list text -> clint.

  Definition pcache := list (K * list clint).
  Definition scache := list (text * list text).

  (* the `for chunk in document.iter_chunks()` loop.  Third component: hit (true) / miss per chunk with a span *)
  Fixpoint lint_chunks (c : cfg) (chs : list (option chunk)) (evs : list (K -> bool)) (m : pcache)
    : res (pcache * list clint * list bool) :=
    match chs with
    | [] => Ok (m, [], [])
    | oc :: rest =>
        let m1 := evict (hd keep_all evs) m in
        match oc with
        | None => lint_chunks c rest (tl evs) m1
        | Some ch =>
            (* token_hash: for token in chunk { kind; span.start - chunk_span.start; span.end - chunk_span.start } *)
            do rt <- rel_toks (c_start ch) (c_toks ch);
            let key := mkkey (c_chars ch) rt c in
            do '(m2, rel, hit) <-
               match lookup k_eqb key m1 with
               | Some v => Ok (m1, v, true)                                   (* hit.clone() *)
               | None =>
                   (* run_on_chunk of every enabled pattern rule: spans in document space *)
                   let absl := map (lpush (c_start ch)) (pattern_rel (c_chars ch) rt c) in
                   do rel <- mapM (lpull (c_start ch)) absl;                  (* lint.span.pull_by(chunk_span.start) *)
                   Ok (put k_eqb key rel m1, rel, false)
               end;
            do '(m3, out, hits) <- lint_chunks c rest (tl evs) m2;
            Ok (m3, map (lpush (c_start ch)) rel ++ out, hit :: hits)         (* push_by(chunk_span.start); append *)
        end
    end.

  (* SpellCheck::lint over the words it does not accept.  Third component: hit (true) / miss per word *)
  Fixpoint lint_words (ws : list (span * text)) (sevs : list (text -> bool)) (sm : scache)
    : scache * list clint * list bool :=
    match ws with
    | [] => (sm, [], [])
    | (sp, w) :: rest =>
        let sm1 := evict (hd keep_all sevs) sm in
        let '(sm2, sug, hit) :=
           match lookup text_eqb w sm1 with
           | Some v => (sm1, v, true)                                         (* return hit.clone() *)
           | None => let v := suggest w in (put text_eqb w v sm1, v, false)   (* compute; word_cache.put *)
           end in
        let '(sm3, out, hits) := lint_words rest (tl sevs) sm2 in
        (sm3, spell_mk w sp sug :: out, hit :: hits)
    end.

  Record state := mkstate { st_cfg : cfg; st_cache : pcache; st_spell : scache }.
  Definition fresh (c : cfg) : state := mkstate c [] [].

  Inductive op :=
  | SetCfg (c : cfg)
  | Lint (d : doc) (evs : list (K -> bool)) (sevs : list (text -> bool))
  | Evict (keep : K -> bool) (skeep : text -> bool).

  (* LintGroup::lint.  Hit/miss flags: per chunk with a span, then per word *)
  Definition lint_doc (st : state) (d : doc) evs sevs : res (state * list clint * (list bool * list bool)) :=
    let c := st_cfg st in
    let '(sm, spell, whits) :=
      if spell_on c then lint_words (d_miss d) sevs (st_spell st) else (st_spell st, [], []) in
    do '(m, pat, hits) <- lint_chunks c (d_chunks d) evs (st_cache st);
    Ok (mkstate c m sm, struct_pre c d ++ spell ++ struct_post c d ++ pat, (hits, whits)).

  Definition step (st : state) (o : op) : res (state * option (list clint)) :=
    match o with
    | SetCfg c => Ok (mkstate c (st_cache st) (st_spell st), None)
    | Lint d evs sevs => do '(st', out, _) <- lint_doc st d evs sevs; Ok (st', Some out)
    | Evict keep skeep => Ok (mkstate (st_cfg st) (evict keep (st_cache st)) (evict skeep (st_spell st)), None)
    end.

  (* a history; the outputs of its Lint steps in order *)
  Fixpoint run_hist (h : list op) (st : state) : res (state * list (list clint)) :=
    match h with
    | [] => Ok (st, [])
    | o :: t =>
        do '(st1, out) <- step st o;
        do '(st2, outs) <- run_hist t st1;
        Ok (st2, match out with Some l => l :: outs | None => outs end)
    end.

  (* ---------- the specification: no cache anywhere ---------- *)
  (* the chunk's tokens translated to the chunk start; total (saturating) — equal to rel_toks wherever that
     does not panic, which is the case for every chunk built by chunk_of (CacheProofs.chunk_of_wf) *)
  Definition spec_rel (ch : chunk) : toks :=
    map (fun t => (fst t, mkspan (sstart (snd t) - c_start ch) (send (snd t) - c_start ch))) (c_toks ch).
  Definition spec_chunk (c : cfg) (oc : option chunk) : list clint :=
    match oc with
    | None => []
    | Some ch => map (lpush (c_start ch)) (pattern_rel (c_chars ch) (spec_rel ch) c)
    end.
  Definition spec_words (ws : list (span * text)) : list clint :=
    map (fun p => spell_mk (snd p) (fst p) (suggest (snd p))) ws.
  Definition spec_lint (c : cfg) (d : doc) : list clint :=
    struct_pre c d ++ (if spell_on c then spec_words (d_miss d) else []) ++ struct_post c d
    ++ flat_map (spec_chunk c) (d_chunks d).
  Fixpoint spec_hist (h : list op) (c : cfg) : list (list clint) :=
    match h with
    | [] => []
    | SetCfg c' :: t => spec_hist t c'
    | Lint d _ _ :: t => spec_lint c d :: spec_hist t c
    | Evict _ _ :: t => spec_hist t c
    end.

  (* what a freshly built linter (same dictionary, dialect; the configuration of that moment; empty caches;
     LRU never full) answers at each Lint step of a history *)
  Fixpoint fresh_hist (h : list op) (c : cfg) : list (res (list clint)) :=
    match h with
    | [] => []
    | SetCfg c' :: t => fresh_hist t c'
    | Lint d _ _ :: t => (do '(_, out, _) <- lint_doc (fresh c) d [] []; Ok out) :: fresh_hist t c
    | Evict _ _ :: t => fresh_hist t c
    end.

  (* the (chars, relative tokens, configuration) triples a history hands to the pattern rules or looks up *)
  Definition doc_triples (c : cfg) (d : doc) : list (text * toks * cfg) :=
    flat_map (fun oc => match oc with None => [] | Some ch => [(c_chars ch, spec_rel ch, c)] end) (d_chunks d).
  Fixpoint hist_triples (h : list op) (c : cfg) : list (text * toks * cfg) :=
    match h with
    | [] => []
    | SetCfg c' :: t => hist_triples t c'
    | Lint d _ _ :: t => doc_triples c d ++ hist_triples t c
    | Evict _ _ :: t => hist_triples t c
    end.

  (* well-formedness of the chunks of a history: no token of a chunk starts or ends before the chunk's start.
     Established by construction for every chunk LintGroup::lint builds (chunk_of: the start is the minimum). *)
  Definition chunk_wf (ch : chunk) : Prop :=
    Forall (fun t => c_start ch <= sstart (snd t) /\ c_start ch <= send (snd t)) (c_toks ch).
  Definition doc_wf (d : doc) : Prop :=
    forall ch, In (Some ch) (d_chunks d) -> chunk_wf ch.
  Fixpoint hist_wf (h : list op) : Prop :=
    match h with
    | [] => True
    | Lint d _ _ :: t => doc_wf d /\ hist_wf t
    | _ :: t => hist_wf t
    end.
End Cache.

Arguments mkchunk {kind}.
Arguments c_start {kind}.
Arguments c_chars {kind}.
Arguments c_toks {kind}.
Arguments mkdoc {kind}.
Arguments d_chunks {kind}.
Arguments d_miss {kind}.
Arguments d_rest {kind}.
Arguments chunk_of {kind}.
Arguments doc_of {kind}.
Arguments spec_rel {kind}.
Arguments chunk_wf {kind}.
Arguments doc_wf {kind}.
Arguments SetCfg {cfg kind K}.
Arguments Lint {cfg kind K}.
Arguments Evict {cfg kind K}.
Arguments mkstate {cfg K}.
Arguments st_cfg {cfg K}.
Arguments st_cache {cfg K}.
Arguments st_spell {cfg K}.
Arguments fresh {cfg K}.

(* ---------- the key the code builds:
     (chunk_chars.into(), hasher_builder.hash_one(&self.config), token_hash)                      ---------- *)
Definition code_key {cfg kind} (cfg_hash : cfg -> N) (tok_hash : list (tok kind) -> N)
    (chars : text) (t : list (tok kind)) (c : cfg) : text * N * N := (chars, cfg_hash c, tok_hash t).
Definition code_key_eqb (a b : text * N * N) : bool :=
  text_eqb (fst (fst a)) (fst (fst b)) && N.eqb (snd (fst a)) (snd (fst b)) && N.eqb (snd a) (snd b).

(* ---------- HISTORY: the key before commit a050122 (finding F11) — (chars, hash cfg), tokens ignored.
   Used only by the regression witness C05_old_key_refuted. ---------- *)
Definition code_key_old {cfg kind} (cfg_hash : cfg -> N) (chars : text) (_ : list (tok kind)) (c : cfg) : text * N :=
  (chars, cfg_hash c).
Definition code_key_old_eqb (a b : text * N) : bool := text_eqb (fst a) (fst b) && N.eqb (snd a) (snd b).

(* ---------- driver entry points (extracted).  cfg, kind := N (identities interned by the harness) ---------- *)
(* spell_mk of the driver: the harness hands `suggest w` over as [[payload]] — the identity of the lint a
   fresh SpellCheck builds for the word w — so the lint served from the cache is visible in the output *)
Definition drv_spell_mk (_ : text) (sp : span) (sug : list text) : clint := mkclint sp (hd 0%N (hd [] sug)).

Definition drv_doc_of (src : text) (chunks : list (list (tok N))) (miss : list (span * text)) : res (doc N) :=
  doc_of src chunks miss 0%N.

Definition run_lint_code (cfg_hash : N -> N) (tok_hash : list (tok N) -> N)
    (pattern_rel : text -> list (tok N) -> N -> list clint)
    (pre post : list clint) (spell_on : bool) (suggest : text -> list text)
    (st : state N (text * N * N)) (d : doc N) (evs : list (text * N * N -> bool)) (sevs : list (text -> bool))
  : res (state N (text * N * N) * list clint * (list bool * list bool)) :=
  lint_doc N N (text * N * N) code_key_eqb (code_key cfg_hash tok_hash) pattern_rel
           (fun _ _ => pre) (fun _ _ => post) (fun _ => spell_on) suggest drv_spell_mk st d evs sevs.

Definition run_set_cfg {K} (st : state N K) (c : N) : state N K := mkstate c (st_cache st) (st_spell st).
Definition run_evict {K} (st : state N K) (keep : K -> bool) (skeep : text -> bool) : state N K :=
  mkstate (st_cfg st) (evict keep (st_cache st)) (evict skeep (st_spell st)).
