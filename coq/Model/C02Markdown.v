(* C02Markdown.v — executable model of Markdown::parse (harper-core/src/parsers/markdown.rs) over an ABSTRACT
   pulldown-cmark event stream, with the real inner parser (Lexer.plain_parse = PlainEnglish::parse) and the real
   token type of the C02 models.  No proofs here.

   pulldown-cmark itself is not modelled: an event is what Markdown::parse reads of it — the arm of the `match
   event` it falls into, the payload's `chars().count()`, and its source byte range (`into_offset_iter`).
   The byte/char bookkeeping (`traversed_bytes`, `traversed_chars`, `source_str[a..b].chars().count()`, str slices
   that panic off char boundaries) is the one of Model/Mask.v (property C04): `encode`, `str_slice`,
   `count_chars`, `md_advance`, `md_chunk_len`, `md_tag`, `tag_is_prose` are imported from there unchanged.
   New here: the tokens are Lexer tokens produced by plain_parse (checked slice, `push_by`), the final `pop` of a
   trailing Newline / ParagraphBreak, and the two wikilink passes remove_hidden_wikilink_tokens /
   remove_wikilink_brackets (loops with `tokens.get(..)`, VecExt::remove_indices = Overlap.remove_indices on the
   queue exactly as the code builds it — NOT sorted, possibly with duplicates, see `hidden_loop`). *)
Require Import Base Overlap Mask Tables_lexer Lexer Condense C02Wrappers.

(* the arms of `match event` *)
Inductive mev :=
| MStart (t : md_tag)       (* Start(tag); Start(Tag::List(_)) is MStart TList *)
| MEndBreaking              (* End(Paragraph | Item | Heading(_) | CodeBlock | TableCell) *)
| MEndOther                 (* End(_) *)
| MSoftBreak
| MHardBreak
| MCodeLike (n : nat)       (* InlineMath(code) | DisplayMath(code) | Code(code), n = code.chars().count() *)
| MText (n : nat)           (* Text(text), n = text.chars().count() *)
| MHtml (n : nat)           (* Html(c) | InlineHtml(c), n = c.chars().count() *)
| MOther.                   (* `_ => ()` *)
(* (event, range) of into_offset_iter: range = me_rs .. me_re, BYTE offsets *)
Record mevent := mkmev { me_ev : mev; me_rs : nat; me_re : nat }.

(* token.span.push_by(by) *)
Definition pushtok (by_ : nat) (t : token) : token := mktok (push_by (Lexer.tspan t) by_) (tkind_of t).
Definition unl_tok (tc n : nat) : token := mktok (span_new_with_len tc n) KUnlintable.

Section Markdown.
  Variable u : uni.
  Variable ignore_link_title : bool.

  (* the Text arm after chunk_len (= n here) has been computed and found non-zero; stack top first *)
  Definition mk_text (src : text) (stack : list md_tag) (tc n : nat) : res (list token) :=
    let lexed := (do chunk <- slice_chk src tc (tc + n);               (* &source[tc..tc + chunk_len] *)
                  do ts <- plain_parse u chunk;
                  Ok (map (pushtok tc) ts)) in
    match stack with
    | [] => lexed
    | tag :: _ =>
        match tag with
        | TCodeBlock => Ok [unl_tok tc n]
        | TLink => if ignore_link_title then Ok [unl_tok tc n] else lexed
        | _ => if tag_is_prose ignore_link_title tag then lexed else Ok []      (* `continue` *)
        end
    end.

  (* the events of the `matches!(event, SoftBreak | HardBreak | InlineMath | DisplayMath | Code | Text | Html | InlineHtml)`
     of the covered_until / behind_cursor guard (8b26ba4, b736ef8) *)
  Definition is_leaf (e : mev) : bool :=
    match e with MSoftBreak | MHardBreak | MCodeLike _ | MText _ | MHtml _ => true | _ => false end.

  (* stack.push / stack.pop of the arm *)
  Definition mk_stack (stack : list md_tag) (e : mev) : list md_tag :=
    match e with
    | MStart t => t :: stack
    | MEndBreaking | MEndOther => tl stack                  (* stack.pop() *)
    | _ => stack
    end.

  (* the tokens one event pushes, after the cursor has been advanced to tc; bs = bytes of the source *)
  Definition mk_step (src : text) (bs : list N) (stack : list md_tag) (tc : nat) (e : mevent) : res (list token) :=
    match me_ev e with
    | MSoftBreak => Ok [mktok (span_new_with_len tc 1) (KNewline 1)]
    | MHardBreak => Ok [mktok (span_new_with_len tc 1) (KNewline 2)]
    | MStart TList => Ok [mktok (span_new_with_len tc 0) (KNewline 2)]
    | MStart _ => Ok []
    | MEndBreaking => Ok [mktok (span_new_with_len tc 0) KParagraphBreak]
    | MEndOther => Ok []
    | MCodeLike n => if n =? 0 then Ok [] else Ok [unl_tok tc n]        (* `if chunk_len == 0 { continue; }` (a37d1cc) *)
    | MHtml n => Ok [unl_tok tc n]
    | MText n =>
        (* text.chars().count().min(source_str[range.clone()].chars().count())  (548c418) *)
        do chunk_len <- md_chunk_len bs (me_rs e) (me_re e) n;
        if chunk_len =? 0 then Ok []
        else mk_text src stack tc chunk_len
    | MOther => Ok []
    end.

  (* the loop.  cu = covered_until, lastend = tokens.last().map(|t| t.span.end) *)
  Definition cu_top (cu : nat) (lastend : option nat) : nat :=
    match lastend with Some x => Nat.max cu x | None => cu end.
  Definition last_end (out : list token) (lastend : option nat) : option nat :=
    match rev out with t :: _ => Some (tend t) | [] => lastend end.

  Fixpoint mk_loop (src : text) (bs : list N) (evs : list mevent) (tb tc cu : nat) (lastend : option nat)
           (stack : list md_tag) : res (list token) :=
    match evs with
    | [] => Ok []
    | e :: rest =>
        let behind := me_rs e <? tb in                        (* let behind_cursor = range.start < traversed_bytes; (b736ef8) *)
        do '(tb, tc) <- md_advance bs tb tc (me_rs e);
        let cu := cu_top cu lastend in                       (* if let Some(last) = tokens.last() { .. max .. } *)
        if is_leaf (me_ev e) && (behind || (tc <? cu)) then   (* `continue` of the guard *)
          mk_loop src bs rest tb tc cu lastend stack
        else
          do out <- mk_step src bs stack tc e;
          do r <- mk_loop src bs rest tb tc cu (last_end out lastend) (mk_stack stack (me_ev e));
          Ok (out ++ r)
    end.

  (* if matches!(tokens.last(), Some(Newline(_) | ParagraphBreak)) && source.last() != Some(&'\n') { tokens.pop(); } *)
  Definition is_break_tok (t : token) : bool :=
    match tkind_of t with KNewline _ | KParagraphBreak => true | _ => false end.
  Definition mk_pop_last (src : text) (toks : list token) : list token :=
    match rev toks with
    | lastt :: before =>
        if is_break_tok lastt && negb (match rev src with c :: _ => (c =? 10)%N | [] => false end)
        then rev before else toks
    | [] => toks
    end.
End Markdown.

(* ---------- the wikilink passes ---------- *)
Definition k_newline (t : token) : bool := match tkind_of t with KNewline _ => true | _ => false end.
Definition k_open_sq (t : token) : bool := match tkind_of t with KPunct POpenSquare => true | _ => false end.
Definition k_close_sq (t : token) : bool := match tkind_of t with KPunct PCloseSquare => true | _ => false end.
Definition k_pipe (t : token) : bool := match tkind_of t with KPunct PPipe => true | _ => false end.

(* the first `loop` of remove_hidden_wikilink_tokens: walk back from cursor looking for `[[` *)
Fixpoint find_open (ts : list token) (cursor : nat) : option nat :=
  match nth_error ts cursor, nth_error ts (S cursor) with
  | Some a, Some b =>
      if k_newline a then None
      else if k_open_sq a && k_open_sq b then Some cursor
      else match cursor with 0 => None | S c => find_open ts c end
  | _, _ => None
  end.

(* the second `loop`: walk forward looking for `]]`; l = the tokens from cursor on *)
Fixpoint find_close_l (l : list token) (cursor : nat) : option nat :=
  match l with
  | a :: ((b :: _) as r) =>
      if k_newline a then None
      else if k_close_sq a && k_close_sq b then Some cursor
      else find_close_l r (S cursor)
  | _ => None
  end.
Definition find_close (ts : list token) (cursor : nat) : option nat := find_close_l (skipn cursor ts) cursor.

(* `for pipe_idx in tokens.iter_pipe_indices()`: what is pushed on to_remove, in order *)
Fixpoint hidden_loop (ts : list token) (pipes : list nat) : list nat :=
  match pipes with
  | [] => []
  | p :: rest =>
      (if p <? 2 then []
       else match find_open ts (p - 2), find_close ts (p + 1) with
            | Some o, Some c => seq o (p + 1 - o) ++ [c; c + 1]        (* extend(o..=p); push c; push c + 1 *)
            | _, _ => []
            end) ++ hidden_loop ts rest
  end.
Definition remove_hidden_wikilink_tokens (ts : list token) : list token :=
  remove_indices 0 (hidden_loop ts (indices_from k_pipe 0 ts)) ts.

(* remove_wikilink_brackets: one forward loop with the `open_brackets` state; l = tokens from cursor on *)
Fixpoint brackets_loop (l : list token) (cursor : nat) (open : option nat) : list nat :=
  match l with
  | a :: ((b :: _) as r) =>
      match open with
      | Some ob =>
          if k_newline a then brackets_loop r (S cursor) None
          else if k_close_sq a && k_close_sq b
               then [ob; ob + 1; cursor; cursor + 1] ++ brackets_loop r (S cursor) None
               else brackets_loop r (S cursor) open
      | None =>
          if k_open_sq a && k_open_sq b then brackets_loop r (S cursor) (Some cursor)
          else brackets_loop r (S cursor) None
      end
  | _ => []
  end.
Definition remove_wikilink_brackets (ts : list token) : list token :=
  remove_indices 0 (brackets_loop ts 0 None) ts.

(* ---------- Markdown::parse ---------- *)
Definition markdown_raw (u : uni) (ilt : bool) (src : text) (evs : list mevent) : res (list token) :=
  mk_loop u ilt src (encode src) evs 0 0 0 None [].
Definition markdown_parse (u : uni) (ilt : bool) (src : text) (evs : list mevent) : res (list token) :=
  do toks <- markdown_raw u ilt src evs;
  Ok (remove_wikilink_brackets (remove_hidden_wikilink_tokens (mk_pop_last src toks))).

(* Document::new(text, &Markdown::new(options), ..): the passes of Document::parse over it *)
Definition document_markdown (u : uni) (ilt : bool) (src : text) (evs : list mevent) : res (list token) :=
  do toks <- markdown_parse u ilt src evs;
  document_passes src toks.

(* ---------- the contract of the event stream (specification side; decidable, evaluated by the driver too) ----------
   Since 8b26ba4 / b736ef8 the code itself skips a token-bearing ("leaf") event that starts behind the cursor or before
   the end of the tokens pushed so far: nothing is assumed any more about the ORDER of the events or their position
   relative to each other.  What is still asked of pulldown-cmark is a property of each event ON ITS OWN:
   (K1) the range starts on a char boundary of the source; the range of a leaf event is start <= end on char boundaries;
   (K3) the payload fits its own range: the range holds at least 1 character for SoftBreak / HardBreak, at least the
        payload's characters for Code / Math / Html; an Html payload is not empty (an empty Code / Math payload is
        skipped by the code since a37d1cc; a Text event is clamped to its range by the code since 548c418). *)
Definition ev_ok (bs : list N) (e : mevent) : bool :=
  is_boundary bs (me_rs e) &&
  (if is_leaf (me_ev e) then
     (me_rs e <=? me_re e) && is_boundary bs (me_re e) &&
     let cnt := count_chars (slice bs (me_rs e) (me_re e)) in
     match me_ev e with
     | MSoftBreak | MHardBreak => 1 <=? cnt
     | MCodeLike n => n <=? cnt
     | MHtml n => (1 <=? n) && (n <=? cnt)
     | _ => true
     end
   else true).
Definition md_contractb (bs : list N) (evs : list mevent) : bool := forallb (ev_ok bs) evs.
Definition md_contract (src : text) (evs : list mevent) : Prop := md_contractb (encode src) evs = true.
