(* C16Api.v — the rest of what harper-wasm exports next to the calls of Model/Wasm.v, as compositions of
   parts that are modelled elsewhere (harper-wasm/src/lib.rs).  No proofs here.

     to_title_case(text)            = harper_core::make_title_case_str(&text, &PlainEnglish, &FstDictionary::curated())
                                      (make_title_case is C18's Model/TitleCase.v; here the function of the text)
     Linter::is_likely_english(t)   = is_doc_likely_english(&Document::new_plain_english(&t, &self.dictionary), &self.dictionary)
     Linter::isolate_english(t)     = Document::new(&t, &IsolateEnglish::new(Box::new(PlainEnglish), self.dictionary.clone()),
                                                    &self.dictionary).to_string()
                                      (both: C02's Model/C02Wrappers.v; here functions of the text and of the user part
                                       of `self.dictionary`, which is the LINT dictionary s_lint_dict, not user_dictionary)
     get_default_lint_config_as_json() = serde_json of LintGroup::new_curated(empty dictionary, American).config  (= `curated`)
     Linter::generate_stats_file()  = Stats::write into an empty Vec                       (C19's Model/Stats.v `write`)
     Linter::import_stats_file(f)   = Stats::read(f)?, then self.stats.records.append(..)   (Model/Stats.v `read`)
   None of the first five touches the linter (`&self` / free functions); import_stats_file touches `stats` only. *)
Require Import Base Overlap Suggestion LintJson Wasm JsonEscape Stats.

Inductive xcall :=
| XBase (c : call)
| XToTitleCase (t : text)
| XIsLikelyEnglish (t : text)
| XIsolateEnglish (t : text)
| XGetDefaultConfig
| XGenerateStats
| XImportStats (file : bytes).

Inductive xout :=
| XOut (o : out)
| XBool (b : bool)
| XFile (f : bytes).

Definition set_stats (st : state) (rs : list stat_record) : state :=
  mkst (s_cfg st) (s_user st) (s_lint_dict st) (s_ignored st) rs (s_dialect st).

Section Api.
  Variable curated : config.
  Variable word_id : text -> N.
  Variable raw_lints : text -> language -> config -> dict -> nat -> list rlint.
  Variable ctx : rlint -> text -> language -> dict -> N.
  Variable title_case : text -> text.
  Variable likely_english : text -> dict -> bool.
  Variable isolate : text -> dict -> text.
  Variable ser : stat_record -> bytes.              (* serde_json of a Record (one line) *)
  Variable de : bytes -> option stat_record.

  Definition xstep (st : state) (c : xcall) : state * xout :=
    match c with
    | XBase c => let '(st', o) := step curated word_id raw_lints ctx st c in (st', XOut o)
    | XToTitleCase t => (st, XOut (OText (title_case t)))
    | XIsLikelyEnglish t => (st, XBool (likely_english t (s_lint_dict st)))
    | XIsolateEnglish t => (st, XOut (OText (isolate t (s_lint_dict st))))
    | XGetDefaultConfig => (st, XOut (OConfig curated))
    | XGenerateStats => (st, XFile (write stat_record ser (s_stats st)))
    | XImportStats f =>
        match read stat_record de f with
        | Some rs => (set_stats st (s_stats st ++ rs), XOut OUnit)
        | None => (st, XOut OErr)
        end
    end.

  Fixpoint xrun (st : state) (cs : list xcall) : state * list xout :=
    match cs with
    | [] => (st, [])
    | c :: rest =>
        let '(st1, o) := xstep st c in
        let '(st2, os) := xrun st1 rest in
        (st2, o :: os)
    end.
End Api.

(* the calls of Model/Wasm.v inside a history of the whole API *)
Fixpoint base_calls (cs : list xcall) : list call :=
  match cs with
  | [] => []
  | XBase c :: r => c :: base_calls r
  | _ :: r => base_calls r
  end.

(* two linters that differ at most in their statistics *)
Definition same_but_stats (a b : state) : Prop :=
  s_cfg a = s_cfg b /\ s_user a = s_user b /\ s_lint_dict a = s_lint_dict b /\ s_ignored a = s_ignored b
  /\ s_dialect a = s_dialect b.
