(* C07Lang.v — the language of an open document in harper-ls/src/backend.rs update_document:
     let doc_state = doc_lock.entry(url).or_insert_with(|| DocumentState { language_id: language_id.map(..), .. });
       -> the language id given by didOpen is stored ONLY when the document state is created; a later didOpen of
          the same url with another language id (no didClose in between) does not change it
     didChange, didSave and the update_document_from_file of the add commands pass language_id = None
     let Some(language_id) = &doc_state.language_id else { doc_lock.remove(url); return Ok(()) };
       -> an update of a url that has no state creates one WITHOUT a language and removes it again: no document
     the parser is chosen by the STORED language id; `_ => None` (no parser for that language): doc_lock.remove(url)
     did_close: doc_lock.remove(url);  a new Backend (restart, crash) has no document state
   generate_diagnostics of a url without document state is the empty list.
   The versions of the notifications are assumed to increase (an outdated update is ignored altogether, 1f0bfb7).
   Built on C07Ident (update_doc / istep: base_dict, ident_dict, dict per document).  No proofs here. *)
Require Import Base DictIO C07Ident.

(* what the parser chain of ONE language makes of the text being checked: a language without identifier handling
   (plaintext, markdown, ... or create_ident_dict = None): the Word tokens; a tree-sitter language: the identifiers
   and the Word tokens of the comments; a language id harper-ls has no parser for *)
Inductive alt := APlain (toks : list word) | ASrc (ids toks : list word) | ANone.
Definition lang := nat.
(* the text of a check as every language in play would read it *)
Definition alts := list (lang * alt).
Fixpoint alt_of (a : alts) (l : lang) : alt :=
  match a with
  | [] => ANone
  | (l', x) :: r => if Nat.eqb l l' then x else alt_of r l
  end.

(* association lists keyed by url (the doc_state HashMap, split into the C07Ident part and the language part) *)
Fixpoint aget {A : Type} (u : url) (m : list (url * A)) : option A :=
  match m with
  | [] => None
  | (u', v) :: t => if url_eqb u u' then Some v else aget u t
  end.
Definition adel {A : Type} (u : url) (m : list (url * A)) : list (url * A) :=
  filter (fun e => negb (url_eqb u (fst e))) m.
Definition aset {A : Type} (u : url) (v : A) (m : list (url * A)) : list (url * A) := (u, v) :: adel u m.

Section Lang.
  Variable is_lower : N -> bool.
  Variable lower : N -> list N.
  Variable curated : dict.
  Variable iter_order : list word -> list word.

  Definition lmap := list (url * lang).          (* DocumentState.language_id of the documents that have a state *)
  Definition lstate := (fsys * icache * lmap)%type.

  Inductive lop :=
  | LAdd (sc : scope) (w : word)
  | LCrash (sc : scope) (w : word) (i : nat)
  | LRestart
  | LOpen (u : url) (l : lang) (a : alts)      (* didOpen with language id l *)
  | LChange (u : url) (a : alts)               (* didChange *)
  | LHidden (u : url) (a : alts)               (* update_document_from_file (add commands, didSave): nothing compared *)
  | LClose (u : url).

  (* the language of the document state after entry().or_insert_with() *)
  Definition eff_lang (m : lmap) (u : url) (decl : option lang) : option lang :=
    match aget u m with Some l => Some l | None => decl end.

  Definition lupdate (st : lstate) (u : url) (decl : option lang) (a : alts) : lstate * list bool :=
    let '(s, c, m) := st in
    match eff_lang m u decl with
    | None => ((s, adel u c, adel u m), [])
    | Some l =>
        match alt_of a l with
        | ANone => ((s, adel u c, adel u m), [])
        | APlain toks =>
            let '((s', c'), out) := istep is_lower lower curated iter_order (s, c) (IBase (LintDoc u toks)) in
            ((s', c', aset u l m), out)
        | ASrc ids toks =>
            let '((s', c'), out) := istep is_lower lower curated iter_order (s, c) (LintSrc u ids toks) in
            ((s', c', aset u l m), out)
        end
    end.

  Definition lstep (st : lstate) (o : lop) : lstate * list bool :=
    let '(s, c, m) := st in
    match o with
    | LAdd sc w => ((fst (step_op is_lower lower curated iter_order s (AddWord sc w)), c, m), [])
    | LCrash sc w i => ((fst (step_op is_lower lower curated iter_order s (CrashAdd sc w i)), [], []), [])
    | LRestart => ((s, [], []), [])
    | LOpen u l a => lupdate st u (Some l) a
    | LChange u a => lupdate st u None a
    | LHidden u a => (fst (lupdate st u None a), [])
    | LClose u => ((s, adel u c, adel u m), [])
    end.
  Fixpoint lrun (st : lstate) (h : list lop) : lstate * list (list bool) :=
    match h with
    | [] => (st, [])
    | o :: r => let (st', out) := lstep st o in
                let (st'', outs) := lrun st' r in (st'', out :: outs)
    end.

  (* the reference: no per-document dictionaries at all — only the language each open document was FIRST opened with;
     every check loads the dictionary files and merges the identifiers of the text it is checking *)
  Definition lref_update (s : fsys) (m : lmap) (u : url) (decl : option lang) (a : alts) : lmap * list bool :=
    match eff_lang m u decl with
    | None => (adel u m, [])
    | Some l =>
        match alt_of a l with
        | ANone => (adel u m, [])
        | APlain toks => (aset u l m, flags is_lower lower (children is_lower lower curated s u) toks)
        | ASrc ids toks =>
            (aset u l m, flags is_lower lower (children is_lower lower curated s u ++ [ident_dict is_lower lower ids]) toks)
        end
    end.
  Definition lref_step (st : fsys * lmap) (o : lop) : (fsys * lmap) * list bool :=
    let (s, m) := st in
    match o with
    | LAdd sc w => ((fst (step_op is_lower lower curated iter_order s (AddWord sc w)), m), [])
    | LCrash sc w i => ((fst (step_op is_lower lower curated iter_order s (CrashAdd sc w i)), []), [])
    | LRestart => ((s, []), [])
    | LOpen u l a => let (m', out) := lref_update s m u (Some l) a in ((s, m'), out)
    | LChange u a => let (m', out) := lref_update s m u None a in ((s, m'), out)
    | LHidden u a => ((s, fst (lref_update s m u None a)), [])
    | LClose u => ((s, adel u m), [])
    end.
  Fixpoint lref (st : fsys * lmap) (h : list lop) : (fsys * lmap) * list (list bool) :=
    match h with
    | [] => (st, [])
    | o :: r => let (st', out) := lref_step st o in
                let (st'', outs) := lref st' r in (st'', out :: outs)
    end.

  (* whether a language has identifier handling is a function of the language id (create_ident_dict of a tree-sitter
     language does not fail): the alternatives an operation carries agree with it *)
  Definition alts_ok (src_lang : lang -> bool) (a : alts) : Prop :=
    forall l, match alt_of a l with
              | ASrc _ _ => src_lang l = true
              | APlain _ => src_lang l = false
              | ANone => True
              end.
  Definition lop_ok (src_lang : lang -> bool) (o : lop) : Prop :=
    match o with
    | LOpen _ _ a | LChange _ a | LHidden _ a => alts_ok src_lang a
    | _ => True
    end.
End Lang.

(* the extracted server with languages; the hash map iterates in the proposed order *)
Definition x_lstep (tb : ctable) (cur : list entry) (order : list word) (st : lstate) (o : lop) : lstate * list bool :=
  lstep (tb_is_lower tb) (tb_lower tb) (mk_curated tb cur) (proposed_order order) st o.
(* the words of the tokens reported in a check (the driver prints them sorted) *)
Fixpoint reported (toks : list word) (fl : list bool) : list word :=
  match toks, fl with
  | t :: ts, b :: bs => if b then t :: reported ts bs else reported ts bs
  | _, _ => []
  end.
Definition toks_of (a : alt) : list word :=
  match a with APlain toks => toks | ASrc _ toks => toks | ANone => [] end.
(* the tokens of the alternative that is in force for u BEFORE the update runs *)
Definition x_eff_toks (m : lmap) (u : url) (decl : option lang) (a : alts) : list word :=
  match eff_lang m u decl with Some l => toks_of (alt_of a l) | None => [] end.
