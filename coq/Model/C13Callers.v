(* C13Callers.v — the four callers of harper_core::remove_overlaps, modelled as the compositions the
   code has around it (from the point where the lint vector exists).  No proofs here.

     harper-wasm/src/lib.rs  Linter::lint        lints = group.lint(doc); remove_overlaps; remove_ignored; map
     harper-cli/src/main.rs  Args::Lint arm      lints = linter.lint(doc); --count prints len and returns;
                                                 empty prints "No lints found"; remove_overlaps; one label per lint
     linting/merge_linters.rs merge_linters!     lints.extend(sub.lint(doc)) per sub-linter; remove_overlaps
     linting/currency_placement.rs               per chunk: windows of 2, the first triple, windows of 4; remove_overlaps

   harper-cli has NO apply path (it only prints an ariadne report with one label per kept lint); the only
   code that applies a suggestion on behalf of a client is harper-wasm's Linter::apply_suggestion, which is
   Suggestion::apply on the chars of the text it is handed.  `fix_all` is a client calling it once per
   reported lint, last reported lint first. *)
Require Import Base Overlap Suggestion.

(* IgnoredLints::remove_ignored: returns at once when no hash is stored, else retain(!is_ignored) *)
Definition remove_ignored (no_hashes : bool) (ignored : lint -> bool) (ls : list lint) : list lint :=
  if no_hashes then ls else filter (fun l => negb (ignored l)) ls.

Definition wasm_lint (no_hashes : bool) (ignored : lint -> bool) (raw : list lint) : list lint :=
  remove_ignored no_hashes ignored (remove_overlaps raw).

Inductive cli_out :=
| CliCount (n : nat)            (* println!("{}", lints.len()); return *)
| CliNoLints                    (* println!("No lints found"); return *)
| CliLabels (ls : list lint).   (* one Label per lint, in the order of the vector *)

Definition cli_lint (count : bool) (raw : list lint) : cli_out :=
  if count then CliCount (length raw)
  else match raw with
       | [] => CliNoLints
       | _ => CliLabels (remove_overlaps raw)
       end.

Definition merge_lint (subs : list (list lint)) : list lint := remove_overlaps (concat subs).

(* one suggestion per reported lint through Linter::apply_suggestion, last reported lint first *)
Definition fix_all (sug : lint -> suggestion) (src : text) (reported : list lint) : res text :=
  apply_back_to_front src (map (fun l => (lspan l, sug l)) reported).

(* ---------- CurrencyPlacement::lint ---------- *)
Inductive ckind := CkNumber | CkCurrency | CkPunct | CkSpace | CkOther.
Record ctok := mkctok { ck : ckind; cspan : span }.

Definition ck_is_punct (k : ckind) : bool := match k with CkCurrency | CkPunct => true | _ => false end.
Definition ck_is_currency (k : ckind) : bool := match k with CkCurrency => true | _ => false end.
Definition ck_is_number (k : ckind) : bool := match k with CkNumber => true | _ => false end.
Definition ck_is_space (k : ckind) : bool := match k with CkSpace => true | _ => false end.

(* generate_lint_for_tokens: `wrong s e` stands for `correct != actual` on the text of [s, e) *)
Definition gen_pair (wrong : nat -> nat -> bool) (a b : ctok) : res (option span) :=
  (* a.kind.as_punctuation().or(b.kind.as_punctuation())?.as_currency()? *)
  let punct_is_currency :=
    if ck_is_punct (ck a) then ck_is_currency (ck a) else ck_is_currency (ck b) in
  if negb punct_is_currency then Ok None
  else if negb (ck_is_number (ck a) || ck_is_number (ck b)) then Ok None
  else
    do sp <- span_new (sstart (cspan a)) (send (cspan b));
    if wrong (sstart sp) (send sp) then Ok (Some sp) else Ok None.

Definition opt_list {A} (o : option A) : list A := match o with Some x => [x] | None => [] end.

(* for (a, b) in chunk.iter().tuple_windows() *)
Fixpoint windows2 (wrong : nat -> nat -> bool) (c : list ctok) : res (list span) :=
  match c with
  | a :: ((b :: _) as t) =>
      do o <- gen_pair wrong a b; do r <- windows2 wrong t; Ok (opt_list o ++ r)
  | _ => Ok []
  end.

(* if let Some((a, b, c)) = chunk.iter().tuple_windows().next() { if b is whitespace .. (a, c) } *)
Definition first_triple (wrong : nat -> nat -> bool) (c : list ctok) : res (list span) :=
  match c with
  | a :: b :: c' :: _ =>
      if ck_is_space (ck b) then do o <- gen_pair wrong a c'; Ok (opt_list o) else Ok []
  | _ => Ok []
  end.

(* for (p, a, b, c) in chunk.iter().tuple_windows() { if !b.is_whitespace() || p.is_currency() { continue } .. (a, c) } *)
Fixpoint windows4 (wrong : nat -> nat -> bool) (c : list ctok) : res (list span) :=
  match c with
  | p :: ((a :: b :: c' :: _) as t) =>
      do o <- (if negb (ck_is_space (ck b)) || ck_is_currency (ck p) then Ok None else gen_pair wrong a c');
      do r <- windows4 wrong t; Ok (opt_list o ++ r)
  | _ => Ok []
  end.

Definition chunk_cands (wrong : nat -> nat -> bool) (c : list ctok) : res (list span) :=
  do x <- windows2 wrong c; do y <- first_triple wrong c; do z <- windows4 wrong c; Ok (x ++ y ++ z).

Fixpoint currency_cands (wrong : nat -> nat -> bool) (chunks : list (list ctok)) : res (list span) :=
  match chunks with
  | [] => Ok []
  | c :: cs => do x <- chunk_cands wrong c; do r <- currency_cands wrong cs; Ok (x ++ r)
  end.

(* lints numbered in the order in which they are pushed *)
Fixpoint number_from (i : nat) (l : list span) : list lint :=
  match l with
  | [] => []
  | s :: t => mklint s i :: number_from (S i) t
  end.

Definition currency_lint (wrong : nat -> nat -> bool) (chunks : list (list ctok)) : res (list lint) :=
  do cs <- currency_cands wrong chunks; Ok (remove_overlaps (number_from 0 cs)).

(* ---------- driver entry points ---------- *)
Definition pair_span (p : nat * nat) : span := mkspan (fst p) (snd p).

(* items: (start, end, ignored?) of the raw lints, ids = positions; output: ids of the reported lints *)
Definition run_wasm_lint (no_hashes : bool) (items : list (nat * nat * bool)) : list nat :=
  let raw := number_from 0 (map (fun it => pair_span (fst it)) items) in
  let ignored l := match nth_error items (lid l) with Some (_, g) => g | None => false end in
  map lid (wasm_lint no_hashes ignored raw).

(* Some None = count / no lints (nothing labelled); the CLI arm as (count printed, labelled ids) *)
Definition run_cli_lint (count : bool) (spans : list (nat * nat)) : option nat * list nat :=
  match cli_lint count (number_from 0 (map pair_span spans)) with
  | CliCount n => (Some n, [])
  | CliNoLints => (None, [])
  | CliLabels ls => (None, map lid ls)
  end.

Definition run_merge_lint (subs : list (list (nat * nat))) : list (nat * nat) :=
  map (fun l => (lstart l, lend l))
      (remove_overlaps (number_from 0 (map pair_span (concat subs)))).

Definition mk_sug (kind : nat) (cs : text) : suggestion :=
  match kind with 0 => ReplaceWith cs | 1 => InsertAfter cs | _ => Remove end.

(* items: span and suggestion (kind, chars) of each raw lint; the whole pipeline of a client that
   lints, then fixes everything that is reported, last reported lint first.  None = panic *)
Definition run_fix_all (no_hashes : bool) (src : text) (items : list ((nat * nat * bool) * (nat * text))) : option text :=
  let raw := number_from 0 (map (fun it => pair_span (fst (fst it))) items) in
  let ignored l := match nth_error items (lid l) with Some ((_, g), _) => g | None => false end in
  let sug l := match nth_error items (lid l) with Some (_, (k, cs)) => mk_sug k cs | None => Remove end in
  match fix_all sug src (wasm_lint no_hashes ignored raw) with Ok t => Some t | Panic _ => None end.

Definition ckind_of_nat (n : nat) : ckind :=
  match n with 0 => CkNumber | 1 => CkCurrency | 2 => CkPunct | 3 => CkSpace | _ => CkOther end.

(* chunks of (kind, start, end); wrong = membership in a list of (start, end); None = panic *)
Definition run_currency (chunks : list (list (nat * (nat * nat)))) (wrongs : list (nat * nat)) : option (list (nat * nat)) :=
  let wrong s e := existsb (fun p => (fst p =? s) && (snd p =? e)) wrongs in
  let cs := map (map (fun t => mkctok (ckind_of_nat (fst t)) (pair_span (snd t)))) chunks in
  match currency_lint wrong cs with
  | Ok ls => Some (map (fun l => (lstart l, lend l)) ls)
  | Panic _ => None
  end.

(* ---------- phase 4: what can be read off the CLI's printed report, and merge_linters! with ids ---------- *)
(* harper-cli prints an ariadne report: every character of the source that lies under a label is printed in the
   label colour, and each label's message hangs from an arrow anchored (ariadne's LabelAttach::Middle) at column
   (start + end) / 2 of its span.  These are the two things the harness parses back out of the real binary's stdout. *)
Definition cover_positions (ks : list lint) : list nat :=
  flat_map (fun l => seq (lstart l) (lend l - lstart l)) ks.
Definition label_anchor (l : lint) : nat := Nat.div (lstart l + lend l) 2.

(* (count printed, report) : (Some n, None) for --count, (None, None) for "No lints found",
   (None, Some (coloured character positions, (anchor column, lint id) per label in vector order)) otherwise *)
Definition run_cli_report (count : bool) (spans : list (nat * nat))
  : option nat * option (list nat * list (nat * nat)) :=
  match cli_lint count (number_from 0 (map pair_span spans)) with
  | CliCount n => (Some n, None)
  | CliNoLints => (None, None)
  | CliLabels ls => (None, Some (cover_positions ls, map (fun l => (label_anchor l, lid l)) ls))
  end.

(* merge_linters!: the sub-linters' outputs numbered consecutively in declaration order; output = kept ids *)
Fixpoint number_subs (i : nat) (subs : list (list (nat * nat))) : list (list lint) :=
  match subs with
  | [] => []
  | s :: t => number_from i (map pair_span s) :: number_subs (i + length s) t
  end.
Definition run_merge_ids (subs : list (list (nat * nat))) : list nat :=
  map lid (merge_lint (number_subs 0 subs)).
