(* TokenSeq.v — abstract tokens and the token-sequence iterators of
   harper-core/src/token_string_ext.rs (`impl TokenStringExt for [Token]`; `Document` delegates every
   one of them to `self.tokens`): span() (the hull), iter_chunks / iter_sentences / iter_paragraphs,
   and the LongSentences rule as it is now (harper-core/src/linting/long_sentences.rs).
   No proofs here.

   A token is its span plus what the modelled code can observe of its kind:
     tkid    an identity of the TokenKind value (two tokens have the same tkid iff `kind == kind`)
     tflags  the TokenKind predicates the modelled code calls, one bit each (see F_* below)
     tid     the identity of the token object; never inspected by the model, only handed to the
             opaque oracles (closures, dictionary, edit distance, title case) of Pattern.v *)
Require Import Base.

Record tok := mktok { tspan : span; tkid : nat; tflags : N; tid : nat }.

Definition flag (b : nat) (t : tok) : bool := N.testbit (tflags t) (N.of_nat b).
Definition F_WORD      := 0.  (* TokenKind::Word(_)                      kind.is_word()                *)
Definition F_WS        := 1.  (* Space(_) | Newline(_)                   kind.is_whitespace()          *)
Definition F_ADJ       := 2.  (*                                         kind.is_adjective()           *)
Definition F_DET       := 3.  (* Word(Some(md)) with md.determiner       kind.is_determiner()          *)
Definition F_NOMINAL   := 4.  (*                                         kind.is_nominal()             *)
Definition F_NUMBER    := 5.  (* TokenKind::Number(_)                                                  *)
Definition F_WORDMETA  := 6.  (* TokenKind::Word(Some(_))                                              *)
Definition F_CHUNKTERM := 7.  (*                                         kind.is_chunk_terminator()    *)
Definition F_SENTTERM  := 8.  (*                                         kind.is_sentence_terminator() *)
Definition F_PARABREAK := 9.  (* TokenKind::ParagraphBreak               kind.is_paragraph_break()     *)

(* &l[a..] : panics when a > len *)
Definition slice_from {A} (l : list A) (a : nat) : res (list A) :=
  if length l <? a then Panic PIndex else Ok (skipn a l).

(* ---------- span(): minmax over all starts and ends, then Span::new(min, max) ---------- *)
Fixpoint endpoints (ts : list tok) : list nat :=
  match ts with
  | [] => []
  | t :: r => sstart (tspan t) :: send (tspan t) :: endpoints r
  end.
Definition ep_min (x : nat) (l : list nat) : nat := fold_left Nat.min l x.
Definition ep_max (x : nat) (l : list nat) : nat := fold_left Nat.max l x.

(* itertools::minmax: NoElements -> None; OneElement(m) -> Span::new(m, m); MinMax(a, b) -> Span::new(a, b).
   (flat_map yields two endpoints per token, so OneElement cannot occur; it is modelled anyway.) *)
Definition hull (ts : list tok) : option (res span) :=
  match endpoints ts with
  | [] => None
  | [m] => Some (span_new m m)
  | x :: l => Some (span_new (ep_min x l) (ep_max x l))
  end.

(* what LongSentences did before commit be8029b:  Span::new(sentence[0].span.start, sentence.last().unwrap().span.end) *)
Definition first_last_span (ts : list tok) : res span :=
  match ts with
  | [] => Panic PIndex
  | t :: _ => span_new (sstart (tspan t)) (send (tspan (last ts t)))
  end.

(* ---------- iter_<thing>_indices / last_<thing>_index ---------- *)
Fixpoint indices_from (f : tok -> bool) (i : nat) (ts : list tok) : list nat :=
  match ts with
  | [] => []
  | t :: r => if f t then i :: indices_from f (S i) r else indices_from f (S i) r
  end.
Definition term_indices (f : tok -> bool) (ts : list tok) : list nat := indices_from f 0 ts.

(* self.iter().rev().position(f).map(|i| self.len() - i - 1) *)
Fixpoint position {A} (f : A -> bool) (l : list A) : option nat :=
  match l with
  | [] => None
  | x :: r => if f x then Some 0 else option_map S (position f r)
  end.
Definition last_index (f : tok -> bool) (ts : list tok) : res (option nat) :=
  match position f (rev ts) with
  | None => Ok None
  | Some i => do a <- sub_chk (length ts) i; do b <- sub_chk a 1; Ok (Some b)
  end.

(* tuple_windows over the terminator indices: &self[a + 1..=b] *)
Fixpoint windows (ts : list tok) (idx : list nat) : res (list (list tok)) :=
  match idx with
  | a :: ((b :: _) as r) =>
      do s <- slice_chk ts (S a) (S b);
      do rest <- windows ts r;
      Ok (s :: rest)
  | _ => Ok []
  end.

(* the common body of iter_chunks / iter_sentences / iter_paragraphs *)
Definition iter_by (f : tok -> bool) (ts : list tok) : res (list (list tok)) :=
  let idx := term_indices f ts in
  do first <- match idx with
              | [] => Ok []
              | t :: _ => do s <- slice_chk ts 0 (S t); Ok [s]       (* &self[0..=first_term] *)
              end;
  do rest <- windows ts idx;
  do li <- last_index f ts;
  do lst <- match li with
            | Some last_i =>
                if S last_i <? length ts
                then (do s <- slice_from ts (S last_i); Ok [s])      (* &self[last_i + 1..] *)
                else Ok []
            | None => Ok [ts]                                          (* Some(self), even when empty *)
            end;
  Ok (first ++ rest ++ lst).

Definition iter_chunks     := iter_by (flag F_CHUNKTERM).
Definition iter_sentences  := iter_by (flag F_SENTTERM).
Definition iter_paragraphs := iter_by (flag F_PARABREAK).

(* ---------- LongSentences::lint as it is now (be8029b, 1bab09f): the spans it reports ---------- *)
Definition count_words (s : list tok) : nat := length (filter (flag F_WORD) s).

Fixpoint long_sentence_spans (span_of : list tok -> res span) (ss : list (list tok)) : res (list span) :=
  match ss with
  | [] => Ok []
  | s :: r =>
      if 40 <? count_words s
      then (do sp <- span_of s; do rest <- long_sentence_spans span_of r; Ok (sp :: rest))
      else long_sentence_spans span_of r
  end.

(* sentence.span().unwrap() *)
Definition hull_unwrap (s : list tok) : res span :=
  match hull s with None => Panic PUnwrap | Some r => r end.

(* sentence.iter().position(|t| !t.kind.is_whitespace()).unwrap_or(0) *)
Definition first_visible (s : list tok) : nat :=
  match position (fun t => negb (flag F_WS t)) s with Some i => i | None => 0 end.

(* sentence[first..].span().unwrap()   (1bab09f: the flagged text starts at the first visible token) *)
Definition visible_hull (s : list tok) : res span :=
  do s' <- slice_from s (first_visible s); hull_unwrap s'.

Definition long_sentences (ts : list tok) : res (list span) :=
  do ss <- iter_sentences ts; long_sentence_spans visible_hull ss.
(* before be8029b (F2): Span::new(first.start, last.end) *)
Definition long_sentences_old (ts : list tok) : res (list span) :=
  do ss <- iter_sentences ts; long_sentence_spans first_last_span ss.
