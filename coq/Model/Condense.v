(* Condense.v — executable model of the token passes of Document::parse (harper-core/src/document.rs):
     condense_spaces, condense_newlines, newlines_to_breaks, condense_number_suffixes (+ condense_indices;
     before the contractions since dcfd71f), condense_contractions, condense_dotted_initialisms,
     condense_ellipsis, condense_latin (condense_pattern + PatternExt::find_all_matches + the three fixed patterns),
     match_quotes — in the order Document::parse applies them (the translator re-checks that order).
   No proofs here.

   Shape of every pass, as in the Rust: the token vector is updated IN PLACE (same length) while a queue of
   indices is collected, then VecExt::remove_indices (Overlap.remove_indices, shared with C13) drops the
   queued tokens.  Index, slice, `unwrap`, `Span::len` (usize subtraction) and `Span::get_content` are the
   checked operations of Base.v, loops with a cursor carry fuel (`Panic PFuel` is excluded by the totality
   theorems).  Not modelled: articles_imply_nouns and the dictionary look-up at the end of Document::parse —
   both only touch the metadata inside `Word(..)`, never a span, a kind tag or the token count. *)
Require Import Base Overlap Tables_lexer Lexer.

(* ---------- kind tests (is_macro derives + token_kind.rs) ---------- *)
Definition is_word (k : tkind) : bool := match k with KWord => true | _ => false end.
Definition is_number (k : tkind) : bool := match k with KNumber _ => true | _ => false end.
Definition is_period (k : tkind) : bool := match k with KPunct PPeriod => true | _ => false end.
Definition is_apostrophe (k : tkind) : bool := match k with KPunct PApostrophe => true | _ => false end.
Definition is_quote (k : tkind) : bool := match k with KPunct (PQuote _) => true | _ => false end.
Definition is_whitespace_kind (k : tkind) : bool :=
  match k with KSpace _ | KNewline _ => true | _ => false end.

Definition with_end (t : token) (e : nat) : token := mktok (mkspan (tstart t) e) (tkind_of t).

(* ================= condense_spaces ================= *)
(* the inner `loop`.  `cursor` is the value on entry (before `cursor += 1`); cnt / e are the start token's
   running count and span.end.  Answers (cursor at `break`, cnt, e, indices pushed).
   Quirk kept: after a merge the cursor is incremented twice, so the token after a merged child is never
   examined (neither as a child nor as a run start). *)
Fixpoint cs_inner (fuel : nat) (copy : list token) (cursor cnt e : nat) : res (nat * nat * nat * list nat) :=
  match fuel with
  | 0 => Panic PFuel
  | S f =>
      let cursor := cursor + 1 in
      match nth_error copy cursor with
      | None => Ok (cursor, cnt, e, [])
      | Some child =>
          if negb (e =? tstart child) then Ok (cursor, cnt, e, []) else
          match tkind_of child with
          | KSpace n =>
              do '(c', cnt', e', rm) <- cs_inner f copy (cursor + 1) (cnt + n) (tend child);
              Ok (c', cnt', e', cursor :: rm)
          | _ => Ok (cursor, cnt, e, [])
          end
      end
  end.

(* the outer `while cursor < len`.  Tokens before `cursor` are final; the token at `cursor` and after are
   still the original ones (`copy`), so the loop emits the updated vector front to back:
   answers (updated tokens from `cursor` on, queue). *)
Fixpoint cs_outer (fuel : nat) (copy : list token) (cursor : nat) : res (list token * list nat) :=
  match fuel with
  | 0 => Panic PFuel
  | S f =>
      match nth_error copy cursor with
      | None => Ok ([], [])
      | Some start =>
          match tkind_of start with
          | KSpace c =>
              do '(cur', cnt, e, rm) <- cs_inner (length copy) copy cursor c (tend start);
              (* tokens cursor+1 .. cur' are passed over unchanged; the loop resumes at cur'+1 *)
              let passed := slice copy (cursor + 1) (cur' + 1) in
              do '(rest, q) <- cs_outer f copy (cur' + 1);
              Ok (mktok (mkspan (tstart start) e) (KSpace cnt) :: passed ++ rest, rm ++ q)
          | _ =>
              do '(rest, q) <- cs_outer f copy (cursor + 1);
              Ok (start :: rest, q)
          end
      end
  end.

Definition condense_spaces (toks : list token) : res (list token) :=
  do '(upd, q) <- cs_outer (S (length toks)) toks 0;
  Ok (remove_indices 0 q upd).

(* ================= condense_newlines (as fixed by 4dbc66e: one increment per merged child) ================= *)
Fixpoint cn_inner (fuel : nat) (copy : list token) (cursor cnt e : nat) : res (nat * nat * nat * list nat) :=
  match fuel with
  | 0 => Panic PFuel
  | S f =>
      let cursor := cursor + 1 in
      match nth_error copy cursor with
      | None => Ok (cursor, cnt, e, [])
      | Some child =>
          match tkind_of child with
          | KNewline n =>
              do '(c', cnt', e', rm) <- cn_inner f copy cursor (cnt + n) (tend child);
              Ok (c', cnt', e', cursor :: rm)
          | _ => Ok (cursor, cnt, e, [])
          end
      end
  end.

Fixpoint cn_outer (fuel : nat) (copy : list token) (cursor : nat) : res (list token * list nat) :=
  match fuel with
  | 0 => Panic PFuel
  | S f =>
      match nth_error copy cursor with
      | None => Ok ([], [])
      | Some start =>
          match tkind_of start with
          | KNewline c =>
              do '(cur', cnt, e, rm) <- cn_inner (length copy) copy cursor c (tend start);
              let passed := slice copy (cursor + 1) (cur' + 1) in
              do '(rest, q) <- cn_outer f copy (cur' + 1);
              Ok (mktok (mkspan (tstart start) e) (KNewline cnt) :: passed ++ rest, rm ++ q)
          | _ =>
              do '(rest, q) <- cn_outer f copy (cursor + 1);
              Ok (start :: rest, q)
          end
      end
  end.

Definition condense_newlines (toks : list token) : res (list token) :=
  do '(upd, q) <- cn_outer (S (length toks)) toks 0;
  Ok (remove_indices 0 q upd).

(* ================= newlines_to_breaks ================= *)
Definition newline_to_break (t : token) : token :=
  match tkind_of t with
  | KNewline n => if 2 <=? n then mktok (tspan t) KParagraphBreak else t
  | _ => t
  end.
Definition newlines_to_breaks (toks : list token) : list token := map newline_to_break toks.

(* ================= patterns: the three fixed patterns, as their combinators evaluate them ================= *)
(* char::eq_ignore_ascii_case *)
Definition to_ascii_lower (c : N) : N := if is_ascii_upper c then (c + 32)%N else c.
Definition eq_ignore_ascii_case (a b : N) : bool := ceq (to_ascii_lower a) (to_ascii_lower b).
(* tok_chars.iter().zip(word).all(eq_ignore_ascii_case) *)
Fixpoint zip_all_eq_ic (a b : text) : bool :=
  match a, b with
  | x :: a', y :: b' => eq_ignore_ascii_case x y && zip_all_eq_ic a' b'
  | _, _ => true
  end.

(* SequencePattern [is_word; is_apostrophe; is_word] *)
Definition contraction_matches (src : text) (ts : list token) : res nat :=
  match ts with
  | a :: b :: c :: _ =>
      if is_word (tkind_of a) && is_apostrophe (tkind_of b) && is_word (tkind_of c) then Ok 3 else Ok 0
  | _ => Ok 0
  end.

(* RepeatingPattern (SequencePattern [is_period]) 2 *)
Definition ellipsis_matches (src : text) (ts : list token) : res nat :=
  let k := count_while (fun t => is_period (tkind_of t)) ts in
  if ellipsis_min_repetitions <=? k then Ok k else Ok 0.

(* WordSet::matches on the first token *)
Definition wordset_matches (words : list text) (src : text) (ts : list token) : res nat :=
  match ts with
  | [] => Ok 0
  | tok :: _ =>
      if negb (is_word (tkind_of tok)) then Ok 0 else
      do chars <- get_content (tspan tok) src;
      Ok (if existsb (fun w => (length chars =? length w) && zip_all_eq_ic chars w) words then 1 else 0)
  end.

(* AnyCapitalization::matches on the first token *)
Definition anycap_matches (w : text) (src : text) (ts : list token) : res nat :=
  match ts with
  | [] => Ok 0
  | tok :: _ =>
      if negb (is_word (tkind_of tok)) then Ok 0 else
      do l <- span_len (tspan tok);
      if negb (l =? length w) then Ok 0 else
      do chars <- get_content (tspan tok) src;
      Ok (if zip_all_eq_ic chars w then 1 else 0)
  end.

Definition period_matches (ts : list token) : nat :=
  match ts with tok :: _ => if is_period (tkind_of tok) then 1 else 0 | [] => 0 end.

(* EitherPattern [ Seq [WordSet{etc,vs}; period] ; Seq [aco "et"; Whitespace; aco "al"; period] ]:
   both alternatives are evaluated, the longer match wins *)
Definition latin_alt1 (src : text) (ts : list token) : res nat :=
  do n <- wordset_matches latin_wordset src ts;
  if n =? 0 then Ok 0 else
  if period_matches (skipn 1 ts) =? 0 then Ok 0 else Ok 2.

Definition latin_alt2 (src : text) (ts : list token) : res nat :=
  do n <- anycap_matches latin_first src ts;
  if n =? 0 then Ok 0 else
  let w := count_while (fun t => is_whitespace_kind (tkind_of t)) (skipn 1 ts) in
  if w =? 0 then Ok 0 else
  do m <- anycap_matches latin_second src (skipn (1 + w) ts);
  if m =? 0 then Ok 0 else
  if period_matches (skipn (2 + w) ts) =? 0 then Ok 0 else Ok (3 + w).

Definition latin_matches (src : text) (ts : list token) : res nat :=
  do a <- latin_alt1 src ts;
  do b <- latin_alt2 src ts;
  Ok (Nat.max a b).

(* ---------- PatternExt::find_all_matches ---------- *)
Fixpoint fam_scan (m : list token -> res nat) (ts : list token) (i : nat) : res (list span) :=
  match ts with
  | [] => Ok []
  | _ :: t =>
      do len <- m ts;
      do rest <- fam_scan m t (S i);
      Ok (if len =? 0 then rest else mkspan i (i + len) :: rest)
  end.

(* for i in 0..found.len()-1 { if found[i].overlaps_with(found[i+1]) { push i+1 } } — each match is compared
   with its ORIGINAL predecessor, also when that predecessor is itself being removed *)
Fixpoint overlap_idx (found : list span) (i : nat) : list nat :=
  match found with
  | a :: ((b :: _) as t) => if overlaps a b then S i :: overlap_idx t (S i) else overlap_idx t (S i)
  | _ => []
  end.

Definition find_all_matches (m : list token -> res nat) (ts : list token) : res (list span) :=
  do found <- fam_scan m ts 0;
  Ok (remove_indices 0 (overlap_idx found 0) found).

(* ---------- TokenStringExt::span: min and max over all starts and ends ---------- *)
Definition hull (ts : list token) : res span :=
  match ts with
  | [] => Panic PUnwrap
  | t :: r =>
      let lo := fold_left (fun m x => Nat.min m (Nat.min (tstart x) (tend x))) r (Nat.min (tstart t) (tend t)) in
      let hi := fold_left (fun m x => Nat.max m (Nat.max (tstart x) (tend x))) r (Nat.max (tstart t) (tend t)) in
      span_new lo hi
  end.

(* ---------- condense_pattern ---------- *)
Fixpoint cp_apply (edit : tkind -> tkind) (ms : list span) (toks : list token) : res (list token * list nat) :=
  match ms with
  | [] => Ok (toks, [])
  | m :: ms' =>
      do sl <- slice_chk toks (sstart m) (send m);
      do h <- hull sl;
      do t0 <- nth_chk toks (sstart m);
      do toks1 <- set_nth toks (sstart m) (mktok h (edit (tkind_of t0)));
      do '(toksF, q) <- cp_apply edit ms' toks1;
      Ok (toksF, seq (sstart m + 1) (send m - (sstart m + 1)) ++ q)
  end.

Definition condense_pattern (m : list token -> res nat) (edit : tkind -> tkind) (toks : list token)
  : res (list token) :=
  do ms <- find_all_matches m toks;
  do '(upd, q) <- cp_apply edit ms toks;
  Ok (remove_indices 0 q upd).

Definition condense_contractions (src : text) (toks : list token) : res (list token) :=
  condense_pattern (contraction_matches src) (fun k => k) toks.
Definition condense_ellipsis (src : text) (toks : list token) : res (list token) :=
  condense_pattern (ellipsis_matches src) (fun _ => KPunct PEllipsis) toks.
Definition condense_latin (src : text) (toks : list token) : res (list token) :=
  condense_pattern (latin_matches src) (fun k => k) toks.

(* ================= condense_dotted_initialisms (as fixed by 1c2b263 and 9571d19) ================= *)
(* qrev is to_remove in reverse (push_back = cons, pop_back = tl, back = hd) *)
Fixpoint di_loop (fuel : nat) (toks : list token) (cursor : nat) (start : option nat) (qrev : list nat)
  : res (list token * option nat * list nat) :=
  match fuel with
  | 0 => Panic PFuel
  | S f =>
      if length toks <=? cursor then Ok (toks, start, qrev) else
      do cm1 <- sub_chk cursor 1;
      do a <- nth_chk toks cm1;
      do b <- nth_chk toks cursor;
      do chunk <- (if is_word (tkind_of a) then
                     do l <- span_len (tspan a);
                     Ok ((l =? 1) && is_period (tkind_of b))
                   else Ok false);
      if chunk then
        let '(start', q1) := match start with
                             | None => (Some cm1, qrev)
                             | Some _ => (start, cm1 :: qrev)
                             end in
        di_loop f toks (cursor + 1 + 1) start' (cursor :: q1)
      else
        do '(toks', q') <-
           match start with
           | Some s =>
               do c2 <- sub_chk cursor 2;
               if c2 =? s + 1 then Ok (toks, tl qrev)          (* a lone letter + period: pop_back *)
               else
                 do et <- nth_chk toks c2;
                 do st <- nth_chk toks s;
                 do toks1 <- set_nth toks s (with_end st (tend et));
                 Ok (toks1, qrev)
           | None => Ok (toks, qrev)
           end;
        di_loop f toks' (cursor + 1) None q'
  end.

Definition condense_dotted_initialisms (toks : list token) : res (list token) :=
  if length toks <? 2 then Ok toks else
  do '(toks1, start, qrev) <- di_loop (length toks) toks 1 None [];
  do '(toks2, qrev2) <-
     match start, qrev with
     | Some s, last :: _ =>
         if last =? s + 1 then Ok (toks1, tl qrev)
         else
           do lt <- nth_chk toks1 last;
           do st <- nth_chk toks1 s;
           do t' <- set_nth toks1 s (with_end st (tend lt));
           Ok (t', qrev)
     | _, _ => Ok (toks1, qrev)
     end;
  Ok (remove_indices 0 (rev qrev2) toks2).

(* ================= condense_number_suffixes + condense_indices ================= *)
Definition set_suffix (k : tkind) (s : num_suffix) : res tkind :=
  match k with
  | KNumber n => Ok (KNumber (mknumber (n_neg n) (n_mant n) (n_exp10 n) (Some s) (n_radix n) (n_precision n)))
  | _ => Panic PUnwrap                                   (* as_mut_number().unwrap() *)
  end.

(* NumberSuffix::from_chars *)
Definition suffix_of_chars (cs : text) : option num_suffix :=
  match cs with a :: b :: _ => suffix_from_chars a b | _ => None end.

(* for idx in 0..len-1 : answers the updated tokens and replace_starts *)
Fixpoint ns_loop (src : text) (n : nat) (idx : nat) (toks : list token) : res (list token * list nat) :=
  match n with
  | 0 => Ok (toks, [])
  | S n' =>
      do b <- nth_chk toks (idx + 1);
      do a <- nth_chk toks idx;
      if is_number (tkind_of a) && is_word (tkind_of b) then
        do bl <- span_len (tspan b);
        if negb (bl =? 2) then ns_loop src n' (S idx) toks else
        do cs <- get_content (tspan b) src;
        match suffix_of_chars cs with
        | Some sfx =>
            do k' <- set_suffix (tkind_of a) sfx;
            do toks1 <- set_nth toks idx (mktok (tspan a) k');
            do '(toksF, starts) <- ns_loop src n' (S idx) toks1;
            Ok (toksF, idx :: starts)
        | None => ns_loop src n' (S idx) toks
        end
      else ns_loop src n' (S idx) toks
  end.

(* "Update spans" loop of condense_indices *)
Fixpoint ci_update (stretch_len : nat) (indices : list nat) (toks : list token) : res (list token) :=
  match indices with
  | [] => Ok toks
  | idx :: r =>
      do ei <- sub_chk (idx + stretch_len) 1;
      do et <- nth_chk toks ei;
      do st <- nth_chk toks idx;
      do toks1 <- set_nth toks idx (with_end st (tend et));
      ci_update stretch_len r toks1
  end.

(* the peekable loop: push old[a]; if there is a next index b, extend old[a+stretch_len .. b] *)
Fixpoint ci_chunks (stretch_len : nat) (old : list token) (indices : list nat) : res (list token) :=
  match indices with
  | [] => Ok []
  | a :: r =>
      do ta <- nth_chk old a;
      match r with
      | b :: _ =>
          do sl <- slice_chk old (a + stretch_len) b;
          do rest <- ci_chunks stretch_len old r;
          Ok (ta :: sl ++ rest)
      | [] => Ok [ta]
      end
  end.

Definition condense_indices (indices : list nat) (stretch_len : nat) (toks : list token) : res (list token) :=
  do old <- ci_update stretch_len indices toks;
  do first <- slice_chk old 0 (match indices with i :: _ => i | [] => length indices end);
  do mid <- ci_chunks stretch_len old indices;
  do lastc <- (let from := match rev indices with v :: _ => v + stretch_len | [] => length indices end in
               slice_chk old from (length old));
  Ok (first ++ mid ++ lastc).

Definition condense_number_suffixes (src : text) (toks : list token) : res (list token) :=
  if length toks <? 2 then Ok toks else
  do '(toks1, starts) <- ns_loop src (length toks - 1) 0 toks;
  condense_indices starts 2 toks1.

(* ================= match_quotes ================= *)
Fixpoint quote_indices (toks : list token) (i : nat) : list nat :=
  match toks with
  | [] => []
  | t :: r => if is_quote (tkind_of t) then i :: quote_indices r (S i) else quote_indices r (S i)
  end.

Definition set_twin (toks : list token) (i twin : nat) : res (list token) :=
  do t <- nth_chk toks i;
  match tkind_of t with
  | KPunct (PQuote _) => set_nth toks i (mktok (tspan t) (KPunct (PQuote (Some twin))))
  | _ => Panic PUnwrap                                   (* as_mut_quote().unwrap() *)
  end.

(* for i in 0..quote_indices.len()/2 : pairs (qi[2i], qi[2i+1]) *)
Fixpoint mq_loop (qi : list nat) (toks : list token) : res (list token) :=
  match qi with
  | a :: b :: r =>
      do t1 <- set_twin toks a b;
      do t2 <- set_twin t1 b a;
      mq_loop r t2
  | _ => Ok toks
  end.

Definition match_quotes (toks : list token) : res (list token) := mq_loop (quote_indices toks 0) toks.

(* ================= the dictionary look-up loop that ends Document::parse ================= *)
(* only its panic behaviour is modelled: `token.span.get_content(&self.source)` for every Word token *)
Fixpoint word_lookup_check (src : text) (toks : list token) : res unit :=
  match toks with
  | [] => Ok tt
  | t :: r =>
      if is_word (tkind_of t) then
        do _ <- get_content (tspan t) src;
        word_lookup_check src r
      else word_lookup_check src r
  end.

(* ================= Document::parse (span/kind part) ================= *)
Definition document_passes (src : text) (toks : list token) : res (list token) :=
  do t1 <- condense_spaces toks;
  do t2 <- condense_newlines t1;
  let t3 := newlines_to_breaks t2 in
  do t4 <- condense_number_suffixes src t3;
  do t5 <- condense_contractions src t4;
  do t6 <- condense_dotted_initialisms t5;
  do t7 <- condense_ellipsis src t6;
  do t8 <- condense_latin src t7;
  do t9 <- match_quotes t8;
  do _ <- word_lookup_check src t9;
  Ok t9.

(* Document::new_plain_english(text).get_tokens() *)
Definition document_plain (u : uni) (s : text) : res (list token) :=
  do toks <- plain_parse u s;
  document_passes s toks.
