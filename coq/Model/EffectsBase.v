(* EffectsBase.v — vocabulary shared by the GENERATED effect tables (Tables_effects.v) and the hand-written
   checkers over them (Effects.v).  C10.  No proofs here. *)
From Coq Require Import List String Bool.
Import ListNotations.
Open Scope string_scope.

(* a package of Cargo.lock: (name, version) *)
Definition pkg := (string * string)%type.
Definition pkg_eqb (a b : pkg) : bool := String.eqb (fst a) (fst b) && String.eqb (snd a) (snd b).

(* effect class of a third-party crate (tools/crate_effects.toml):  pure < fs < process < net-capable-runtime < net-client *)
Inductive eclass := CPure | CFs | CProcess | CNetRuntime | CNetClient.

(* kind of an OS-effect API mention in workspace sources *)
Inductive skind :=
| KNetImport     (* `use` of std::net / tokio::net / a socket or HTTP crate *)
| KNet           (* socket type, constructor, resolver or socket-method call *)
| KFsImport      (* `use` of OpenOptions / DirBuilder / tempfile / a writing fs function *)
| KFsWrite       (* File::create, OpenOptions…open, fs::write/remove*/rename/copy/create_dir*, temp files *)
| KProcImport
| KProcess       (* std::process::Command, open::that … *)
| KWrapperCall   (* a call of a workspace fn that contains a KFsWrite site; arg = its first argument *)
| KPathFn        (* tail expression of a `self.helper(…)` that such a call passes as the path *)
| KLocal.        (* how a local variable that a path argument above mentions is computed inside that fn:
                    api = "let x" / "let Some(x)" / "let (x,y)" with arg = the bound expression (every binding, shadowing
                    included), api = "x.method" with arg = the arguments for a statement `x.method(…);` (in-place
                    mutation, e.g. tmp_name.push(".tmp")), api = "x =" / "x +=" for assignments; transitive *)

Record site := mksite {
  s_file : string;   (* path relative to /repo *)
  s_fn   : string;   (* innermost enclosing fn, "<module>" outside any *)
  s_kind : skind;
  s_api  : string;   (* callee as written (whitespace-normalised); receiver.method for method calls *)
  s_arg  : string;   (* argument list as written; for OpenOptions the argument of the closing .open( *)
  s_bind : string;   (* what a bare-identifier argument / receiver was `let`-bound to in that fn, "" if none *)
  s_arm  : string    (* string literal of the enclosing `"lit" =>` match arm, "" if none *)
}.

Definition skind_eqb (a b : skind) : bool :=
  match a, b with
  | KNetImport, KNetImport | KNet, KNet | KFsImport, KFsImport | KFsWrite, KFsWrite
  | KProcImport, KProcImport | KProcess, KProcess | KWrapperCall, KWrapperCall | KPathFn, KPathFn
  | KLocal, KLocal => true
  | _, _ => false
  end.

Definition site_eqb (a b : site) : bool :=
  String.eqb (s_file a) (s_file b) && String.eqb (s_fn a) (s_fn b) && skind_eqb (s_kind a) (s_kind b) &&
  String.eqb (s_api a) (s_api b) && String.eqb (s_arg a) (s_arg b) && String.eqb (s_bind a) (s_bind b) &&
  String.eqb (s_arm a) (s_arm b).
