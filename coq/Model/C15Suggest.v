(* C15Suggest.v — harper-core/src/spell/mod.rs: score_suggestion, order_suggestions,
   suggest_correct_spelling, as written.  No proofs here.

   The code as it is NOW makes ONE call of Dictionary::fuzzy_match(misspelled_word, max_edit_dist,
   result_limit) (no loop over growing distances, no filtering) and re-orders what comes back with a
   STABLE sort (`Vec::sort_by_key`) on an i32 score; the cap is the dictionary's (max_results).
   * i32 arithmetic: edit_distance is a u8, so the score lies in [-25, 2550] or is i32::MAX — no i32
     operation can overflow (score_range, Proofs/C15SuggestProofs.v); the model computes in Z.
   * WordMetadata is opaque in DictModel (a tag); the one field read here, `metadata.common`, is the
     Section variable `is_common` (the harness dumps the field for every tag it interns: `O` lines).
   * `misspelled_word` is used RAW (not normalised) by score_suggestion: the first-letter and the
     plural-'s' heuristics compare the characters the user typed. *)
Require Import Base EditDistance DictModel Fuzzy.
From Coq Require Import ZArith.

Definition i32_max : Z := 2147483647%Z.
Definition ch_apostrophe : char := 39%N.       (* '\'' *)
Definition ch_s : char := 115%N.               (* 's' *)

Section Suggest.
  Variable is_common : meta -> bool.           (* WordMetadata::common *)

  (* sug.word.iter().filter(|c| **c == '\'').count() *)
  Definition count_apostrophes (w : text) : nat := length (filter (N.eqb ch_apostrophe) w).

  (* score_suggestion: lower = better *)
  Definition score_suggestion (mw : text) (sug : fres) : Z :=
    match mw, r_word sug with
    | [], _ => i32_max                                             (* misspelled_word.is_empty() *)
    | _ :: _, [] => i32_max                                        (* sug.word.is_empty() *)
    | m0 :: _, s0 :: _ =>
        let score := (Z.of_nat (r_dist sug) * 10)%Z in             (* sug.edit_distance as i32 * 10 *)
        let score := if N.eqb m0 s0 then (score - 10)%Z else score in
        let score := if N.eqb (last mw 0%N) ch_s && N.eqb (last (r_word sug) 0%N) ch_s
                     then (score - 5)%Z else score in
        let score := if is_common (r_meta sug) then (score - 5)%Z else score in
        let score := if count_apostrophes (r_word sug) =? 1 then (score - 5)%Z else score in
        score
    end.

  Definition score_le (mw : text) (a b : fres) : bool :=
    (score_suggestion mw a <=? score_suggestion mw b)%Z.

  (* order_suggestions: matches.sort_by_key(|v| score_suggestion(misspelled_word, v)) — a STABLE sort (its
     outcome is unique: DictModel.isort places an element in front of the first element it is <= to, i.e.
     in front of its equals that came later) — then .map(|v| v.word) *)
  Definition order_suggestions (mw : text) (matches : list fres) : list text :=
    map r_word (isort (score_le mw) matches).

  (* suggest_correct_spelling(misspelled_word, result_limit, max_edit_dist, dictionary); lq is
     String::to_lowercase of the normalised word (std's, supplied by the caller; only an FstDictionary
     looks at it) *)
  Definition suggest (c : dict_ops) (mw lq : text) (result_limit max_edit_dist : nat) : res (list text) :=
    do matches <- d_fuzzy c mw lq max_edit_dist result_limit;
    Ok (order_suggestions mw matches).
End Suggest.
