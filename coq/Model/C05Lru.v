(* C05Lru.v — SpellCheck.word_cache as the `lru` crate implements it (harper-core/src/linting/spell_check.rs:
   LruCache<CharString, Vec<CharString>>, capacity NonZero 10000), CONCRETELY: a recency-ordered list, most
   recently used first.
     get(k)    : a hit moves the entry to the front (promotion) and returns its value
     put(k, v) : an existing key gets the new value and moves to the front; a new key is inserted at the
                 front after the least recently used entry (the last one) was popped when len == cap
   and cached_suggest_correct_spelling / SpellCheck::lint's word loop over it.  Model/Cache.v covers the same
   cache by an adversary that may drop any entries before any lookup; here the replacement policy is the real
   one, so that hit/miss patterns WITH eviction can be compared with the implementation.
   No proofs here (Proofs/C05LruProofs.v). *)
Require Import Base Cache.

Section Lru.
  Context {K V : Type}.
  Variable eqb : K -> K -> bool.
  Definition lru_get (k : K) (m : list (K * V)) : option V * list (K * V) :=
    match lookup eqb k m with
    | Some v => (Some v, (k, v) :: remove_key eqb k m)
    | None => (None, m)
    end.
  Definition lru_put (cap : nat) (k : K) (v : V) (m : list (K * V)) : list (K * V) :=
    match lookup eqb k m with
    | Some _ => (k, v) :: remove_key eqb k m
    | None => (k, v) :: (if cap <=? length m then removelast m else m)
    end.
End Lru.

Section SpellLru.
  (* the uncached body of cached_suggest_correct_spelling: a function of the word — the dictionary and the
     dialect are fields of the SpellCheck instance, fixed for its lifetime [monitor spell_fun] *)
  Variable suggest : text -> list text.
  Variable spell_mk : text -> span -> list text -> clint.
  Variable cap : nat.

  Definition lru_suggest (w : text) (sm : list (text * list text)) : list (text * list text) * list text * bool :=
    match lru_get text_eqb w sm with
    | (Some v, sm1) => (sm1, v, true)                                       (* return hit.clone() *)
    | (None, sm1) => let v := suggest w in (lru_put text_eqb cap w v sm1, v, false)
    end.
  (* SpellCheck::lint over the words it does not accept; flags: hit (true) / miss per word *)
  Fixpoint lru_lint_words (ws : list (span * text)) (sm : list (text * list text))
    : list (text * list text) * list clint * list bool :=
    match ws with
    | [] => (sm, [], [])
    | (sp, w) :: rest =>
        let '(sm2, sug, hit) := lru_suggest w sm in
        let '(sm3, out, hits) := lru_lint_words rest sm2 in
        (sm3, spell_mk w sp sug :: out, hit :: hits)
    end.
  (* a long-lived SpellCheck: one document after the other *)
  Fixpoint lru_run (docs : list (list (span * text))) (sm : list (text * list text)) : list (list clint) :=
    match docs with
    | [] => []
    | ws :: t => let '(sm', out, _) := lru_lint_words ws sm in out :: lru_run t sm'
    end.
End SpellLru.

(* driver entry point (extracted) *)
Definition drv_lru_words (cap : nat) (suggest : text -> list text) (ws : list (span * text)) (sm : list (text * list text)) :=
  lru_lint_words suggest drv_spell_mk cap ws sm.
