(* PatternImpls.v — the names of the `impl … Pattern for <T>` sites that Model/Pattern.v models (one
   constructor family each).  Proofs/PatternProofs.v compares this list with the table regenerated
   from /repo on every run (Tables_patterns.v): an impl site the model does not know, or one outside
   harper-core/src/patterns/, breaks the theorem C01_pattern_impls_covered. *)
From Coq Require Import List String.
Import ListNotations.
Open Scope string_scope.

Definition known_pattern_impls : list string :=
  [ "F"; "AnyPattern"; "WhitespacePattern"; "AnyCapitalization"; "WordSet"; "WithinEditDistance";
    "ImpliesQuantity"; "NominalPhrase"; "SequencePattern"; "EitherPattern"; "All"; "NaivePatternGroup";
    "PatternMap<T>"; "RepeatingPattern"; "Invert"; "ConsumesRemainingPattern"; "IsNotTitleCase<D>";
    "ExactPhrase"; "IndefiniteArticle"; "SimilarToPhrase"; "SplitCompoundWord"; "TokenKindPatternGroup";
    "WordPatternGroup<P>" ].

