(* DictIO.v — model of the user / file dictionary life cycle of harper-ls and harper-wasm.
     harper-ls/src/dictionary_io.rs   save_dict, write_word_list, load_dict, dict_from_word_list, file_dict_name
     harper-ls/src/backend.rs         load_user_dictionary, load_file_dictionary, execute_command
                                      (HarperAddToUserDict / HarperAddToFileDict), generate_file_dictionary
     harper-core/src/spell/           WordId, WordMap, MutableDictionary, MergedDictionary
     harper-core/src/linting/spell_check.rs   the accept / report decision for one Word token
     harper-wasm/src/lib.rs           import_words, synchronize_lint_dict, export_words
   No proofs here.  Conventions: char = N, word = list N, hashes (WordId, child hashes) are the identity on
   the hashed value, hash-map iteration order is an arbitrary permutation (Section variable).
   File contents are modelled at the level of characters plus a flag: `Torn t` is a file whose bytes are
   the UTF-8 encoding of t followed by an incomplete multi-byte sequence (only a crash can produce it);
   tokio's read_to_string fails on it with InvalidData.
   State of the code modelled: /repo after the fix commits 87b8642 (save_dict = temporary sibling + flush +
   sync_all + rename), ebb53b3 (contains_exact_word compares normalised spellings), f2dc537 (child hash =
   sum of per-word hashes), ba0a239 (import_words re-synchronises whenever the dictionary changed),
   08b9da8 (file_dict_name fails for a URL that names no file), cfbe845 (the add commands load, extend and
   save under one lock).
   The definitions named `..._old` are the code BEFORE those commits; they are kept only for the
   regression witnesses (`C07_*_old_refuted`) and are not part of the extracted model. *)
Require Import Base.
From Coq Require Import Permutation.

Definition word := list N.

Fixpoint weqb (a b : word) : bool :=
  match a, b with
  | [], [] => true
  | x :: a', y :: b' => N.eqb x y && weqb a' b'
  | _, _ => false
  end.

Definition LF : N := 10%N.
Definition CR : N := 13%N.
Definition PCT : N := 37%N.      (* '%' *)
Definition SLASH : N := 47%N.    (* '/' *)
Definition DOT : N := 46%N.

(* ---------------------------------------------------------------------------------------------- *)
(*  str::lines()  (Rust >= 1.77): split_inclusive('\n'); a piece that ended in LF loses the LF and  *)
(*  then one CR before it; the last piece without LF is kept as it is; no empty last piece           *)
(* ---------------------------------------------------------------------------------------------- *)
Definition strip_cr (l : word) : word :=
  match rev l with
  | c :: r => if N.eqb c CR then rev r else l
  | [] => l
  end.

Fixpoint lines_go (acc : word) (t : text) : list word :=
  match t with
  | [] => match acc with [] => [] | _ => [acc] end
  | c :: t' => if N.eqb c LF then strip_cr acc :: lines_go [] t' else lines_go (acc ++ [c]) t'
  end.
Definition lines (t : text) : list word := lines_go [] t.

(* write_word_list: every word followed by LF *)
Definition serialize (ws : list word) : text := flat_map (fun w => w ++ [LF]) ws.

(* a word that survives being written as a line: no LF inside, no CR at the end *)
Definition line_safeb (w : word) : bool :=
  negb (existsb (fun c => N.eqb c LF) w) && match rev w with c :: _ => negb (N.eqb c CR) | [] => true end.
Definition line_safe (w : word) : Prop := line_safeb w = true.

(* ---------------------------------------------------------------------------------------------- *)
(*  char_string.rs: normalized, to_lower;  word_id.rs                                               *)
(* ---------------------------------------------------------------------------------------------- *)
(* fn char_to_normalized: U+2019, U+2018, U+FF07 -> U+0027 *)
Definition norm_char (c : N) : N :=
  if N.eqb c 8217 || N.eqb c 8216 || N.eqb c 65287 then 39%N else c.
Definition normalized (w : word) : word :=
  if existsb (fun c => negb (N.eqb (norm_char c) c)) w then map norm_char w else w.

(* a dictionary entry: canonical spelling and "metadata.dialect.is_none_or(|d| d == dialect)" for the
   dialect the linter was built with (always true for user / file entries: WordMetadata::default()) *)
Definition entry := (word * bool)%type.
(* WordMap: HashMap<WordId, WordMapEntry>; the key is kept un-hashed *)
Definition dict := list (word * entry).

Fixpoint lookup (k : word) (d : dict) : option entry :=
  match d with
  | [] => None
  | (k', e) :: t => if weqb k k' then Some e else lookup k t
  end.
(* HashMap::insert: replaces the value of an existing key *)
Fixpoint insert (k : word) (e : entry) (d : dict) : dict :=
  match d with
  | [] => [(k, e)]
  | (k', e') :: t => if weqb k k' then (k, e) :: t else (k', e') :: insert k e t
  end.

(* multiset equality of two word lists (decides Permutation: DictIOProofs.perm_ofb_spec) *)
Fixpoint remove_one (w : word) (l : list word) : option (list word) :=
  match l with
  | [] => None
  | x :: r => if weqb w x then Some r else match remove_one w r with Some r' => Some (x :: r') | None => None end
  end.
Fixpoint perm_ofb (a b : list word) : bool :=
  match a with
  | [] => match b with [] => true | _ => false end
  | x :: a' => match remove_one x b with Some b' => perm_ofb a' b' | None => false end
  end.

Section Model.
  Variable is_lower : N -> bool.              (* char::is_lowercase *)
  Variable lower : N -> list N.               (* char::to_lowercase *)
  Variable curated : dict.                    (* FstDictionary::curated() (a MutableDictionary inside) *)
  Variable iter_order : list word -> list word.   (* order in which a hash map yields its values *)

  (* CharStringExt::to_lower *)
  Definition to_lower (w : word) : word :=
    if forallb is_lower w then w else flat_map lower w.

  (* WordId::from_word_chars: hash_one(normalized.to_lower()) *)
  Definition word_id (w : word) : word := to_lower (normalized w).

  (* WordMap::insert via MutableDictionary::append_word(word, WordMetadata::default()) *)
  Definition append_word (d : dict) (w : word) : dict := insert (word_id w) (w, true) d.
  Definition extend_words (d : dict) (ws : list word) : dict := fold_left append_word ws d.

  (* words_iter: canonical spellings, in hash-map order *)
  Definition words_of (d : dict) : list word := map (fun kv => fst (snd kv)) d.
  Definition words_iter (d : dict) : list word := iter_order (words_of d).

  (* MergedDictionary::hash_dictionary: hash_one of every word on its own, the hashes added up
     (wrapping_add).  hash_one is modelled as the identity and the sum as the MULTISET of the words hashed
     (no collisions): two children have the same hash iff their word lists are permutations of each other.
     update_document rebuilds the linter of an open document when the list of child hashes differs. *)
  Definition child_words (d : dict) : list word := words_iter d.
  Definition child_hash_eqb (a b : list word) : bool := perm_ofb a b.
  (* before f2dc537: the characters of every word, in iteration order, WITHOUT a separator, fed to one hasher *)
  Definition child_stream_old (d : dict) : list N := concat (words_iter d).

  (* dict_from_word_list *)
  Definition dict_from_word_list (t : text) : dict := extend_words [] (lines t).

  (* MutableDictionary::get_word_metadata / contains_exact_word *)
  Definition get_meta (d : dict) (w : word) : option entry := lookup (word_id w) d.
  (* the stored spelling is compared in normalised form too (ebb53b3) *)
  Definition contains_exact_word (d : dict) (w : word) : bool :=
    let n := normalized w in
    match lookup (word_id n) d with
    | Some e => weqb (normalized (fst e)) n
    | None => false
    end.

  (* MergedDictionary over its children, first child first *)
  Fixpoint m_get_meta (cs : list dict) (w : word) : option entry :=
    match cs with
    | [] => None
    | d :: r => match get_meta d w with Some e => Some e | None => m_get_meta r w end
    end.
  Definition m_contains_exact (cs : list dict) (w : word) : bool :=
    existsb (fun d => contains_exact_word d w) cs.

  (* SpellCheck::lint for one Word token whose text is t, in a document built with the same dictionary:
     the token carries dictionary.get_word_metadata(t); it is passed over when it has metadata of the
     right dialect and its exact or lower-cased spelling is known *)
  Definition accepted (cs : list dict) (t : word) : bool :=
    match m_get_meta cs t with
    | Some e => snd e && (m_contains_exact cs t || m_contains_exact cs (to_lower t))
    | None => false
    end.

  (* -------------------------------------------------------------------------------------------- *)
  (*  the file system                                                                               *)
  (* -------------------------------------------------------------------------------------------- *)
  Inductive content := Clean (t : text) | Torn (t : text).

  (* the user dictionary, the dictionary of one file (named by file_dict_name), a temporary sibling *)
  Inductive path := UserP | FileP (name : list N) | TmpP (p : path).
  Definition is_tmp (p : path) : bool := match p with TmpP _ => true | _ => false end.
  Inductive dpath := DUser | DFile.
  Fixpoint parent (p : path) : dpath :=
    match p with UserP => DUser | FileP _ => DFile | TmpP q => parent q end.

  Fixpoint path_eqb (a b : path) : bool :=
    match a, b with
    | UserP, UserP => true
    | FileP n, FileP m => weqb n m
    | TmpP p, TmpP q => path_eqb p q
    | _, _ => false
    end.
  Definition dpath_eqb (a b : dpath) : bool :=
    match a, b with DUser, DUser => true | DFile, DFile => true | _, _ => false end.

  Record fsys := mkfs { dirs : list dpath; files : list (path * content) }.
  Definition fs_empty : fsys := mkfs [] [].

  Fixpoint assoc (p : path) (l : list (path * content)) : option content :=
    match l with
    | [] => None
    | (q, c) :: t => if path_eqb p q then Some c else assoc p t
    end.
  Fixpoint assoc_set (p : path) (c : content) (l : list (path * content)) : list (path * content) :=
    match l with
    | [] => [(p, c)]
    | (q, c') :: t => if path_eqb p q then (p, c) :: t else (q, c') :: assoc_set p c t
    end.
  Fixpoint assoc_del (p : path) (l : list (path * content)) : list (path * content) :=
    match l with
    | [] => []
    | (q, c') :: t => if path_eqb p q then assoc_del p t else (q, c') :: assoc_del p t
    end.

  Definition fs_read (p : path) (s : fsys) : option content := assoc p (files s).
  Definition fs_write (p : path) (c : content) (s : fsys) : fsys := mkfs (dirs s) (assoc_set p c (files s)).
  Definition has_dir (d : dpath) (s : fsys) : bool := existsb (dpath_eqb d) (dirs s).

  (* load_dict: File::open + read_to_string (an io error is None) + dict_from_word_list *)
  Definition load_dict (p : path) (s : fsys) : option dict :=
    match fs_read p s with
    | Some (Clean t) => Some (dict_from_word_list t)
    | Some (Torn _) => None
    | None => None
    end.
  (* load_user_dictionary / load_file_dictionary: an error becomes the empty dictionary *)
  Definition dict_at (p : path) (s : fsys) : dict :=
    match load_dict p s with Some d => d | None => [] end.

  (* -------------------------------------------------------------------------------------------- *)
  (*  primitive effects of a save; a running save = file system + bytes handed to the BufWriter     *)
  (*  of the open file that have not reached the file yet                                           *)
  (* -------------------------------------------------------------------------------------------- *)
  Inductive effect :=
  | EMkdir (d : dpath)                 (* fs::create_dir_all(parent) *)
  | ECreate (p : path)                 (* File::create: O_CREAT|O_TRUNC; needs the parent directory *)
  | EWrite (p : path) (b : text)       (* write_all into the BufWriter *)
  | EFlush (p : path)                  (* BufWriter::flush: everything handed over is in the file *)
  | ESync (p : path)                   (* File::sync_all: nothing changes for a process crash (the bytes are already
                                          in the file as other processes see it) *)
  | ERename (a b : path).              (* fs::rename: atomic replacement *)

  Definition sstate := (fsys * text)%type.          (* (disk, pending bytes of the open file) *)

  Definition app_content (c : option content) (b : text) : content :=
    match c with
    | Some (Clean t) => Clean (t ++ b)
    | Some (Torn t) => Torn t                        (* never happens: the file was just created *)
    | None => Clean b
    end.

  (* None = the operation returned Err: `?` leaves save_dict, nothing else happens *)
  Definition step (st : sstate) (e : effect) : option sstate :=
    let (s, buf) := st in
    match e with
    | EMkdir d => Some (mkfs (if has_dir d s then dirs s else d :: dirs s) (files s), buf)
    | ECreate p => if has_dir (parent p) s then Some (fs_write p (Clean []) s, []) else None
    | EWrite _ b => Some (s, buf ++ b)
    | EFlush p => Some (fs_write p (app_content (fs_read p s) buf) s, [])
    | ESync _ => Some (s, buf)
    | ERename a b =>
        match fs_read a s with
        | Some c => Some (mkfs (dirs s) (assoc_set b c (assoc_del a (files s))), buf)
        | None => None
        end
    end.

  (* the path the pending bytes belong to: the file of the last ECreate *)
  (* what a crash can leave behind when `buf` is pending for file p: the disk content followed by ANY
     prefix of buf — whole characters (Clean) or whole characters plus a cut multi-byte one (Torn) *)
  Fixpoint prefix_variants (done_ : text) (rest : text) : list content :=
    match rest with
    | [] => [Clean done_]
    | c :: r => Clean done_ :: (if (c <? 128)%N then [] else [Torn done_]) ++ prefix_variants (done_ ++ [c]) r
    end.

  Definition crash_variants (open : option path) (st : sstate) : list fsys :=
    let (s, buf) := st in
    match open, buf with
    | Some p, _ :: _ =>
        match fs_read p s with
        | Some (Clean t) => map (fun c => fs_write p c s) (prefix_variants t buf)
        | _ => [s]
        end
    | _, _ => [s]
    end.

  Definition open_after (open : option path) (e : effect) : option path :=
    match e with ECreate p => Some p | _ => open end.

  (* every file system a crash (kill / power loss) can leave: after 0, 1, ... all effects, with any
     prefix of the pending bytes persisted.  An effect that fails ends the save without a crash. *)
  Fixpoint crash_states (open : option path) (st : sstate) (effs : list effect) : list fsys :=
    crash_variants open st ++
    match effs with
    | [] => []
    | e :: r => match step st e with
                | Some st' => crash_states (open_after open e) st' r
                | None => []
                end
    end.

  (* normal completion *)
  Fixpoint run_effects (st : sstate) (effs : list effect) : sstate :=
    match effs with
    | [] => st
    | e :: r => match step st e with Some st' => run_effects st' r | None => st end
    end.

  (* write_word_list *)
  Definition write_effects (p : path) (ws : list word) : list effect :=
    flat_map (fun w => [EWrite p w; EWrite p [LF]]) ws.
  (* save_dict BEFORE 87b8642: create_dir_all; File::create(path) (truncates); write_word_list; flush *)
  Definition save_effects_old (p : path) (ws : list word) : list effect :=
    EMkdir (parent p) :: ECreate p :: write_effects p ws ++ [EFlush p].
  (* save_dict as written now: create_dir_all(parent); File::create(<name>.tmp); write_word_list; flush;
     sync_all; drop; rename(<name>.tmp, path) *)
  Definition save_effects (p : path) (ws : list word) : list effect :=
    EMkdir (parent p) :: ECreate (TmpP p) :: write_effects (TmpP p) ws
      ++ [EFlush (TmpP p); ESync (TmpP p); ERename (TmpP p) p].
  Definition save_words (p : path) (ws : list word) (s : fsys) : fsys :=
    fst (run_effects (s, []) (save_effects p ws)).
  Definition save_dict (p : path) (d : dict) (s : fsys) : fsys := save_words p (words_iter d) s.

  (* -------------------------------------------------------------------------------------------- *)
  (*  file_dict_name                                                                                *)
  (* -------------------------------------------------------------------------------------------- *)
  (* a document: a file: URL (given by the decoded absolute path url.to_file_path() returns) or VS Code's
     untitled: scheme (to_file_path fails) *)
  Inductive url := FileUrl (p : list N) | Untitled (n : list N).

  Fixpoint split_on (sep : N) (cur : list N) (s : list N) : list (list N) :=
    match s with
    | [] => [cur]
    | c :: r => if N.eqb c sep then cur :: split_on sep [] r else split_on sep (cur ++ [c]) r
    end.
  (* Path::components of an absolute Unix path without RootDir: empty segments and "." are dropped *)
  Definition is_real_seg (seg : list N) : bool :=
    match seg with [] => false | [c] => negb (N.eqb c DOT) | _ => true end.
  Definition components (p : list N) : list (list N) := filter is_real_seg (split_on SLASH [] p).
  Definition mangle (segs : list (list N)) : list N := flat_map (fun seg => seg ++ [PCT]) segs.
  (* since 08b9da8 a URL whose path has no component (file:///) names no file: Err, like a URL without a
     file path *)
  Definition file_dict_name (u : url) : option (list N) :=
    match u with
    | FileUrl p => match mangle (components p) with [] => None | n => Some n end
    | Untitled _ => None
    end.

  (* -------------------------------------------------------------------------------------------- *)
  (*  the server: HarperAddToUserDict / HarperAddToFileDict, linting a document, restart, crash     *)
  (* -------------------------------------------------------------------------------------------- *)
  Inductive scope := SUser | SFile (u : url).

  (* where an add goes: None = file_dict_name failed (the word is dropped with a log line) *)
  Definition target (sc : scope) : option path :=
    match sc with
    | SUser => Some UserP
    | SFile u => match file_dict_name u with Some n => Some (FileP n) | None => None end
    end.

  Definition add_to (p : path) (w : word) (s : fsys) : fsys :=
    save_dict p (append_word (dict_at p s) w) s.
  Definition add_word (sc : scope) (w : word) (s : fsys) : fsys :=
    match target sc with Some p => add_to p w s | None => s end.

  (* load_file_dictionary: untitled -> empty *)
  Definition file_dict (u : url) (s : fsys) : dict :=
    match file_dict_name u with Some n => dict_at (FileP n) s | None => [] end.
  (* generate_file_dictionary: curated, user, file *)
  Definition children (s : fsys) (u : url) : list dict := [curated; dict_at UserP s; file_dict u s].
  (* which of the Word tokens of a document are reported by SpellCheck *)
  Definition lint (s : fsys) (u : url) (toks : list word) : list bool :=
    map (fun t => negb (accepted (children s u) t)) toks.

  Inductive op :=
  | AddWord (sc : scope) (w : word)
  | LintDoc (u : url) (toks : list word)
  | Restart                                (* a new Backend on the same directories: no state but the disk *)
  | CrashAdd (sc : scope) (w : word) (i : nat).   (* the save of this add dies in its i-th crash state; restart *)

  Definition add_crash_states (sc : scope) (w : word) (s : fsys) : list fsys :=
    match target sc with
    | Some p => crash_states None (s, []) (save_effects p (words_iter (append_word (dict_at p s) w)))
    | None => [s]
    end.

  Definition step_op (s : fsys) (o : op) : fsys * list bool :=
    match o with
    | AddWord sc w => (add_word sc w s, [])
    | LintDoc u toks => (s, lint s u toks)
    | Restart => (s, [])
    | CrashAdd sc w i => (nth i (add_crash_states sc w s) (add_word sc w s), [])
    end.

  Fixpoint run (s : fsys) (h : list op) : fsys * list (list bool) :=
    match h with
    | [] => (s, [])
    | o :: r => let (s', out) := step_op s o in
                let (s'', outs) := run s' r in (s'', out :: outs)
    end.
  Definition run_fs (s : fsys) (h : list op) : fsys := fst (run s h).

  Definition is_crash (o : op) : bool := match o with CrashAdd _ _ _ => true | _ => false end.
  Definition added_word (o : op) : option word :=
    match o with AddWord _ w => Some w | CrashAdd _ w _ => Some w | _ => None end.

  (* -------------------------------------------------------------------------------------------- *)
  (*  Backend::update_document keeps one linter per open document and rebuilds it only when the      *)
  (*  child hashes of the freshly loaded MergedDictionary differ from those it was built with        *)
  (*  (doc_state.base_dict != dict).  The curated child hashes to the constant 1.                    *)
  (* -------------------------------------------------------------------------------------------- *)
  Definition url_eqb (a b : url) : bool :=
    match a, b with
    | FileUrl p, FileUrl q => weqb p q
    | Untitled p, Untitled q => weqb p q
    | _, _ => false
    end.
  (* url -> the children the document's linter was built with *)
  Definition cache := list (url * list dict).
  Fixpoint cache_get (u : url) (c : cache) : option (list dict) :=
    match c with
    | [] => None
    | (u', cs) :: t => if url_eqb u u' then Some cs else cache_get u t
    end.
  Definition cache_set (u : url) (cs : list dict) (c : cache) : cache :=
    (u, cs) :: filter (fun e => negb (url_eqb u (fst e))) c.
  (* MergedDictionary == : the vectors of child hashes are equal; the first child is the curated dictionary *)
  Definition hashes_eqb (a b : list dict) : bool :=
    match a, b with
    | [_; ua; fa], [_; ub; fb] =>
        child_hash_eqb (child_words ua) (child_words ub) && child_hash_eqb (child_words fa) (child_words fb)
    | _, _ => false
    end.
  (* the children the check of document u is made with, and the cache afterwards *)
  Definition cached_children (c : cache) (s : fsys) (u : url) : list dict :=
    let fresh := children s u in
    match cache_get u c with
    | Some old => if hashes_eqb old fresh then old else fresh
    | None => fresh
    end.
  Definition step_op_cached (st : fsys * cache) (o : op) : (fsys * cache) * list bool :=
    let (s, c) := st in
    match o with
    | LintDoc u toks =>
        let cs := cached_children c s u in
        ((s, cache_set u cs c), map (fun t => negb (accepted cs t)) toks)
    | Restart => ((s, []), [])
    | CrashAdd _ _ _ => ((fst (step_op s o), []), [])      (* the process died: a new server starts *)
    | AddWord _ _ => ((fst (step_op s o), c), [])
    end.
  Fixpoint run_cached (st : fsys * cache) (h : list op) : (fsys * cache) * list (list bool) :=
    match h with
    | [] => (st, [])
    | o :: r => let (st', out) := step_op_cached st o in
                let (st'', outs) := run_cached st' r in (st'', out :: outs)
    end.

  (* -------------------------------------------------------------------------------------------- *)
  (*  add commands handled concurrently (tower-lsp overlaps the handlers of requests that arrive     *)
  (*  together).  A command is two steps: LOAD the dictionary of its target, then append the word    *)
  (*  and SAVE.  Since cfbe845 both steps happen under Backend::dict_write_lock (one lock for all    *)
  (*  dictionaries): a command that finds the lock taken waits.  A schedule is the list of command   *)
  (*  indices in the order in which the executor polls them; a poll advances the command by one step *)
  (*  if it can.                                                                                     *)
  (* -------------------------------------------------------------------------------------------- *)
  Definition cmd := (scope * word)%type.
  Definition cmd_at (cmds : list cmd) (i : nat) : cmd := nth i cmds (SUser, []).
  Definition cmd_load (c : cmd) (s : fsys) : dict :=
    match target (fst c) with Some p => dict_at p s | None => [] end.
  Definition cmd_save (c : cmd) (d : dict) (s : fsys) : fsys :=
    match target (fst c) with Some p => save_dict p (append_word d (snd c)) s | None => s end.
  Definition finished (i : nat) (ord : list nat) : bool := existsb (Nat.eqb i) ord.
  (* state: disk, the command holding the lock with the dictionary it loaded, the finished commands in
     the order in which they finished *)
  Definition lstate := (fsys * option (nat * dict) * list nat)%type.
  Definition lstep (cmds : list cmd) (st : lstate) (i : nat) : lstate :=
    let '(s, holder, ord) := st in
    if finished i ord then st else
    match holder with
    | None => (s, Some (i, cmd_load (cmd_at cmds i) s), ord)                     (* lock; load *)
    | Some (j, d) =>
        if Nat.eqb j i then (cmd_save (cmd_at cmds i) d s, None, ord ++ [i])         (* save; unlock *)
        else st                                                                      (* waits for the lock *)
    end.
  Definition run_locked (cmds : list cmd) (s : fsys) (sched : list nat) : lstate :=
    fold_left (lstep cmds) sched (s, None, []).
  (* before cfbe845: no lock — every command loads whenever it is polled first and saves what IT loaded *)
  Definition ustate_old := (fsys * list (nat * dict) * list nat)%type.
  Fixpoint loaded_get (i : nat) (l : list (nat * dict)) : option dict :=
    match l with [] => None | (j, d) :: t => if Nat.eqb j i then Some d else loaded_get i t end.
  Definition ustep_old (cmds : list cmd) (st : ustate_old) (i : nat) : ustate_old :=
    let '(s, loaded, ord) := st in
    if finished i ord then st else
    match loaded_get i loaded with
    | None => (s, (i, cmd_load (cmd_at cmds i) s) :: loaded, ord)
    | Some d => (cmd_save (cmd_at cmds i) d s, loaded, ord ++ [i])
    end.
  Definition run_unlocked_old (cmds : list cmd) (s : fsys) (sched : list nat) : ustate_old :=
    fold_left (ustep_old cmds) sched (s, [], []).

  (* -------------------------------------------------------------------------------------------- *)
  (*  harper_wasm::Linter: user_dictionary + the dictionary the LintGroup was built with            *)
  (* -------------------------------------------------------------------------------------------- *)
  Record wasm := mkwasm { w_user : dict; w_lint : dict }.
  Definition wasm_new : wasm := mkwasm [] [].
  (* HashMap == (MutableDictionary derives PartialEq over its WordMap): same number of entries and every
     entry of the one is found, equal, in the other *)
  Definition entry_eqb (a b : entry) : bool := weqb (fst a) (fst b) && Bool.eqb (snd a) (snd b).
  Definition dict_same (a b : dict) : bool :=
    Nat.eqb (length a) (length b) &&
    forallb (fun kv => match lookup (fst kv) b with Some e => entry_eqb (snd kv) e | None => false end) a.
  (* import_words (ba0a239): clone; extend; synchronize_lint_dict when user_dictionary != before *)
  Definition import_words (st : wasm) (ws : list word) : wasm :=
    let u' := extend_words (w_user st) ws in
    if dict_same u' (w_user st) then mkwasm u' (w_lint st) else mkwasm u' u'.
  (* before ba0a239: synchronize_lint_dict only when word_count grew *)
  Definition import_words_old (st : wasm) (ws : list word) : wasm :=
    let u' := extend_words (w_user st) ws in
    if length (w_user st) <? length u' then mkwasm u' u' else mkwasm u' (w_lint st).
  Definition export_words (st : wasm) : list word := words_iter (w_user st).
  Definition wasm_lint (st : wasm) (toks : list word) : list bool :=
    map (fun t => negb (accepted [curated; w_lint st] t)) toks.
End Model.

(* ------------------------------------------------------------------------------------------------ *)
(*  executable entry points for the extracted driver (Unicode data and the curated entries of the     *)
(*  words in play come as tables dumped from the implementation)                                      *)
(* ------------------------------------------------------------------------------------------------ *)
Definition ctable := list (N * (bool * list N)).
Fixpoint ct_find (tb : ctable) (c : N) : option (bool * list N) :=
  match tb with
  | [] => None
  | (c', v) :: t => if N.eqb c c' then Some v else ct_find t c
  end.
Definition tb_is_lower (tb : ctable) (c : N) : bool :=
  match ct_find tb c with Some (b, _) => b | None => false end.
Definition tb_lower (tb : ctable) (c : N) : list N :=
  match ct_find tb c with Some (_, l) => l | None => [c] end.
Definition id_order (l : list word) : list word := l.

(* curated entries given as (canonical spelling, dialect ok) *)
Definition mk_curated (tb : ctable) (es : list entry) : dict :=
  fold_left (fun d e => insert (word_id (tb_is_lower tb) (tb_lower tb) (fst e)) e d) es [].

Definition x_load (tb : ctable) (t : text) : list word :=
  words_of (dict_from_word_list (tb_is_lower tb) (tb_lower tb) t).

Definition x_name (p : list N) : option (list N) := file_dict_name (FileUrl p).

(* the iteration order of the hash map is not observable before the write; the driver proposes one
   that is consistent with what was found on disk afterwards, the model only accepts a permutation
   (perm_ofb, above) and otherwise keeps its own order *)
Definition proposed_order (prop : list word) (l : list word) : list word :=
  if perm_ofb prop l then prop else l.
(* the server with its per-document linter cache (DictIOProofs.cache_transparent: same outputs as `run`);
   the hash map iterates in the proposed order *)
Definition x_run (tb : ctable) (cur : list entry) (order : list word) (st : fsys * cache) (h : list op)
    : (fsys * cache) * list (list bool) :=
  run_cached (tb_is_lower tb) (tb_lower tb) (mk_curated tb cur) (proposed_order order) st h.

(* MergedDictionary == on [curated; d1] and [curated; d2], d_i = extend_words of a word list *)
Definition x_merge_eq (tb : ctable) (ws1 ws2 : list word) : bool :=
  child_hash_eqb (child_words id_order (extend_words (tb_is_lower tb) (tb_lower tb) [] ws1))
                 (child_words id_order (extend_words (tb_is_lower tb) (tb_lower tb) [] ws2)).

Definition x_words_at (tb : ctable) (p : path) (s : fsys) : option (list word) :=
  match load_dict (tb_is_lower tb) (tb_lower tb) p s with
  | Some d => Some (words_of d)
  | None => None
  end.

Definition content_eqb (a b : content) : bool :=
  match a, b with
  | Clean x, Clean y => weqb x y
  | Torn x, Torn y => weqb x y
  | _, _ => false
  end.
Definition ocontent_eqb (a b : option content) : bool :=
  match a, b with
  | Some x, Some y => content_eqb x y
  | None, None => true
  | _, _ => false
  end.

(* ---- crash observations ------------------------------------------------------------------------ *)
Fixpoint strip_prefix (a b : text) : option text :=
  match a, b with
  | [], _ => Some b
  | x :: a', y :: b' => if N.eqb x y then strip_prefix a' b' else None
  | _ :: _, [] => None
  end.
(* a file that is created (truncated) and then written from a BufWriter, after a crash: as it was, or
   holding a prefix of the new text: whole characters, or whole characters and a cut multi-byte one.
   (This was the fate of the DICTIONARY before 87b8642; now it is the fate of the temporary sibling.) *)
Definition partial_possibleb (old : option content) (total : text) (obs : option content) : bool :=
  ocontent_eqb obs old ||
  match obs with
  | Some (Clean t) => match strip_prefix t total with Some _ => true | None => false end
  | Some (Torn t) => match strip_prefix t total with Some (c :: _) => negb (c <? 128)%N | _ => false end
  | None => false
  end.
(* save_dict as written now, the dictionary file and its temporary sibling after a crash:
     the dictionary as it was and the sibling as it was or partially written   (killed before the rename), or
     the dictionary holds the complete new text and the sibling is gone        (killed after it).
   DictIOProofs.crash_possibleb_spec: this is exactly the set of observations over crash_states. *)
Definition crash_possibleb (old oldtmp : option content) (total : text) (obs obstmp : option content) : bool :=
  (ocontent_eqb obs old && partial_possibleb oldtmp total obstmp) ||
  (ocontent_eqb obs (Some (Clean total)) && ocontent_eqb obstmp None).

(* the words the add of w is about to write, in model order *)
Definition x_add_words (tb : ctable) (sc : scope) (w : word) (s : fsys) : list word :=
  match target sc with
  | Some p => words_of (append_word (tb_is_lower tb) (tb_lower tb) (dict_at (tb_is_lower tb) (tb_lower tb) p s) w)
  | None => []
  end.
(* are `obs` / `obstmp` possible contents of the target / of its temporary sibling after a crash of this add,
   when the map iterates in `order`? *)
Definition x_crash_ok (tb : ctable) (order : list word) (sc : scope) (w : word) (s : fsys)
    (obs obstmp : option content) : bool :=
  match target sc with
  | Some p => crash_possibleb (fs_read p s) (fs_read (TmpP p) s)
                (serialize (words_iter (proposed_order order)
                   (append_word (tb_is_lower tb) (tb_lower tb) (dict_at (tb_is_lower tb) (tb_lower tb) p s) w))) obs obstmp
  | None => false
  end.
Definition fs_set (p : path) (oc : option content) (s : fsys) : fsys :=
  match oc with
  | Some c => fs_write p c s
  | None => mkfs (dirs s) (assoc_del p (files s))
  end.
(* the history goes on from what was found on disk *)
Definition x_crash_state (sc : scope) (s : fsys) (obs obstmp : option content) : fsys :=
  match target sc with
  | Some p => fs_set (TmpP p) obstmp (fs_set p obs s)
  | None => s
  end.
(* a dictionary file written by hand *)
Definition x_seed_state (sc : scope) (s : fsys) (c : content) : fsys :=
  match target sc with
  | Some p => fs_write p c s
  | None => s
  end.

Inductive wop := WImport (ws : list word) | WLint (toks : list word) | WExport.
Inductive wout := WOFlags (f : list bool) | WOWords (ws : list word) | WONone.
Fixpoint x_wasm_run (tb : ctable) (cur : dict) (st : wasm) (h : list wop) : list wout :=
  match h with
  | [] => []
  | WImport ws :: r => WONone :: x_wasm_run tb cur (import_words (tb_is_lower tb) (tb_lower tb) st ws) r
  | WLint toks :: r => WOFlags (wasm_lint (tb_is_lower tb) (tb_lower tb) cur st toks) :: x_wasm_run tb cur st r
  | WExport :: r => WOWords (export_words id_order st) :: x_wasm_run tb cur st r
  end.
Definition x_wasm (tb : ctable) (cur : list entry) (h : list wop) : list wout :=
  x_wasm_run tb (mk_curated tb cur) wasm_new h.
