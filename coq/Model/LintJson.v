(* LintJson.v — the values harper-wasm hands to JavaScript (Span, Suggestion, Lint) and their JSON
   text exactly as serde_json emits it (`to_json` of make_serialize_fns_for!, harper-wasm/src/lib.rs;
   derives in harper-core/src/{span.rs,linting/lint.rs,linting/suggestion.rs,linting/lint_kind.rs}),
   plus a parser of that canonical form (`from_json` restricted to what `to_json` produces).
   JSON text is a `text` (list of code points); serde_json writes every char >= 0x20 other than
   the double quote and the backslash verbatim (as UTF-8), so comparing code-point sequences is
   comparing bytes.
   No proofs here. *)
Require Import Base Suggestion.
From Coq Require Import String Ascii DecimalNat DecimalN.

(* ---------- the values ---------- *)
Inductive language := Plain | Markdown.

(* harper-core/src/linting/lint_kind.rs, in declaration order *)
Inductive lint_kind :=
| Spelling | Capitalization | Style | Formatting | Repetition | Enhancement | Readability
| WordChoice | Miscellaneous | Punctuation.

(* harper_core::linting::Lint *)
Record rlint := mkrl {
  rspan : span; rkind : lint_kind; rsugs : list suggestion; rmsg : text; rprio : nat (* u8 *) }.

(* harper_wasm::Lint { inner, problem_text, language } *)
Record wlint := mkwl { winner : rlint; wproblem : text; wlang : language }.

Definition rlint_wf (l : rlint) : Prop := rprio l <= 255.

(* ---------- literals ---------- *)
Definition lit (s : string) : text := List.map N_of_ascii (list_ascii_of_string s).

Definition cQuote : N := 34.     (* the double quote *)
Definition cBackslash : N := 92.
Definition cComma : N := 44.
Definition cLBracket : N := 91.
Definition cRBracket : N := 93.
Definition cLBrace : N := 123.
Definition cRBrace : N := 125.

(* ---------- printing ---------- *)
(* serde_json::ser::format_escaped_str_contents: ESCAPE table — double quote, backslash, \b \t \n
   \f \r, every other byte below 0x20 as \u00XX with lower-case hex digits, everything else verbatim *)
Definition hex_digit (n : N) : N := if (n <? 10)%N then (48 + n)%N else (87 + n)%N.

Definition esc_char (c : N) : text :=
  if (c =? 34)%N then [92; 34]%N
  else if (c =? 92)%N then [92; 92]%N
  else if (c =? 8)%N then [92; 98]%N
  else if (c =? 9)%N then [92; 116]%N
  else if (c =? 10)%N then [92; 110]%N
  else if (c =? 12)%N then [92; 102]%N
  else if (c =? 13)%N then [92; 114]%N
  else if (c <? 32)%N then [92; 117; 48; 48; hex_digit (c / 16); hex_digit (c mod 16)]%N
  else [c].

Definition print_str (s : text) : text := cQuote :: flat_map esc_char s ++ [cQuote].

Fixpoint uint_chars (d : Decimal.uint) : text :=
  match d with
  | Decimal.Nil => []
  | Decimal.D0 d => 48%N :: uint_chars d
  | Decimal.D1 d => 49%N :: uint_chars d
  | Decimal.D2 d => 50%N :: uint_chars d
  | Decimal.D3 d => 51%N :: uint_chars d
  | Decimal.D4 d => 52%N :: uint_chars d
  | Decimal.D5 d => 53%N :: uint_chars d
  | Decimal.D6 d => 54%N :: uint_chars d
  | Decimal.D7 d => 55%N :: uint_chars d
  | Decimal.D8 d => 56%N :: uint_chars d
  | Decimal.D9 d => 57%N :: uint_chars d
  end.

Definition print_nat (n : nat) : text := uint_chars (Nat.to_uint n).
Definition print_N (n : N) : text := uint_chars (N.to_uint n).

(* comma-separated sequence (without the brackets) *)
Definition print_seq {A} (pr : A -> text) (l : list A) : text :=
  match l with
  | [] => []
  | a :: t => pr a ++ flat_map (fun x => cComma :: pr x) t
  end.

(* #[derive(Serialize)] struct Span { start, end } *)
Definition print_span (s : span) : text :=
  lit "{""start"":" ++ print_nat (sstart s) ++ lit ",""end"":" ++ print_nat (send s) ++ lit "}".

(* a `char` is serialised as a one-character string *)
Definition print_char (c : N) : text := print_str [c].
Definition print_chars (cs : text) : text := [cLBracket] ++ print_seq print_char cs ++ [cRBracket].

(* enum Suggestion { ReplaceWith(Vec<char>), InsertAfter(Vec<char>), Remove }: externally tagged *)
Definition print_suggestion (s : suggestion) : text :=
  match s with
  | ReplaceWith cs => lit "{""ReplaceWith"":" ++ print_chars cs ++ lit "}"
  | InsertAfter cs => lit "{""InsertAfter"":" ++ print_chars cs ++ lit "}"
  | Remove => lit """Remove"""
  end.

(* harper_wasm::Suggestion { inner } *)
Definition print_wsuggestion (s : suggestion) : text :=
  lit "{""inner"":" ++ print_suggestion s ++ lit "}".

Definition kind_name (k : lint_kind) : string :=
  match k with
  | Spelling => "Spelling" | Capitalization => "Capitalization" | Style => "Style"
  | Formatting => "Formatting" | Repetition => "Repetition" | Enhancement => "Enhancement"
  | Readability => "Readability" | WordChoice => "WordChoice" | Miscellaneous => "Miscellaneous"
  | Punctuation => "Punctuation"
  end.
Definition all_kinds : list lint_kind :=
  [Spelling; Capitalization; Style; Formatting; Repetition; Enhancement; Readability; WordChoice;
   Miscellaneous; Punctuation].

Definition lang_name (l : language) : string :=
  match l with Plain => "Plain" | Markdown => "Markdown" end.

Definition print_rlint (l : rlint) : text :=
  lit "{""span"":" ++ print_span (rspan l) ++
  lit ",""lint_kind"":" ++ print_str (lit (kind_name (rkind l))) ++
  lit ",""suggestions"":[" ++ print_seq print_suggestion (rsugs l) ++ [cRBracket] ++
  lit ",""message"":" ++ print_str (rmsg l) ++
  lit ",""priority"":" ++ print_nat (rprio l) ++ lit "}".

Definition print_wlint (l : wlint) : text :=
  lit "{""inner"":" ++ print_rlint (winner l) ++
  lit ",""problem_text"":" ++ print_str (wproblem l) ++
  lit ",""language"":" ++ print_str (lit (lang_name (wlang l))) ++ lit "}".

(* IgnoredLints { context_hashes: HashSet<u64> } — the order is whatever the hash set yields *)
Definition print_ignored (hs : list N) : text :=
  lit "{""context_hashes"":[" ++ print_seq print_N hs ++ [cRBracket] ++ lit "}".

(* ---------- parsing (of the canonical form only: no white space, fields in declaration order) ---------- *)
Definition parser (A : Type) := text -> option (A * text).

Fixpoint expect (l : text) (inp : text) : option text :=
  match l with
  | [] => Some inp
  | c :: l' => match inp with
               | d :: inp' => if (c =? d)%N then expect l' inp' else None
               | [] => None
               end
  end.

Definition hexval (c : N) : option N :=
  if ((48 <=? c) && (c <=? 57))%N then Some (c - 48)%N
  else if ((97 <=? c) && (c <=? 102))%N then Some (c - 87)%N
  else if ((65 <=? c) && (c <=? 70))%N then Some (c - 55)%N
  else None.

(* the body of a string, after the opening quote, up to and including the closing quote.
   Escapes as serde_json reads them; \uXXXX only for non-surrogate code units. *)
Fixpoint parse_str_body (inp : text) : option (text * text) :=
  match inp with
  | [] => None
  | c :: r =>
      if (c =? 34)%N then Some ([], r)
      else if (c =? 92)%N then
        match r with
        | [] => None
        | e :: r1 =>
            let simple (v : N) :=
              match parse_str_body r1 with Some (s, rest) => Some (v :: s, rest) | None => None end in
            if (e =? 34)%N then simple 34%N
            else if (e =? 92)%N then simple 92%N
            else if (e =? 47)%N then simple 47%N
            else if (e =? 98)%N then simple 8%N
            else if (e =? 102)%N then simple 12%N
            else if (e =? 110)%N then simple 10%N
            else if (e =? 114)%N then simple 13%N
            else if (e =? 116)%N then simple 9%N
            else if (e =? 117)%N then
              match r1 with
              | h1 :: h2 :: h3 :: h4 :: r2 =>
                  match hexval h1, hexval h2, hexval h3, hexval h4 with
                  | Some a, Some b, Some c', Some d =>
                      let v := (((a * 16 + b) * 16 + c') * 16 + d)%N in
                      if ((55296 <=? v) && (v <=? 57343))%N then None
                      else match parse_str_body r2 with
                           | Some (s, rest) => Some (v :: s, rest)
                           | None => None
                           end
                  | _, _, _, _ => None
                  end
              | _ => None
              end
            else None
        end
      else if (c <? 32)%N then None
      else match parse_str_body r with Some (s, rest) => Some (c :: s, rest) | None => None end
  end.

Definition parse_str : parser text :=
  fun inp => match inp with
             | c :: r => if (c =? 34)%N then parse_str_body r else None
             | [] => None
             end.

Definition digit_of (c : N) : option (Decimal.uint -> Decimal.uint) :=
  if (c =? 48)%N then Some Decimal.D0 else if (c =? 49)%N then Some Decimal.D1
  else if (c =? 50)%N then Some Decimal.D2 else if (c =? 51)%N then Some Decimal.D3
  else if (c =? 52)%N then Some Decimal.D4 else if (c =? 53)%N then Some Decimal.D5
  else if (c =? 54)%N then Some Decimal.D6 else if (c =? 55)%N then Some Decimal.D7
  else if (c =? 56)%N then Some Decimal.D8 else if (c =? 57)%N then Some Decimal.D9
  else None.

Definition is_digit (c : N) : bool := ((48 <=? c) && (c <=? 57))%N.

(* the maximal run of digits *)
Fixpoint read_uint (inp : text) : Decimal.uint * text :=
  match inp with
  | [] => (Decimal.Nil, [])
  | c :: r => match digit_of c with
              | Some d => let '(u, rest) := read_uint r in (d u, rest)
              | None => (Decimal.Nil, inp)
              end
  end.

Definition parse_nat : parser nat :=
  fun inp => match read_uint inp with
             | (Decimal.Nil, _) => None
             | (u, rest) => Some (Nat.of_uint u, rest)
             end.
Definition parse_N : parser N :=
  fun inp => match read_uint inp with
             | (Decimal.Nil, _) => None
             | (u, rest) => Some (N.of_uint u, rest)
             end.

Section Seq.
  Context {A : Type} (p : parser A).
  (* after an element: ',' element ... or ']' *)
  Fixpoint parse_seq_more (fuel : nat) (inp : text) : option (list A * text) :=
    match fuel with
    | 0 => None
    | S f =>
        match inp with
        | [] => None
        | c :: r =>
            if (c =? 93)%N then Some ([], r)
            else if (c =? 44)%N then
              match p r with
              | Some (a, r') =>
                  match parse_seq_more f r' with
                  | Some (l, r'') => Some (a :: l, r'')
                  | None => None
                  end
              | None => None
              end
            else None
        end
    end.
  (* after '[': elements up to and including ']' ; fuel = the length of what is left *)
  Definition parse_seq : parser (list A) :=
    fun inp => match inp with
               | [] => None
               | c :: r =>
                   if (c =? 93)%N then Some ([], r)
                   else match p inp with
                        | Some (a, r') =>
                            match parse_seq_more (S (List.length r')) r' with
                            | Some (l, r'') => Some (a :: l, r'')
                            | None => None
                            end
                        | None => None
                        end
               end.
End Seq.

Definition pbind {A B} (p : option (A * text)) (f : A -> text -> option (B * text)) : option (B * text) :=
  match p with Some (a, r) => f a r | None => None end.
Definition ebind {B} (p : option text) (f : text -> option (B * text)) : option (B * text) :=
  match p with Some r => f r | None => None end.

Definition parse_span : parser span :=
  fun inp =>
    ebind (expect (lit "{""start"":") inp) (fun r =>
    pbind (parse_nat r) (fun a r =>
    ebind (expect (lit ",""end"":") r) (fun r =>
    pbind (parse_nat r) (fun b r =>
    ebind (expect (lit "}") r) (fun r => Some (mkspan a b, r)))))).

Definition parse_char : parser N :=
  fun inp => pbind (parse_str inp) (fun s r => match s with [c] => Some (c, r) | _ => None end).

Definition parse_chars : parser text :=
  fun inp => ebind (expect [cLBracket] inp) (fun r => parse_seq parse_char r).

Definition parse_suggestion : parser suggestion :=
  fun inp =>
    match expect (lit """Remove""") inp with
    | Some r => Some (Remove, r)
    | None =>
        match expect (lit "{""ReplaceWith"":") inp with
        | Some r => pbind (parse_chars r) (fun cs r => ebind (expect (lit "}") r) (fun r => Some (ReplaceWith cs, r)))
        | None =>
            ebind (expect (lit "{""InsertAfter"":") inp) (fun r =>
            pbind (parse_chars r) (fun cs r => ebind (expect (lit "}") r) (fun r => Some (InsertAfter cs, r))))
        end
    end.

Definition parse_wsuggestion : parser suggestion :=
  fun inp =>
    ebind (expect (lit "{""inner"":") inp) (fun r =>
    pbind (parse_suggestion r) (fun s r =>
    ebind (expect (lit "}") r) (fun r => Some (s, r)))).

(* a quoted name out of a finite table *)
Fixpoint parse_name {A} (names : list (A * string)) (s : text) : option A :=
  match names with
  | [] => None
  | (a, n) :: t => if list_eq_dec N.eq_dec s (lit n) then Some a else parse_name t s
  end.

Definition parse_kind : parser lint_kind :=
  fun inp => pbind (parse_str inp) (fun s r =>
    match parse_name (List.map (fun k => (k, kind_name k)) all_kinds) s with
    | Some k => Some (k, r) | None => None end).

Definition parse_lang : parser language :=
  fun inp => pbind (parse_str inp) (fun s r =>
    match parse_name [(Plain, lang_name Plain); (Markdown, lang_name Markdown)] s with
    | Some k => Some (k, r) | None => None end).

Definition parse_rlint : parser rlint :=
  fun inp =>
    ebind (expect (lit "{""span"":") inp) (fun r =>
    pbind (parse_span r) (fun sp r =>
    ebind (expect (lit ",""lint_kind"":") r) (fun r =>
    pbind (parse_kind r) (fun k r =>
    ebind (expect (lit ",""suggestions"":[") r) (fun r =>
    pbind (parse_seq parse_suggestion r) (fun sg r =>
    ebind (expect (lit ",""message"":") r) (fun r =>
    pbind (parse_str r) (fun m r =>
    ebind (expect (lit ",""priority"":") r) (fun r =>
    pbind (parse_nat r) (fun pr r =>
    if 255 <? pr then None else
    ebind (expect (lit "}") r) (fun r => Some (mkrl sp k sg m pr, r)))))))))))).

Definition parse_wlint : parser wlint :=
  fun inp =>
    ebind (expect (lit "{""inner"":") inp) (fun r =>
    pbind (parse_rlint r) (fun l r =>
    ebind (expect (lit ",""problem_text"":") r) (fun r =>
    pbind (parse_str r) (fun pt r =>
    ebind (expect (lit ",""language"":") r) (fun r =>
    pbind (parse_lang r) (fun lg r =>
    ebind (expect (lit "}") r) (fun r => Some (mkwl l pt lg, r)))))))).

Definition parse_ignored : parser (list N) :=
  fun inp =>
    ebind (expect (lit "{""context_hashes"":[") inp) (fun r =>
    pbind (parse_seq parse_N r) (fun hs r =>
    ebind (expect (lit "}") r) (fun r => Some (hs, r)))).

(* from_json: the whole input must be consumed *)
Definition complete {A} (p : parser A) (inp : text) : option A :=
  match p inp with Some (a, []) => Some a | _ => None end.

Definition span_from_json := complete parse_span.
Definition suggestion_from_json := complete parse_wsuggestion.
Definition lint_from_json := complete parse_wlint.
Definition ignored_from_json := complete parse_ignored.
