(* C01EndToEnd.v — plain English, end to end: Document::new_plain_english (C02's model: the lexer loop and every
   condense pass of Document::parse, Model/Lexer.v + Model/Condense.v) followed by what the pattern framework does
   with the tokens (impl Linter for PatternLinter: iter_chunks + run_on_chunk, for ANY pattern of the inductive)
   and by LongSentences.
   C02's tokens carry a lexical kind; the pattern framework looks at TokenKind predicates that also depend on the
   dictionary (is_noun, is_determiner, ...).  `abs` maps one to the other; the theorems hold for EVERY abs that
   keeps the span, so whatever the dictionary says about a word cannot matter.   No proofs here. *)
Require Import Base Overlap TokenSeq Pattern.
Require Lexer Condense.

Section EndToEnd.
  Variable u : Lexer.uni.
  Variable abs : Lexer.token -> tok.
  Variable leaf : nat -> tok -> text -> res bool.
  Variable oracle : nat -> list tok -> text -> res bool.

  (* the token ranges handed to match_to_lint, per chunk, and the spans LongSentences flags *)
  Definition lint_plain_english (p : pat) (s : text) : res (list (list (nat * nat)) * list span) :=
    do ts <- Condense.document_plain u s;
    do l <- pattern_lint leaf oracle p (map abs ts) s;
    do ls <- long_sentences (map abs ts);
    Ok (l, ls).
End EndToEnd.

(* ---------- for the driver (correspondence stream E: ASCII plain text) ---------- *)
Definition e2e_ascii_uni : Lexer.uni :=
  Lexer.mkuni (fun c => Lexer.in_range 9 13 c || Lexer.ceq c 32) Lexer.is_ascii_digit Lexer.is_ascii_alphabetic Lexer.is_ascii_alphabetic.

(* the dictionary view given by the implementation, as a table keyed by the start of the token's span (the tokens of a
   plain-English document tile the text, so the start identifies the token); the span is ALWAYS the model's own *)
Definition abs_of (table : list (nat * tok)) (t : Lexer.token) : tok :=
  match find (fun e => fst e =? sstart (Lexer.tspan t)) table with
  | Some e => mktok (Lexer.tspan t) (tkid (snd e)) (tflags (snd e)) (tid (snd e))
  | None => mktok (Lexer.tspan t) 0 0 0
  end.

Definition e2e_spans (s : text) : res (list span) :=
  do ts <- Condense.document_plain e2e_ascii_uni s; Ok (map Lexer.tspan ts).
Definition e2e_lint (leaf : nat -> tok -> text -> res bool) (oracle : nat -> list tok -> text -> res bool)
    (table : list (nat * tok)) (p : pat) (s : text) : res (list (list (nat * nat)) * list span) :=
  lint_plain_english e2e_ascii_uni (abs_of table) leaf oracle p s.
