(* C06SentenceContrDot.v — phase 7, step 1: the two sentence classes of phase 6 COMBINED — a sentence with contractions
   (C06SentenceContr.v: citems) followed by ONE sentence-final period (C06SentenceDot.v).  No proofs here.

   The text is  sent_text (expand cs) ++ "."  where cs is a sentence of the class sentc_ok and the LAST item of collapse cs
   (what condense_contractions leaves: condense_latin runs after it and sees the merged token), when it is a word, is none
   of etc / vs / al (last_word_ok; a contraction never is — it has length >= 3 and an apostrophe where `etc` has a letter —
   but the condition is stated on the collapsed list, as the code evaluates it).
   C06SentenceContrDotProofs.v proves  document_plain u (sentcp_text cs) = Ok (sentcp_tokens cs). *)
Require Import Base Tables_lexer Lexer Condense C06Words C06Sentence C06SentenceDot C06SentenceContr.

Definition sentcp_ok (u : uni) (cs : list citem) : bool := sentc_ok u cs && last_word_ok (collapse cs).
Definition sentcp_text (cs : list citem) : text := sent_text (expand cs) ++ [46%N].
Definition sentcp_tokens (cs : list citem) : list token :=
  sent_tokens 0 (collapse cs) ++ [period_tok (length (sent_text (collapse cs)))].

(* ---------- entry point for the extracted driver: None = not a sentence of the class ---------- *)
Definition run_sentence_contr_dot (u : uni) (cs : list citem) : option (text * list span * list span) :=
  if sentcp_ok u cs then Some (sentcp_text cs, map tspan (sentcp_tokens cs), sent_words 0 (collapse cs)) else None.
