(* C05Thread.v — what is PER THREAD and PER PROCESS, as explicit state of the entry-point model.

   The statics of harper-core / harper-wasm / harper-ls outside #[cfg(test)] (pinned by the translator module
   tools/tables/c05_statics.py, which raises on any static it does not know) are of three kinds:

   (1) ONCE CELLS — initialised on first use, never written again:
         thread_local!  Document::{CONTRACTION,ELLIPSIS,LATIN,ARTICLE}_PATTERN (document.rs; read by
                        Document::parse in the order condense_contractions, condense_ellipsis, condense_latin,
                        articles_imply_nouns), parsers::collapse_identifiers::WORD_OR_NUMBER
         lazy_static!   spell::mutable_dictionary::DICT = uncached_inner_new()
                        spell::fst_dictionary::DICT = Arc::new(MutableDictionary::curated().deref().clone().into())
                        (title_case.rs SPECIAL_CONJUNCTIONS is the same kind; it is not on a lint path of LintGroup)
       model: `option A`; `once_get init c` returns the value and the cell afterwards.
   (2) A GROWING VECTOR — thread_local! fst_dictionary::AUTOMATON_BUILDERS : Vec<(u8, LevenshteinAutomatonBuilder)>,
       initially [(3, new(3))]; build_dfa(max_distance, query) pushes (max_distance, new(max_distance)) unless some
       entry has that distance, then `find(|a| a.0 == max_distance).unwrap().1.build_dfa(query)`.
       model: `build_dfa` below, literally (the unwrap is checked).
   (3) SCRATCH BUFFERS — thread_local! within_edit_distance::BUFFERS : (Vec<u8>, Vec<u8>), handed to
       edit_distance_min_alloc by WithinEditDistance::matches, never cleared between calls.
       model: `ed_min_alloc` below, literally (u8 additions, indexing and index writes are checked).

   On top: the entry points of C05Entry.v with this state THREADED through (`W*` definitions): a world is the
   process cells, one thread state per thread id, and the linter; every operation of a history names the thread
   that executes it.  The suggestion function is no longer a Section function: it is FstDictionary::fuzzy_match's
   shape (two build_dfa calls on the executing thread's builders, then a search that reads the two automata).
   No proofs here (Proofs/C05ThreadProofs.v). *)
Require Import Base Overlap Cache C05Entry.

(* ---------- (1) once cells ---------- *)
Definition once_get {A} (init : unit -> A) (c : option A) : A * option A :=
  match c with
  | Some v => (v, c)
  | None => let v := init tt in (v, Some v)
  end.

(* ---------- (2) AUTOMATON_BUILDERS ---------- *)
Section Builders.
  Variables B DFA : Type.
  Variable builder_new : nat -> B.             (* LevenshteinAutomatonBuilder::new(d, TRANSPOSITION_COST_ONE) *)
  Variable build : B -> text -> DFA.           (* builder.build_dfa(query) *)
  Definition builders := list (nat * B).
  Definition builders_init : builders := [(3, builder_new 3)].          (* EXPECTED_DISTANCE = 3 *)
  Fixpoint find_builder (d : nat) (v : builders) : option B :=
    match v with
    | [] => None
    | (d', b) :: t => if d' =? d then Some b else find_builder d t
    end.
  Definition build_dfa (d : nat) (q : text) (v : builders) : res (DFA * builders) :=
    let v1 := if existsb (fun t => fst t =? d) v then v else v ++ [(d, builder_new d)] in
    match find_builder d v1 with
    | Some b => Ok (build b q, v1)
    | None => Panic PUnwrap
    end.
End Builders.
Arguments builders_init {B}.
Arguments find_builder {B}.
Arguments build_dfa {B DFA}.

(* ---------- (3) edit_distance_min_alloc(source, target, previous_row, current_row) ---------- *)
Definition u8_add (a b : N) : res N := if (255 <? a + b)%N then Panic POverflow else Ok (a + b)%N.
(* Vec::resize(n, 0): truncate or pad with zeros — what is already there STAYS *)
Definition resize0 (l : list N) (n : nat) : list N := firstn n l ++ repeat 0%N (n - length l).
(* 0u8..=w as u8 *)
Fixpoint upto (k : nat) (from : N) : list N :=
  match k with 0 => [] | S k' => from :: upto k' (N.succ from) end.

(* for i in <is> { cost; current_row[i] = (previous_row[i] + 1).min(current_row[i - 1] + 1).min(previous_row[i - 1] + cost) } *)
Fixpoint ed_inner (src : text) (tj : N) (prev : list N) (is_ : list nat) (cur : list N) : res (list N) :=
  match is_ with
  | [] => Ok cur
  | i :: r =>
      do si <- nth_chk src (i - 1);
      let cost := if N.eqb si tj then 0%N else 1%N in
      do pi <- nth_chk prev i;
      do a <- u8_add pi 1;
      do ci1 <- nth_chk cur (i - 1);
      do b <- u8_add ci1 1;
      do pi1 <- nth_chk prev (i - 1);
      do c <- u8_add pi1 cost;
      do cur' <- set_nth cur i (N.min (N.min a b) c);
      ed_inner src tj prev r cur'
  end.
(* for j in <js> { current_row[0] = j as u8; inner loop; swap(previous_row, current_row) } *)
Fixpoint ed_outer (src tgt : text) (w : nat) (js : list nat) (prev cur : list N) : res (list N * list N) :=
  match js with
  | [] => Ok (prev, cur)
  | j :: r =>
      do cur0 <- set_nth cur 0 (N.of_nat j);
      do tj <- nth_chk tgt (j - 1);
      do cur1 <- ed_inner src tj prev (seq 1 w) cur0;
      ed_outer src tgt w r cur1 prev
  end.
(* edit_distance_long: the same two rows over usize, allocated by the call itself *)
Fixpoint edl_row (src : text) (tj : N) (prev : list nat) (left : nat) : list nat :=
  match src, prev with
  | s :: src', pd :: ((pu :: _) as prev') =>
      let v := Nat.min (Nat.min (pu + 1) (left + 1)) (pd + (if N.eqb s tj then 0 else 1)) in
      v :: edl_row src' tj prev' v
  | _, _ => []
  end.
Fixpoint edl_rows (src tgt : text) (j : nat) (prev : list nat) : list nat :=
  match tgt with
  | [] => prev
  | t :: tgt' => edl_rows src tgt' (S j) (S j :: edl_row src t prev (S j))
  end.
Definition ed_long (src tgt : text) : nat := last (edl_rows src tgt 0 (seq 0 (S (length src)))) 0.

(* the function; returns the distance and the two buffers as the call leaves them *)
Definition ed_min_alloc (src tgt : text) (prev cur : list N) : res (N * (list N * list N)) :=
  if (254 <? length src) || (254 <? length tgt) then
    Ok (N.of_nat (Nat.min (ed_long src tgt) 255), (prev, cur))
  else
    let w := length src in
    let prev0 := upto (S w) 0%N in                       (* clear(); extend(0u8..=row_width as u8) *)
    let cur0 := resize0 cur (S w) in                     (* resize(row_width + 1, 0): NOT zeroed *)
    do '(p, c) <- ed_outer src tgt w (seq 1 (length tgt)) prev0 cur0;
    do r <- nth_chk p w;
    Ok (r, (p, c)).

(* WithinEditDistance::matches after the token checks: content and self.word lower-cased by the caller *)
Definition wed_matches (content word : text) (max_edit_dist : N) (bufs : list N * list N) : res (nat * (list N * list N)) :=
  do '(d, bufs') <- ed_min_alloc content word (fst bufs) (snd bufs);
  Ok (if (d <=? max_edit_dist)%N then 1 else 0, bufs').

(* ---------- the state of a thread and of the process ---------- *)
Section World.
  Variables cfg kind dict : Type.
  Variables B DFA pat MD FD lang : Type.
  Notation K := (text * N * N)%type.
  Notation toks := (list (tok kind)).
  Variable cfg_hash : cfg -> N.
  Variable tok_hash : toks -> N.
  Variable fill : cfg -> cfg.
  Variable pattern_rel : dict -> text -> toks -> cfg -> list clint.
  Variables struct_pre struct_post : dict -> cfg -> doc kind -> list clint.
  Variable spell_on : cfg -> bool.
  Variable spell_mk : text -> span -> list text -> clint.
  Variable ctx : doc kind -> clint -> N.

  (* the Levenshtein builders and what FstDictionary::fuzzy_match does with the two automata *)
  Variable builder_new : nat -> B.
  Variable build : B -> text -> DFA.
  Variable sdist : dict -> text -> nat.             (* the max_distance the suggestion code asks for *)
  Variables snorm slower : text -> text.            (* word.normalized(); .to_lowercase() *)
  Variable sfinish : dict -> text -> DFA -> DFA -> list text.   (* search, merge, sort, truncate, order_suggestions *)
  (* the uncached constructors behind the once cells *)
  Variables contraction_init ellipsis_init latin_init article_init wordnum_init : unit -> pat.
  Variable mut_new : unit -> MD.                    (* uncached_inner_new() *)
  Variable fst_from : MD -> FD.                     (* Arc::new(m.deref().clone().into()) *)
  Variable mkdict : FD -> list text -> dict.        (* the dictionary an entry point merges from the curated one and user words *)
  (* Document::new: lexing, the parser (wrapped in CollapseIdentifiers for some languages), Document::parse — given
     the pattern values it reads from the cells — down to the chunk token slices of iter_chunks(), the words the
     dictionary does not accept and the rest *)
  Variable uses_collapse : lang -> bool.
  Variable doc_body : dict -> lang -> option pat -> pat -> pat -> pat -> pat -> text
                      -> list toks * list (span * text) * N.

  Record tstate := mktstate {
    t_contraction : option pat; t_ellipsis : option pat; t_latin : option pat; t_article : option pat;
    t_wordnum : option pat;
    t_builders : builders B;
    t_bufs : list N * list N }.
  (* a thread that has just been spawned *)
  Definition tfresh : tstate := mktstate None None None None None (builders_init builder_new) ([], []).
  Record pstate := mkpstate { p_mut : option MD; p_fst : option FD }.
  (* a process that has just started *)
  Definition pfresh : pstate := mkpstate None None.

  (* MutableDictionary::curated() = DICT.deref().clone();  FstDictionary::curated() = DICT.deref().clone(), whose
     initialiser forces the former *)
  Definition mut_curated (p : pstate) : MD * pstate :=
    let '(v, c) := once_get mut_new (p_mut p) in (v, mkpstate c (p_fst p)).
  Definition fst_curated (p : pstate) : FD * pstate :=
    match p_fst p with
    | Some v => (v, p)
    | None => let '(m, p1) := mut_curated p in let v := fst_from m in (v, mkpstate (p_mut p1) (Some v))
    end.

  (* Document::new(text, parser, dictionary) on a thread *)
  Definition build_doc (dc : dict) (l : lang) (src : text) (ts : tstate) : res (doc kind * tstate) :=
    let '(wn, c5) := if uses_collapse l
                     then (let '(v, c) := once_get wordnum_init (t_wordnum ts) in (Some v, c))
                     else (None, t_wordnum ts) in
    let '(pc, c1) := once_get contraction_init (t_contraction ts) in
    let '(pe, c2) := once_get ellipsis_init (t_ellipsis ts) in
    let '(pl, c3) := once_get latin_init (t_latin ts) in
    let '(pa, c4) := once_get article_init (t_article ts) in
    let '(chunks, miss, rest) := doc_body dc l wn pc pe pl pa src in
    do d <- doc_of src chunks miss rest;
    Ok (d, mktstate c1 c2 c3 c4 c5 (t_builders ts) (t_bufs ts)).
  (* the same without any cell *)
  Definition doc_pure (dc : dict) (l : lang) (src : text) : res (doc kind) :=
    let '(chunks, miss, rest) :=
      doc_body dc l (if uses_collapse l then Some (wordnum_init tt) else None)
               (contraction_init tt) (ellipsis_init tt) (latin_init tt) (article_init tt) src in
    doc_of src chunks miss rest.

  (* FstDictionary::fuzzy_match -> suggestions, on the executing thread's builders *)
  Definition suggest_t (dc : dict) (w : text) (v : builders B) : res (list text * builders B) :=
    do '(a, v1) <- build_dfa builder_new build (sdist dc w) (snorm w) v;
    do '(b, v2) <- build_dfa builder_new build (sdist dc w) (slower (snorm w)) v1;
    Ok (sfinish dc w a b, v2).
  Definition suggest_pure (dc : dict) (w : text) : list text :=
    sfinish dc w (build (builder_new (sdist dc w)) (snorm w)) (build (builder_new (sdist dc w)) (slower (snorm w))).

  (* Cache.lint_words with the builders threaded through the misses *)
  Fixpoint lint_words_t (dc : dict) (ws : list (span * text)) (sevs : list (text -> bool)) (sm : list (text * list text))
      (v : builders B) : res (list (text * list text) * list clint * list bool * builders B) :=
    match ws with
    | [] => Ok (sm, [], [], v)
    | (sp, w) :: rest =>
        let sm1 := evict (hd keep_all sevs) sm in
        do '(sm2, sug, hit, v1) <-
           match lookup text_eqb w sm1 with
           | Some x => Ok (sm1, x, true, v)
           | None => do '(x, v') <- suggest_t dc w v; Ok (put text_eqb w x sm1, x, false, v')
           end;
        do '(sm3, out, hits, v2) <- lint_words_t dc rest (tl sevs) sm2 v1;
        Ok (sm3, spell_mk w sp sug :: out, hit :: hits, v2)
    end.

  (* Cache.lint_doc, threaded *)
  Definition lint_doc_t (dc : dict) (st : state cfg K) (d : doc kind) evs sevs (v : builders B)
    : res (state cfg K * list clint * (list bool * list bool) * builders B) :=
    let c := st_cfg st in
    do '(sm, spell, whits, v1) <-
      (if spell_on c then lint_words_t dc (d_miss d) sevs (st_spell st) v else Ok (st_spell st, [], [], v));
    do '(m, pat, hits) <- lint_chunks cfg kind K code_key_eqb (code_key cfg_hash tok_hash) (pattern_rel dc) c (d_chunks d) evs (st_cache st);
    Ok (mkstate c m sm, struct_pre dc c d ++ spell ++ struct_post dc c d ++ pat, (hits, whits), v1).

  (* C05Entry.entry_lint, threaded *)
  Definition entry_lint_t (e : entry) (st : estate cfg dict) (d : doc kind) evs sevs (v : builders B)
    : res (estate cfg dict * list clint * (list bool * list bool) * builders B) :=
    let lg := e_lg st in
    let temp := st_cfg lg in
    let lg1 := mkstate (fill temp) (st_cache lg) (st_spell lg) in
    do '(lg2, out, flags, v1) <- lint_doc_t (e_dict st) lg1 d evs sevs v;
    let lg3 := mkstate temp (st_cache lg2) (st_spell lg2) in
    Ok (mkestate (e_dict st) lg3 (e_ign st), post kind ctx e (e_ign st) d out, flags, v1).

  Notation eop := (eop cfg kind dict).
  Definition estep_pure :=
    estep cfg kind dict cfg_hash tok_hash fill pattern_rel struct_pre struct_post spell_on suggest_pure spell_mk ctx.
  Definition estep_t (e : entry) (st : estate cfg dict) (o : eop) (v : builders B)
    : res (estate cfg dict * option (list clint) * builders B) :=
    match o with
    | ELint d evs sevs => do '(st', out, _, v') <- entry_lint_t e st d evs sevs v; Ok (st', Some out, v')
    | _ => do '(st', out) <- estep_pure e st o; Ok (st', out, v)
    end.

  (* ---------- the world ---------- *)
  Inductive wop :=
  | WOp (o : eop)                                   (* any operation of C05Entry on an already built document *)
  | WLint (l : lang) (src : text) (evs : list (K -> bool)) (sevs : list (text -> bool))
          (bufs' : list N * list N)                 (* Document::new on the executing thread, then lint; bufs' = what
                                                       the pattern rules leave in BUFFERS (adversarial) *)
  | WRebuild (uw : list text) (c : cfg).            (* curated() through the process cells, new LintGroup *)

  Definition tmap := list (nat * tstate).
  Definition tget (tid : nat) (m : tmap) : tstate :=
    match lookup Nat.eqb tid m with Some t => t | None => tfresh end.
  Record world := mkworld { w_p : pstate; w_ts : tmap; w_e : estate cfg dict }.
  Definition set_builders (ts : tstate) (v : builders B) : tstate :=
    mktstate (t_contraction ts) (t_ellipsis ts) (t_latin ts) (t_article ts) (t_wordnum ts) v (t_bufs ts).
  Definition set_bufs (ts : tstate) (b : list N * list N) : tstate :=
    mktstate (t_contraction ts) (t_ellipsis ts) (t_latin ts) (t_article ts) (t_wordnum ts) (t_builders ts) b.

  (* thread `tid` executes `o` *)
  Definition wstep (e : entry) (w : world) (tid : nat) (o : wop) : res (world * option (list clint)) :=
    let ts := tget tid (w_ts w) in
    match o with
    | WOp o' =>
        do '(st', out, v') <- estep_t e (w_e w) o' (t_builders ts);
        Ok (mkworld (w_p w) ((tid, set_builders ts v') :: w_ts w) st', out)
    | WLint l src evs sevs bufs' =>
        do '(d, ts1) <- build_doc (e_dict (w_e w)) l src ts;
        do '(st', out, v') <- estep_t e (w_e w) (ELint d evs sevs) (t_builders ts1);
        Ok (mkworld (w_p w) ((tid, set_bufs (set_builders ts1 v') bufs') :: w_ts w) st', out)
    | WRebuild uw c =>
        let '(fd, p') := fst_curated (w_p w) in
        do '(st', out, v') <- estep_t e (w_e w) (ERebuild (mkdict fd uw) c) (t_builders ts);
        Ok (mkworld p' ((tid, set_builders ts v') :: w_ts w) st', out)
    end.
  Fixpoint wrun (e : entry) (h : list (nat * wop)) (w : world) : res (world * list (list clint)) :=
    match h with
    | [] => Ok (w, [])
    | (tid, o) :: t =>
        do '(w1, out) <- wstep e w tid o;
        do '(w2, outs) <- wrun e t w1;
        Ok (w2, match out with Some l => l :: outs | None => outs end)
    end.

  (* ---------- what is left when threads, cells and builders are forgotten: a history of C05Entry ---------- *)
  Definition empty_doc : doc kind := mkdoc [] [] 0%N.
  Definition curated_pure : FD := fst_from (mut_new tt).
  Fixpoint erase (h : list wop) (dc : dict) : list eop :=
    match h with
    | [] => []
    | WOp o :: t => o :: erase t (match o with ERebuild dc' _ => dc' | _ => dc end)
    | WLint l src evs sevs _ :: t =>
        ELint (match doc_pure dc l src with Ok d => d | Panic _ => empty_doc end) evs sevs :: erase t dc
    | WRebuild uw c :: t => ERebuild (mkdict curated_pure uw) c :: erase t (mkdict curated_pure uw)
    end.
  (* every document of the history can be built (Document::new does not panic: C01 / C02) and the documents handed
     over ready-made are well-formed *)
  Fixpoint wdocs_ok (h : list wop) (dc : dict) : Prop :=
    match h with
    | [] => True
    | WOp o :: t => match o with ELint d _ _ => doc_wf d | _ => True end
                    /\ wdocs_ok t (match o with ERebuild dc' _ => dc' | _ => dc end)
    | WLint l src _ _ _ :: t => (exists d, doc_pure dc l src = Ok d) /\ wdocs_ok t dc
    | WRebuild uw c :: t => wdocs_ok t (mkdict curated_pure uw)
    end.
End World.

Arguments mktstate {B pat}.
Arguments t_contraction {B pat}.
Arguments t_ellipsis {B pat}.
Arguments t_latin {B pat}.
Arguments t_article {B pat}.
Arguments t_wordnum {B pat}.
Arguments t_builders {B pat}.
Arguments t_bufs {B pat}.
Arguments mkpstate {MD FD}.
Arguments p_mut {MD FD}.
Arguments p_fst {MD FD}.
Arguments mkworld {cfg dict B pat MD FD}.
Arguments w_p {cfg dict B pat MD FD}.
Arguments w_ts {cfg dict B pat MD FD}.
Arguments w_e {cfg dict B pat MD FD}.
Arguments WOp {cfg kind dict lang}.
Arguments WLint {cfg kind dict lang}.
Arguments WRebuild {cfg kind dict lang}.

(* ---------- driver entry points (extracted) ---------- *)
(* builders are their distance, an automaton is the distance of the builder that built it: the run prints, per
   fuzzy_match(word, d, _) of a sequence executed on ONE thread that starts fresh, which builder served it *)
Definition drv_fuzzy_served (d : nat) (v : builders nat) : res (nat * builders nat) :=
  do '(a, v1) <- build_dfa (fun d => d) (fun b _ => b) d [] v;
  do '(b, v2) <- build_dfa (fun d => d) (fun b _ => b) d [] v1;
  Ok (Nat.max a b, v2).
Definition drv_builders_init : builders nat := builders_init (fun d => d).
Definition drv_ed (src tgt : text) (bufs : list N * list N) : res (N * (list N * list N)) :=
  ed_min_alloc src tgt (fst bufs) (snd bufs).
