(* C03Span.v — harper-core/src/span.rs, COMPLETE: every pub fn and trait impl of `Span`, with the arithmetic of
   a debug build (usize addition / subtraction panic on overflow / underflow).  Executable, no proofs.

   Unlike Base.v (usize = nat, unbounded: overflow is not modelled there) a usize here is a binary number
   0 <= n <= usize_max = 2^64 - 1, so `start + len` past usize::MAX is a Panic POverflow as in the code.
   Proofs/C03SpanProofs.v shows that the nat-level operations of Base.v that every other model uses are this
   model whenever nothing overflows (`*_base` lemmas).

   One definition per Rust fn, same order as span.rs; `&mut self` methods return the new value. *)
Require Import Base.
From Coq Require Import List NArith Bool.
Import ListNotations.
Local Open Scope N_scope.

Definition usize_max : N := 18446744073709551615.          (* usize::MAX on the 64-bit targets harper builds for *)

Record uspan := mkuspan { ustart : N; uend : N }.

(* debug-build usize arithmetic *)
Definition uadd (a b : N) : res N := if usize_max <? a + b then Panic POverflow else Ok (a + b).
Definition usub (a b : N) : res N := if a <? b then Panic PUnderflow else Ok (a - b).

(* pub fn new(start, end): if start > end { panic!(..) } *)
Definition u_new (a b : N) : res uspan := if b <? a then Panic PSpanOrder else Ok (mkuspan a b).

(* pub fn new_with_len(start, len): Self { start, end: start + len } *)
Definition u_new_with_len (a len : N) : res uspan := do e <- uadd a len; Ok (mkuspan a e).

(* pub fn len(&self): self.end - self.start *)
Definition u_len (s : uspan) : res N := usub (uend s) (ustart s).

(* pub fn is_empty(&self): self.len() == 0 *)
Definition u_is_empty (s : uspan) : res bool := do l <- u_len s; Ok (l =? 0).

(* pub fn contains(&self, idx): assert!(self.start <= self.end); self.start <= idx && idx < self.end *)
Definition u_contains (s : uspan) (idx : N) : res bool :=
  if uend s <? ustart s then Panic PSpanOrder else Ok ((ustart s <=? idx) && (idx <? uend s)).

(* pub fn overlaps_with(&self, other): (self.start < other.end) && (other.start < self.end) *)
Definition u_overlaps_with (s o : uspan) : bool := (ustart s <? uend o) && (ustart o <? uend s).

(* pub fn try_get_content(&self, source) *)
Definition u_try_get_content {A} (s : uspan) (src : list A) : res (option (list A)) :=
  let n := N.of_nat (length src) in
  if (uend s <? ustart s) || (n <=? ustart s) || (n <? uend s) then
    (do e <- u_is_empty s;
     if e then Ok (Some []) (* &source[0..0] *) else Ok None)
  else Ok (Some (slice src (N.to_nat (ustart s)) (N.to_nat (uend s)))).

(* pub fn get_content(&self, source): None => panic!(..) *)
Definition u_get_content {A} (s : uspan) (src : list A) : res (list A) :=
  do r <- u_try_get_content s src;
  match r with Some v => Ok v | None => Panic PIndex end.

(* pub fn get_content_string(&self, source): String::from_iter(self.get_content(source)) — the same characters *)
Definition u_get_content_string (s : uspan) (src : text) : res text := u_get_content s src.

(* pub fn set_len(&mut self, length): self.end = self.start + length *)
Definition u_set_len (s : uspan) (len : N) : res uspan := do e <- uadd (ustart s) len; Ok (mkuspan (ustart s) e).

(* pub fn with_len(&self, length): clone; cloned.set_len(length) *)
Definition u_with_len (s : uspan) (len : N) : res uspan := u_set_len s len.

(* pub fn push_by(&mut self, by): self.start += by; self.end += by *)
Definition u_push_by (s : uspan) (by_ : N) : res uspan :=
  do a <- uadd (ustart s) by_; do b <- uadd (uend s) by_; Ok (mkuspan a b).

(* pub fn pull_by(&mut self, by): self.start -= by; self.end -= by *)
Definition u_pull_by (s : uspan) (by_ : N) : res uspan :=
  do a <- usub (ustart s) by_; do b <- usub (uend s) by_; Ok (mkuspan a b).

(* pub fn pushed_by(&self, by): clone.start += by; clone.end += by *)
Definition u_pushed_by (s : uspan) (by_ : N) : res uspan :=
  do a <- uadd (ustart s) by_; do b <- uadd (uend s) by_; Ok (mkuspan a b).

(* pub fn pulled_by(&self, by) -> Option<Self>: if by > self.start { return None }; clone.start -= by; clone.end -= by
   (the second subtraction is NOT guarded: it underflows for an ill-formed span with end < by <= start) *)
Definition u_pulled_by (s : uspan) (by_ : N) : res (option uspan) :=
  if ustart s <? by_ then Ok None
  else do a <- usub (ustart s) by_; do b <- usub (uend s) by_; Ok (Some (mkuspan a b)).

(* pub fn with_offset(&self, by): clone.push_by(by) *)
Definition u_with_offset (s : uspan) (by_ : N) : res uspan := u_push_by s by_.

(* impl From<Range<usize>> for Span: Self::new(value.start, value.end) *)
Definition u_from_range (a b : N) : res uspan := u_new a b.
(* impl From<Span> for Range<usize>: value.start..value.end ;  impl IntoIterator for Span: self.start..self.end.
   A Range start..end yields start, start+1, .., end-1 and nothing when start >= end. *)
Definition u_to_range (s : uspan) : N * N := (ustart s, uend s).
Definition u_into_iter (s : uspan) : list N :=
  map (fun i => ustart s + N.of_nat i) (seq 0 (N.to_nat (uend s - ustart s))).

(* ---------- the view Base.v has of a span ---------- *)
Definition to_base (s : uspan) : span := mkspan (N.to_nat (ustart s)) (N.to_nat (uend s)).
Definition of_base (s : span) : uspan := mkuspan (N.of_nat (sstart s)) (N.of_nat (send s)).
(* a span a Rust `Span` value can hold *)
Definition urep (s : uspan) : Prop := ustart s <= usize_max /\ uend s <= usize_max.
Definition uwf (s : uspan) : Prop := ustart s <= uend s.

(* ---------- driver entry point (extracted): one span.rs function per opcode ----------
   result: None = the implementation panics; Some (tag, numbers, text) otherwise. *)
Inductive uout := UPanic | USpan (s : uspan) | UNum (n : N) | UBool (b : bool) | UNone | UText (t : text) | UNums (l : list N).

Definition out_span (r : res uspan) : uout := match r with Ok s => USpan s | Panic _ => UPanic end.

Definition run_span_op (op : N) (a b x y : N) (src : text) : uout :=
  let s := mkuspan a b in
  match op with
  | 0 => out_span (u_new a b)
  | 1 => out_span (u_new_with_len a b)
  | 2 => match u_len s with Ok n => UNum n | Panic _ => UPanic end
  | 3 => match u_is_empty s with Ok v => UBool v | Panic _ => UPanic end
  | 4 => match u_contains s x with Ok v => UBool v | Panic _ => UPanic end
  | 5 => UBool (u_overlaps_with s (mkuspan x y))
  | 6 => match u_try_get_content s src with Ok (Some t) => UText t | Ok None => UNone | Panic _ => UPanic end
  | 7 => match u_get_content s src with Ok t => UText t | Panic _ => UPanic end
  | 8 => match u_get_content_string s src with Ok t => UText t | Panic _ => UPanic end
  | 9 => out_span (u_set_len s x)
  | 10 => out_span (u_with_len s x)
  | 11 => out_span (u_push_by s x)
  | 12 => out_span (u_pull_by s x)
  | 13 => out_span (u_pushed_by s x)
  | 14 => match u_pulled_by s x with Ok (Some r) => USpan r | Ok None => UNone | Panic _ => UPanic end
  | 15 => out_span (u_with_offset s x)
  | 16 => out_span (u_from_range a b)
  | 17 => let r := u_to_range s in USpan (mkuspan (fst r) (snd r))
  | _ => UNums (u_into_iter s)
  end.
