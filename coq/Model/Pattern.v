(* Pattern.v — the `Pattern` implementations of harper-core/src/patterns/ as ONE inductive, with
   `matches p toks src : res nat` written after the Rust line by line: every `&tokens[a..]`,
   `&tokens[a..b]`, `tokens[i]`, `span.len()`, `Span::new`, `get_content` and `unwrap` is the checked
   operation of Base.v, every loop is structural recursion or explicit fuel.
   Also: PatternExt::find_all_matches (patterns/mod.rs) and run_on_chunk / `impl Linter for
   PatternLinter` (linting/pattern_linter.rs).   No proofs here.

   The 23 impls (tools/tables/patterns.py re-reads the `impl … Pattern for` sites on every run and
   Proofs/PatternProofs.v checks them against Model/PatternImpls.v):

     Rust                                     constructor
     impl<F: Fn(&Token,&[char])->bool> for F   PPred i        the closure is opaque: `leaf i tok src`
                                               PFlag b        closures that only test a TokenKind predicate
                                               PExactWord w   the closure of SequencePattern::then_exact_word
     AnyPattern                                PAny
     WhitespacePattern                         PWhitespace
     AnyCapitalization                         PAnyCap w
     WordSet                                   PWordSet ws
     WithinEditDistance                        PWithinEdit o  edit distance (C15) is the oracle `o`
     ImpliesQuantity                           PImpliesQuantity
     NominalPhrase                             PNominal
     SequencePattern                           PSeq ps
     EitherPattern                             PEither ps
     All                                       PAll ps
     NaivePatternGroup                         PNaive ps
     PatternMap<T>                             PMap ps
     RepeatingPattern                          PRepeat q required
     Invert                                    PInvert q      (as FIXED by 826a5e5: 0 on the empty slice)
     ConsumesRemainingPattern                  PConsumes q
     IsNotTitleCase<D>                         PNotTitle q o  make_title_case (C18) is the oracle `o`
     ExactPhrase                               PExactPhrase ps   (inner SequencePattern)
     IndefiniteArticle                         PIndefArticle     (inner SequencePattern [WordSet [a; an]])
     SimilarToPhrase                           PSimilar ps fs    (phrase, fuzzy_phrase)
     SplitCompoundWord                         PSplitCompound o  the dictionary lookup is the oracle `o`
     TokenKindPatternGroup                     PKindGroup m
     WordPatternGroup<P>                       PWordGroup m
   (`#[blanket(derive(Arc))]` on the trait adds `impl Pattern for Arc<P>`, which only delegates.) *)
Require Import Base Overlap TokenSeq.

Inductive pat :=
| PPred (i : nat)
| PFlag (b : nat)
| PExactWord (w : text)
| PAny
| PWhitespace
| PAnyCap (w : text)
| PWordSet (ws : list text)
| PWithinEdit (o : nat)
| PImpliesQuantity
| PNominal
| PSeq (ps : list pat)
| PEither (ps : list pat)
| PAll (ps : list pat)
| PNaive (ps : list pat)
| PMap (ps : list pat)
| PRepeat (q : pat) (required : nat)
| PInvert (q : pat)
| PConsumes (q : pat)
| PNotTitle (q : pat) (o : nat)
| PExactPhrase (ps : list pat)
| PIndefArticle
| PSimilar (ps fs : list pat)
| PSplitCompound (o : nat)
| PKindGroup (m : list (nat * pat))
| PWordGroup (m : list (text * pat)).

(* ---------- character helpers ---------- *)
(* char::eq_ignore_ascii_case: compare after to_ascii_lowercase *)
Definition ascii_lower (c : char) : char :=
  if (N.leb 65 c && N.leb c 90)%bool then N.add c 32 else c.
Definition eq_ignore_ascii_case (a b : char) : bool := N.eqb (ascii_lower a) (ascii_lower b).
(* a.iter().zip(b).all(eq_ignore_ascii_case): stops at the shorter of the two *)
Fixpoint zip_all_eq_ic (a b : text) : bool :=
  match a, b with
  | x :: a', y :: b' => eq_ignore_ascii_case x y && zip_all_eq_ic a' b'
  | _, _ => true
  end.
Fixpoint text_eqb (a b : text) : bool :=
  match a, b with
  | [], [] => true
  | x :: a', y :: b' => N.eqb x y && text_eqb a' b'
  | _, _ => false
  end.
Definition b2n (b : bool) : nat := if b then 1 else 0.

(* ---------- combinator bodies, generic in the recursive call `m` ---------- *)
Section Combinators.
  Variable P : Type.
  Variable m : P -> list tok -> res nat.       (* pat.matches(tokens, source) of a child *)

  (* SequencePattern::matches *)
  Fixpoint seq_go (toks : list tok) (ps : list P) (cursor : nat) : res nat :=
    match ps with
    | [] => Ok cursor
    | q :: r =>
        do rest <- slice_from toks cursor;                 (* &tokens[tok_cursor..] *)
        do n <- m q rest;
        if n =? 0 then Ok 0 else seq_go toks r (cursor + n)
    end.

  (* EitherPattern::matches: the longest *)
  Fixpoint either_go (toks : list tok) (ps : list P) (longest : nat) : res nat :=
    match ps with
    | [] => Ok longest
    | q :: r => do n <- m q toks; either_go toks r (if longest <? n then n else longest)
    end.

  (* All::matches: 0 as soon as one child does not match, else the longest *)
  Fixpoint all_go (toks : list tok) (ps : list P) (mx : nat) : res nat :=
    match ps with
    | [] => Ok mx
    | q :: r => do n <- m q toks; if n =? 0 then Ok 0 else all_go toks r (if mx <? n then n else mx)
    end.

  (* NaivePatternGroup::matches (find_map … unwrap_or_default) and PatternMap::matches: first non-zero *)
  Fixpoint first_go (toks : list tok) (ps : list P) : res nat :=
    match ps with
    | [] => Ok 0
    | q :: r => do n <- m q toks; if n =? 0 then first_go toks r else Ok n
    end.

  (* RepeatingPattern::matches; `loop` on fuel *)
  Section Rep.
    Variable q : P.
    Variable required : nat.
    Variable toks : list tok.
    Fixpoint rep_go (fuel cursor repetition : nat) : res nat :=
      match fuel with
      | 0 => Panic PFuel
      | S f =>
          do rest <- slice_from toks cursor;                 (* &tokens[tok_cursor..] *)
          do n <- m q rest;
          if n =? 0 then (if required <=? repetition then Ok cursor else Ok 0)
          else rep_go f (cursor + n) (S repetition)
      end.
  End Rep.

  (* HashMap::get on the key, then the pattern found (keys are unique in a map) *)
  Fixpoint keyed_go {K} (hit : K -> bool) (toks : list tok) (l : list (K * P)) : res nat :=
    match l with
    | [] => Ok 0
    | (k, q) :: r => if hit k then m q toks else keyed_go hit toks r
    end.
End Combinators.

Definition rep_fuel (toks : list tok) : nat := S (S (length toks)).

(* NominalPhrase::matches: `loop` with tokens.get(cursor) / tokens.get(cursor + 1), cursor += 2 *)
Fixpoint nominal_go (toks : list tok) (cursor : nat) : nat :=
  match toks with
  | [] => 0
  | t :: r =>
      if flag F_ADJ t || flag F_DET t then
        match r with
        | [] => 0
        | nx :: r' => if flag F_WS nx then nominal_go r' (cursor + 2) else 0
        end
      else if flag F_NOMINAL t then cursor + 1 else 0
  end.

(* WhitespacePattern::matches: position of the first non-whitespace token, or len *)
Fixpoint ws_go (toks : list tok) : nat :=
  match toks with
  | [] => 0
  | t :: r => if flag F_WS t then S (ws_go r) else 0
  end.

(* WordSet::matches inner loop *)
Fixpoint wordset_go (c : text) (ws : list text) : nat :=
  match ws with
  | [] => 0
  | w :: r => if negb (length c =? length w) then wordset_go c r
              else if zip_all_eq_ic c w then 1 else wordset_go c r
  end.

Definition ch (s : list nat) : text := map N.of_nat s.
Definition w_a := ch [97].  Definition w_an := ch [97; 110].  Definition w_many := ch [109; 97; 110; 121].

(* ---------- run_on_chunk (pattern_linter.rs), for any `linter.pattern().matches(.., source)` ----------
   returns, for every match, the token range handed to match_to_lint (start, start + len);
   match_to_lint itself is a rule body (opaque) *)
Section Loop.
  Variable mf : list tok -> res nat.
  Fixpoint roc_loop (chunk : list tok) (fuel cursor : nat) : res (list (nat * nat)) :=
    match fuel with
    | 0 => Panic PFuel
    | S f =>
        if length chunk <=? cursor then Ok []                        (* if tok_cursor >= chunk.len() { break } *)
        else
          do rest <- slice_from chunk cursor;                        (* &chunk[tok_cursor..] *)
          do n <- mf rest;
          if negb (n =? 0) then
            do _m <- slice_chk chunk cursor (cursor + n);            (* &chunk[tok_cursor..tok_cursor + match_len] *)
            do tl <- roc_loop chunk f (cursor + n);
            Ok ((cursor, cursor + n) :: tl)
          else roc_loop chunk f (cursor + 1)
    end.
  Definition run_on_chunk_f (chunk : list tok) : res (list (nat * nat)) :=
    roc_loop chunk (S (length chunk)) 0.
End Loop.

Section Matches.
  (* the blanket impl's closure number i, applied to (token, source) *)
  Variable leaf : nat -> tok -> text -> res bool.
  (* logic that belongs to other properties / third parties, by number: edit distance <= max (C15),
     make_title_case(..) != matched text (C18), dictionary lookup of the merged word (C06) *)
  Variable oracle : nat -> list tok -> text -> res bool.

  (* ----- the leaves: every one looks at tokens.first() only (NominalPhrase / Whitespace scan on) ----- *)
  Definition m_pred (i : nat) (toks : list tok) (src : text) : res nat :=
    match toks with
    | [] => Ok 0                                   (* if tokens.is_empty() { return 0 } *)
    | t :: _ => do b <- leaf i t src; Ok (b2n b)   (* tokens[0] *)
    end.
  Definition m_flag (b : nat) (toks : list tok) : res nat :=
    match toks with [] => Ok 0 | t :: _ => Ok (b2n (flag b t)) end.
  (* then_exact_word: the char-by-char loop plus the final length test is equality of the two strings *)
  Definition m_exact_word (w : text) (toks : list tok) (src : text) : res nat :=
    match toks with
    | [] => Ok 0
    | t :: _ =>
        if negb (flag F_WORD t) then Ok 0
        else do c <- get_content (tspan t) src; Ok (b2n (text_eqb c w))
    end.
  Definition m_any (toks : list tok) : res nat := match toks with [] => Ok 0 | _ => Ok 1 end.
  Definition m_anycap (w : text) (toks : list tok) (src : text) : res nat :=
    match toks with
    | [] => Ok 0
    | t :: _ =>
        if negb (flag F_WORD t) then Ok 0
        else do n <- span_len (tspan t);                           (* tok.span.len() *)
             if negb (n =? length w) then Ok 0
             else do c <- get_content (tspan t) src; Ok (b2n (zip_all_eq_ic c w))
    end.
  Definition m_wordset (ws : list text) (toks : list tok) (src : text) : res nat :=
    match toks with
    | [] => Ok 0
    | t :: _ =>
        if negb (flag F_WORD t) then Ok 0
        else do c <- get_content (tspan t) src; Ok (wordset_go c ws)
    end.
  Definition m_within_edit (o : nat) (toks : list tok) (src : text) : res nat :=
    match toks with
    | [] => Ok 0
    | t :: _ =>
        if negb (flag F_WORD t) then Ok 0
        else do _c <- get_content (tspan t) src; do b <- oracle o [t] src; Ok (b2n b)
    end.
  (* ImpliesQuantity::implies_plurality(..).is_some() *)
  Definition m_implies (toks : list tok) (src : text) : res nat :=
    match toks with
    | [] => Ok 0
    | t :: _ =>
        if flag F_WORDMETA t then
          if flag F_DET t then Ok 1
          else do c <- get_content (tspan t) src;
               Ok (b2n (text_eqb c w_a || text_eqb c w_an || text_eqb c w_many))
        else Ok (b2n (flag F_NUMBER t))
    end.

  (* inner SequencePatterns built by constructors out of fixed parts: the same seq_go, over closures *)
  Definition seq_fixed (parts : list (list tok -> res nat)) (toks : list tok) : res nat :=
    seq_go (list tok -> res nat) (fun f ts => f ts) toks parts 0.
  (* IndefiniteArticle: SequencePattern::default().then(WordSet::new(&["a", "an"])) *)
  Definition m_indef_article (toks : list tok) (src : text) : res nat :=
    seq_fixed [fun ts => m_wordset [w_a; w_an] ts src] toks.
  (* SplitCompoundWord: inner = then_any_word().then_whitespace().then_any_word(); tokens[0], tokens[2] *)
  Definition m_split_compound (o : nat) (toks : list tok) (src : text) : res nat :=
    do n <- seq_fixed [m_flag F_WORD; (fun ts => Ok (ws_go ts)); m_flag F_WORD] toks;
    if negb (n =? 3) then Ok 0
    else do a <- nth_chk toks 0;
         do b <- nth_chk toks 2;
         do _ca <- get_content (tspan a) src;                      (* get_merged_word *)
         do _cb <- get_content (tspan b) src;
         do found <- oracle o [a; b] src;
         Ok (if found then n else 0).

  Fixpoint matches (p : pat) (toks : list tok) (src : text) {struct p} : res nat :=
    match p with
    | PPred i => m_pred i toks src
    | PFlag b => m_flag b toks
    | PExactWord w => m_exact_word w toks src
    | PAny => m_any toks
    | PWhitespace => Ok (ws_go toks)
    | PAnyCap w => m_anycap w toks src
    | PWordSet ws => m_wordset ws toks src
    | PWithinEdit o => m_within_edit o toks src
    | PImpliesQuantity => m_implies toks src
    | PNominal => Ok (nominal_go toks 0)
    | PSeq ps => seq_go pat (fun q ts => matches q ts src) toks ps 0
    | PEither ps => either_go pat (fun q ts => matches q ts src) toks ps 0
    | PAll ps => all_go pat (fun q ts => matches q ts src) toks ps 0
    | PNaive ps => first_go pat (fun q ts => matches q ts src) toks ps
    | PMap ps => first_go pat (fun q ts => matches q ts src) toks ps
    | PRepeat q required => rep_go pat (fun q ts => matches q ts src) q required toks (rep_fuel toks) 0 0
    | PInvert q =>
        match toks with
        | [] => Ok 0                                                   (* tokens.is_empty() || … *)
        | _ => do n <- matches q toks src; Ok (if n =? 0 then 1 else 0)
        end
    | PConsumes q =>
        do n <- matches q toks src; Ok (if n =? length toks then n else 0)
    | PNotTitle q o =>
        do n <- matches q toks src;
        if n =? 0 then Ok 0
        else do sl <- slice_chk toks 0 n;                              (* tokens[0..inner_match] *)
             do sp <- hull_unwrap sl;                                   (* .span().unwrap() *)
             do _c <- get_content sp src;
             do differs <- oracle o sl src;                             (* make_title_case(..) != matched_chars *)
             Ok (if differs then n else 0)
    | PExactPhrase ps => seq_go pat (fun q ts => matches q ts src) toks ps 0
    | PIndefArticle => m_indef_article toks src
    | PSimilar ps fs =>
        do exact <- seq_go pat (fun q ts => matches q ts src) toks ps 0;
        do fuzzy <- seq_go pat (fun q ts => matches q ts src) toks fs 0;
        Ok (if (exact =? 0) && (0 <? fuzzy) then Nat.max exact fuzzy else 0)
    | PSplitCompound o => m_split_compound o toks src
    | PKindGroup m =>
        match toks with
        | [] => Ok 0
        | t :: _ => keyed_go pat (fun q ts => matches q ts src) (fun k => k =? tkid t) toks m
        end
    | PWordGroup m =>
        match toks with
        | [] => Ok 0
        | t :: _ =>
            if negb (flag F_WORD t) then Ok 0
            else do c <- get_content (tspan t) src;
                 keyed_go pat (fun q ts => matches q ts src) (fun k => text_eqb k c) toks m
        end
    end.

  (* ---------- PatternExt::find_all_matches ---------- *)
  (* for i in 0..tokens.len() { len = matches(&tokens[i..]); if len > 0 { push(Span::new_with_len(i, len)) } } *)
  Fixpoint fam_scan (p : pat) (toks : list tok) (src : text) (i n : nat) : res (list span) :=
    match n with
    | 0 => Ok []
    | S n' =>
        do rest <- slice_from toks i;
        do len <- matches p rest src;
        do tl <- fam_scan p toks src (S i) n';
        Ok (if 0 <? len then span_new_with_len i len :: tl else tl)
    end.
  (* for i in 0..found.len() - 1 { if found[i].overlaps_with(found[i + 1]) { remove_indices.push_back(i + 1) } } *)
  Fixpoint fam_overlaps (i : nat) (found : list span) : list nat :=
    match found with
    | cur :: ((next :: _) as r) =>
        if overlaps cur next then S i :: fam_overlaps (S i) r else fam_overlaps (S i) r
    | _ => []
    end.
  Definition find_all_matches (p : pat) (toks : list tok) (src : text) : res (list span) :=
    do found <- fam_scan p toks src 0 (length toks);
    if length found <? 2 then Ok found
    else Ok (remove_indices 0 (fam_overlaps 0 found) found).

  (* run_on_chunk for the pattern p *)
  Definition run_on_chunk (p : pat) (chunk : list tok) (src : text) : res (list (nat * nat)) :=
    run_on_chunk_f (fun ts => matches p ts src) chunk.

  (* impl Linter for PatternLinter: for chunk in document.iter_chunks() { run_on_chunk(..) } *)
  Fixpoint lint_chunks (p : pat) (cs : list (list tok)) (src : text) : res (list (list (nat * nat))) :=
    match cs with
    | [] => Ok []
    | c :: r => do x <- run_on_chunk p c src; do tl <- lint_chunks p r src; Ok (x :: tl)
    end.
  Definition pattern_lint (p : pat) (toks : list tok) (src : text) : res (list (list (nat * nat))) :=
    do cs <- iter_chunks toks; lint_chunks p cs src.
End Matches.

(* ---------- Invert as it was before commit 826a5e5 (kept for coq/History) ---------- *)
Definition invert_old (inner : list tok -> res nat) (toks : list tok) : res nat :=
  do n <- inner toks; Ok (if n =? 0 then 1 else 0).
