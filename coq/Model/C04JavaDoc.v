(* C04JavaDoc.v — executable models of the JavaDoc / JSDoc glue (C04, phase 3).  No proofs here.

   Mirrors, line by line (tree of /repo as it is NOW):
     harper-comments/src/comment_parsers/jsdoc.rs    parse_inline_tag, mark_inline_tags, parse_line (block tag), JsDoc::parse
     harper-comments/src/comment_parsers/javadoc.rs  JavaDoc::parse (leader removal, push_by, inline tags, the @tag window)
     harper-core/src/vec_ext.rs                      VecExt::remove_indices

   Token kinds are the codes of harness/src/bin/c04.rs `kind_code` (the model inspects only these):
     2 Unlintable, 3 Newline(1), 4 Newline(2), 1000+n Newline(n), 2000+n Space(n), 5 Word,
     61 Punctuation(At), 62 Punctuation(Star), 63 Punctuation(OpenCurly), 64 Punctuation(CloseCurly). *)
Require Import Base Mask.

Definition K_WORD : N := 5%N.
Definition K_AT : N := 61%N.
Definition K_STAR : N := 62%N.
Definition K_OPEN_CURLY : N := 63%N.
Definition K_CLOSE_CURLY : N := 64%N.

Definition is_space_kind (k : N) : bool := ((2000 <=? k) && (k <? 3000))%N.                       (* Space(_) *)
Definition is_newline_kind (k : N) : bool := ((k =? 3) || (k =? 4) || ((1000 <=? k) && (k <? 2000)))%N.   (* Newline(_) *)
Definition is_at (t : tok) : bool := (tkind t =? K_AT)%N.
Definition is_word (t : tok) : bool := (tkind t =? K_WORD)%N.
Definition is_space (t : tok) : bool := is_space_kind (tkind t).
Definition is_open_curly (t : tok) : bool := (tkind t =? K_OPEN_CURLY)%N.
Definition is_close_curly (t : tok) : bool := (tkind t =? K_CLOSE_CURLY)%N.

(* `tok.kind = TokenKind::Unlintable` *)
Definition unl (t : tok) : tok := mktok (tspan t) K_UNLINTABLE.

(* ====================================================================================== *)
(** * jsdoc.rs: parse_inline_tag *)

(* let mut cursor = 3;
   while !matches!(tokens.get(cursor), Some(CloseCurly)) { tokens.get(cursor)?; cursor += 1; }
   Some(cursor + 1)                       `rest` = tokens[cursor..] *)
Fixpoint scan_close (rest : list tok) (cursor : nat) : option nat :=
  match rest with
  | [] => None                                             (* an unterminated tag is not a tag *)
  | t :: r => if is_close_curly t then Some (cursor + 1) else scan_close r (S cursor)
  end.

Definition parse_inline_tag (toks : list tok) : option nat :=
  match toks with
  | a :: b :: c :: rest =>
      if is_open_curly a && is_at b && is_word c then scan_close rest 3 else None
  | _ => None
  end.

(* ====================================================================================== *)
(** * jsdoc.rs: mark_inline_tags — the cursor loop, with explicit fuel (F4 was a hang of this loop) *)

(* for tok in &mut tokens[a..b] { tok.kind = Unlintable }: the range is a checked slice *)
Definition mark_range (toks : list tok) (a b : nat) : res (list tok) :=
  if (b <? a) || (length toks <? b) then Panic PIndex
  else Ok (firstn a toks ++ map unl (slice toks a b) ++ skipn b toks).

Fixpoint mit_fuel (fuel : nat) (toks : list tok) (cursor : nat) : res (list tok) :=
  match fuel with
  | 0 => Panic PFuel
  | S f =>
      if length toks <=? cursor then Ok toks                                  (* if cursor >= tokens.len() { break } *)
      else
        match position is_open_curly (skipn cursor toks) with                 (* &tokens[cursor..] ... .map(|i| i + cursor) *)
        | None => Ok toks                                                     (* else { break } *)
        | Some i =>
            let cursor := i + cursor in
            match parse_inline_tag (skipn cursor toks) with
            | Some p =>
                do toks' <- mark_range toks cursor (cursor + p);
                mit_fuel f toks' (cursor + p)                                 (* cursor += p; continue *)
            | None => mit_fuel f toks (cursor + 1)
            end
        end
  end.

Definition mark_inline_tags (toks : list tok) : res (list tok) := mit_fuel (S (length toks)) toks 0.

(* ====================================================================================== *)
(** * jsdoc.rs: parse_line (block tag) and JsDoc::parse with the real post-passes *)

(* new_tokens.iter().tuple_windows().position(|(a, b)| a is At && b is Word(..)) *)
Fixpoint block_tag_pos (l : list tok) : option nat :=
  match l with
  | [] => None
  | a :: r =>
      match r with
      | [] => None
      | b :: _ => if is_at a && is_word b then Some 0 else option_map S (block_tag_pos r)
      end
  end.

(* mark_inline_tags(&mut new_tokens); if let Some(tag_start) = .. { for token in &mut new_tokens[tag_start..] { Unlintable } } *)
Definition jsdoc_post (l : list tok) : res (list tok) :=
  do l1 <- mark_inline_tags l;
  match block_tag_pos l1 with
  | Some p => do l2 <- mark_range l1 p (length l1); Ok l2
  | None => Ok l1
  end.

Section JsDocFull.
  Variable is_whitespace : N -> bool.
  Variable inner : text -> list tok.

  Definition jsdoc_full_line (line : text) : res (list tok) :=
    do actual <- without_initiators is_whitespace line;
    do len <- span_len actual;
    if len =? 0 then Ok []
    else do content <- get_content actual line;
         do toks <- jsdoc_post (inner content);
         Ok (map (tpush (sstart actual)) toks).

  Fixpoint jsdoc_full_loop (total : nat) (lines : list text) (traversed : nat) : res (list tok) :=
    match lines with
    | [] => Ok []
    | line :: rest =>
        do toks <- jsdoc_full_line line;
        let toks := if traversed + length line <? total
                    then toks ++ [mktok (span_new_with_len (length line) 1) K_NEWLINE1] else toks in
        do r <- jsdoc_full_loop total rest (traversed + length line + 1);
        Ok (map (tpush traversed) toks ++ r)
    end.
  Definition jsdoc_full_parse (src : text) : res (list tok) :=
    jsdoc_full_loop (length src) (split_lines src) 0.
End JsDocFull.

(* ====================================================================================== *)
(** * javadoc.rs: JavaDoc::parse *)

Definition is_removable (t : tok) : bool := (tkind t =? K_STAR)%N || is_space t.

(* the `while cursor < tokens.len()` loop with its inner `loop`: `after_nl` = control is in the inner loop
   (the previous kept-or-removed token chain started with a Newline); every branch advances the cursor by
   one, the non-removable token that ends the inner loop is looked at again by the outer loop, where only
   `is Newline` matters.  The result is `remove_these` (increasing indices) *)
Fixpoint jd_removable (toks : list tok) (cursor : nat) (after_nl : bool) : list nat :=
  match toks with
  | [] => []
  | t :: r =>
      if after_nl && is_removable t then cursor :: jd_removable r (S cursor) true
      else jd_removable r (S cursor) (is_newline_kind (tkind t))
  end.

(* VecExt::remove_indices: retain with the counter i and the queue of indices *)
Fixpoint remove_indices {A} (l : list A) (i : nat) (q : list nat) : list A :=
  match l with
  | [] => []
  | x :: r =>
      match q with
      | next_remove :: q' =>
          if i =? next_remove then remove_indices r (S i) q' else x :: remove_indices r (S i) q
      | [] => x :: remove_indices r (S i) []
      end
  end.

(* tokens[i].kind = Unlintable: checked index *)
Definition set_unl (toks : list tok) (i : nat) : res (list tok) :=
  do t <- nth_chk toks i; set_nth toks i (unl t).

(* the body of `for i in 3..tokens.len()` *)
Definition jd_step (toks : list tok) (i : nat) : res (list tok) :=
  do i3 <- sub_chk i 3; do i2 <- sub_chk i 2; do i1 <- sub_chk i 1;
  do a <- nth_chk toks i3; do b <- nth_chk toks i2; do c <- nth_chk toks i1; do d <- nth_chk toks i;
  if is_at a && is_word b && is_space c && is_word d then
    do t1 <- set_unl toks i3; do t2 <- set_unl t1 i2; do t3 <- set_unl t2 i1; set_unl t3 i
  else Ok toks.

Fixpoint jd_loop (toks : list tok) (idx : list nat) : res (list tok) :=
  match idx with
  | [] => Ok toks
  | i :: r => do toks' <- jd_step toks i; jd_loop toks' r
  end.
Definition jd_tags (toks : list tok) : res (list tok) := jd_loop toks (seq 3 (length toks - 3)).

Section JavaDoc.
  Variable is_whitespace : N -> bool.
  Variable html : text -> list tok.            (* self.html_parser *)

  Definition javadoc_parse (src : text) : res (list tok) :=
    do actual <- without_initiators is_whitespace src;
    do content <- get_content actual src;
    let tokens := html content in
    let tokens := remove_indices tokens 0 (jd_removable tokens 0 false) in
    let tokens := map (tpush (sstart actual)) tokens in
    do tokens <- mark_inline_tags tokens;
    jd_tags tokens.
End JavaDoc.

(* ====================================================================================== *)
(** * driver entry points *)
Definition run_mark_inline_tags (l : list (nat * nat * N)) : option (list (nat * nat * N)) :=
  opt triples_of (mark_inline_tags (toks_of l)).
Definition run_jsdoc_full (tbl : list (text * list (nat * nat * N))) (t : text) : option (list (nat * nat * N)) :=
  opt triples_of (jsdoc_full_parse ws_table (lookup_inner (tbl_of tbl)) t).
Definition run_javadoc (tbl : list (text * list (nat * nat * N))) (t : text) : option (list (nat * nat * N)) :=
  opt triples_of (javadoc_parse ws_table (lookup_inner (tbl_of tbl)) t).
