(* C11Cache.v — LintGroup::lint WITH its chunk cache, over the dispatch model of LintGroupCfg.v.

     for chunk in document.iter_chunks() {
         let Some(chunk_span) = chunk.span() else { continue };
         let key = (chunk_chars, hash_one(&self.config), token_hash);
         let mut chunk_results = if let Some(hit) = self.chunk_pattern_cache.get(&key) { hit.clone() }
             else { <enabled pattern rules in key order>; pull_by(chunk start); cache.put(key, ..clone()); .. };
         push_by(chunk start); results.append(..) }

   The key is split in two: `chunk_key d ch : CK` = (the chunk's characters, the hash of its tokens) and
   `cfg_hash c : HK` = the hash of the configuration.  The LRU is a list of entries that may lose ANY entries
   before ANY lookup (one keep-predicate per chunk of every lint call — the adversary; covers every capacity and
   replacement order and makes get's promotion unobservable).  A lint call returns the cache even when it
   panics (entries put before the panic stay: the harness catches panics and goes on using the linter).
   The rule maps of the group are fixed along a history; the configuration changes (HSetCfg).
   No proofs here. *)
Require Import Base LintGroupCfg.
From Coq Require Import List NArith Bool Arith.
Import ListNotations.

Section CachedDispatch.
  Variables body doc chunk srule prule : Type.
  Variable chunks : doc -> list chunk.
  Variable chunk_start : chunk -> option nat.
  Variable run_struct : srule -> doc -> list (glint body).
  Variable run_pat : prule -> doc -> chunk -> list (glint body).
  Variables CK HK : Type.
  Variable ck_eqb : CK -> CK -> bool.
  Variable hk_eqb : HK -> HK -> bool.
  Variable chunk_key : doc -> chunk -> CK.
  Variable cfg_hash : config -> HK.

  Definition ckey := (CK * HK)%type.
  Definition cache := list (ckey * list (glint body)).
  Definition key_eqb (a b : ckey) : bool := ck_eqb (fst a) (fst b) && hk_eqb (snd a) (snd b).
  Fixpoint c_get (k : ckey) (c : cache) : option (list (glint body)) :=
    match c with
    | [] => None
    | (k', v) :: t => if key_eqb k k' then Some v else c_get k t
    end.
  Definition c_put (k : ckey) (v : list (glint body)) (c : cache) : cache := (k, v) :: c.
  Definition c_evict (keep : ckey -> bool) (c : cache) : cache := filter (fun e => keep (fst e)) c.

  (* one iteration of the chunk loop: (cache afterwards, lints in document space or the panic) *)
  Definition lint_chunk_c (g : group srule prule) (d : doc) (c : cache) (keep : ckey -> bool) (ch : chunk)
    : cache * res (list (glint body)) :=
    match chunk_start ch with
    | None => (c, Ok [])
    | Some st =>
        let c := c_evict keep c in
        let k := (chunk_key d ch, cfg_hash (g_cfg g)) in
        match c_get k c with
        | Some hit => (c, Ok (map (push_lint st) hit))
        | None =>
            match mapM (pull_lint st) (chunk_pattern_lints run_pat g d ch) with
            | Ok rel => (c_put k rel c, Ok (map (push_lint st) rel))
            | Panic p => (c, Panic p)
            end
        end
    end.
  Fixpoint lint_chunks_c (g : group srule prule) (d : doc) (c : cache) (evs : list (ckey -> bool)) (chs : list chunk)
    : cache * res (list (glint body)) :=
    match chs with
    | [] => (c, Ok [])
    | ch :: t =>
        let r1 := lint_chunk_c g d c (hd (fun _ => true) evs) ch in
        match snd r1 with
        | Panic p => (fst r1, Panic p)
        | Ok a =>
            let r2 := lint_chunks_c g d (fst r1) (tl evs) t in
            (fst r2, match snd r2 with Ok b => Ok (a ++ b) | Panic p => Panic p end)
        end
    end.
  Definition lint_group_c (g : group srule prule) (d : doc) (c : cache) (evs : list (ckey -> bool))
    : cache * res (list (glint body)) :=
    let r := lint_chunks_c g d c evs (chunks d) in
    (fst r, match snd r with Ok p => Ok (struct_part run_struct g d ++ p) | Panic p => Panic p end).

  (* a long-lived LintGroup: the configuration is replaced, documents are linted *)
  Inductive hop :=
  | HSetCfg (c : config)
  | HLint (d : doc) (evs : list (ckey -> bool)).

  Fixpoint run_hist (g : group srule prule) (h : list hop) (cfg : config) (c : cache) : list (res (list (glint body))) :=
    match h with
    | [] => []
    | HSetCfg cfg' :: t => run_hist g t cfg' c
    | HLint d evs :: t =>
        let r := lint_group_c (g_with_cfg g cfg) d c evs in
        snd r :: run_hist g t cfg (fst r)
    end.
  (* the (configuration, document) of every lint step, in order *)
  Fixpoint trace (h : list hop) (cfg : config) : list (config * doc) :=
    match h with
    | [] => []
    | HSetCfg cfg' :: t => trace t cfg'
    | HLint d _ :: t => (cfg, d) :: trace t cfg
    end.
End CachedDispatch.

Arguments HSetCfg {doc CK HK} c.
Arguments HLint {doc CK HK} d evs.

(* ---- the data instance for the correspondence on histories ---- *)
(* a chunk = (index in its document, start or None when empty, id of its key = (characters, tokens)); a document =
   (its index, its chunks); a rule = what it returns per document (and chunk); the configuration hash = the
   sequence of Hasher::write calls of impl Hash (hash_calls) *)
Definition hchunk := (nat * option nat * nat)%type.
Definition hdoc := (nat * list hchunk)%type.
Definition hsrule := list (list (glint nat)).
Definition hprule := list (list (list (glint nat))).
Definition h_chunks (d : hdoc) : list hchunk := snd d.
Definition h_start (ch : hchunk) : option nat := snd (fst ch).
Definition h_key (_ : hdoc) (ch : hchunk) : nat := snd ch.
Definition h_run_struct (r : hsrule) (d : hdoc) : list (glint nat) := nth (fst d) r [].
Definition h_run_pat (r : hprule) (d : hdoc) (ch : hchunk) : list (glint nat) := nth (fst (fst ch)) (nth (fst d) r []) [].
Fixpoint leqb {A} (eqb : A -> A -> bool) (a b : list A) : bool :=
  match a, b with
  | [], [] => true
  | x :: a', y :: b' => eqb x y && leqb eqb a' b'
  | _, _ => false
  end.
Definition hk_eqb_calls : list (list N) -> list (list N) -> bool := leqb (leqb N.eqb).

Inductive hstep :=
| SCfg (o : cop)                 (* a configuration operation on the group's config (register index ignored) *)
| SLint (d : nat).               (* lint document number d *)
Inductive hadd :=
| AStruct (k : key) (r : hsrule)
| APattern (k : key) (r : hprule).

Definition hgroup := group hsrule hprule.
Definition h_build (adds : list hadd) : hgroup :=
  fold_left (fun g a => match a with
                        | AStruct k r => fst (g_add g k r)
                        | APattern k r => fst (g_add_pattern g k r)
                        end) adds (g_empty hsrule hprule).
Definition hcache := cache nat nat (list (list N)).
(* result of a lint step: the lints (or the panic), the key ids of the chunks that MISSED (in order), and the number
   of pattern rules that are switched on — (misses x enabled rules) is what the harness observes of the real cache *)
Fixpoint h_run (g : hgroup) (docs : list hdoc) (steps : list hstep) (cfg : config) (c : hcache)
  : list (res (list (glint nat)) * list nat * nat) :=
  match steps with
  | [] => []
  | SCfg o :: t => h_run g docs t (reg (exec_cop [cfg] (retarget o)) 0) c
  | SLint i :: t =>
      let d := nth i docs (i, []) in
      let r := lint_group_c nat hdoc hchunk hsrule hprule h_chunks h_start h_run_struct h_run_pat nat (list (list N))
                 Nat.eqb hk_eqb_calls h_key hash_calls (g_with_cfg g cfg) d c [] in
      let fresh := firstn (length (fst r) - length c) (fst r) in
      (snd r, rev (map (fun e => fst (fst e)) fresh),
       length (filter (fun e => is_rule_enabled cfg (fst e)) (g_patterns g))) :: h_run g docs t cfg (fst r)
  end.
Definition run_history (adds : list hadd) (docs : list hdoc) (steps : list hstep)
  : list (res (list (glint nat)) * list nat * nat) :=
  let g := h_build adds in h_run g docs steps (g_cfg g) [].
