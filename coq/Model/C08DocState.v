(* C08DocState.v — (1) the u32 casts of pos_conv.rs, (2) harper-ls/src/document_state.rs as a state
   machine (document, linter + its config, ignored lints; set_document / set_linter / ignore_lint /
   generate_diagnostics / generate_code_actions) together with diagnostics.rs:lint_to_code_actions and
   lints_to_diagnostics in full, (3) the handler glue of backend.rs (code_action, publish_diagnostics,
   the HarperIgnoreLint command).  Code as of cfbe845.  No proofs here.
   Specification side (independent of the state machine): what a history leaves behind (`doc_after`, ...)
   and the single-shot answer `code_actions_of` for a document. *)
Require Import Base Suggestion PosConv Tables_posconvcasts C08TokenAt.

(* ------------------------------------------------------------------------------------------ *)
(*  (1) `lines as u32`, `cols as u32`                                                           *)
(* ------------------------------------------------------------------------------------------ *)
(* usize -> u32 keeps the low 32 bits.  Computed in N (binary): the extracted nat is unary. *)
Definition u32_modulus : N := (2 ^ N.of_nat position_line_bits)%N.
Definition as_u32 (x : nat) : nat := N.to_nat (N.of_nat x mod u32_modulus)%N.
Definition fits_u32 (x : nat) : Prop := (N.of_nat x < u32_modulus)%N.

(* Position { line: lines as u32, character: cols as u32 } *)
Definition index_to_position_u32 (source : text) (index : nat) : res position :=
  do p <- index_to_position source index;
  Ok (as_u32 (fst p), as_u32 (snd p)).

Definition span_to_range_u32 (source : text) (sp : span) : res range :=
  do a <- index_to_position_u32 source (sstart sp);
  do b <- index_to_position_u32 source (send sp);
  Ok (a, b).

(* position_to_index: `position.line as usize`, `position.character as usize` widen a u32 (lossless on
   the 64-bit targets; `line as usize + 1` cannot overflow there): PosConv.position_to_index applied to
   numbers below 2^32 IS the code.  A Position cannot hold anything else. *)

Definition text_edit_u32 (s : suggestion) (sp : span) (source : text) : res (range * text) :=
  do r <- span_to_range_u32 source sp;
  do nt <- new_text s sp source;
  Ok (r, nt).

(* the widest line of a text in UTF-16 code units ('\n' excluded); `cur` = units of the current line so far *)
Fixpoint widest (t : text) (cur : nat) : nat :=
  match t with
  | [] => cur
  | c :: t' => if is_nl c then Nat.max cur (widest t' 0) else widest t' (cur + len_utf16 c)
  end.

(* the exact domain in which the casts are the identity: fewer than 2^32 line ends, every line narrower
   than 2^32 UTF-16 code units *)
Definition text_fits_u32 (t : text) : Prop := fits_u32 (count_nl t) /\ fits_u32 (widest t 0).

(* ------------------------------------------------------------------------------------------ *)
(*  (2) DocumentState                                                                           *)
(* ------------------------------------------------------------------------------------------ *)
(* harper_core::linting::Lint: span, priority, suggestions, lint_kind.is_spelling(), and a tag standing
   for the rest (lint_kind, message) *)
Record dlint := mkdlint { lspan : span; lprio : nat; lsugs : list suggestion; lspell : bool; ltag : N }.

(* what a code-action answer is made of *)
Inductive action :=
| AEdit (r : range) (nt : text) (tag : N)   (* CodeAction quick fix: WorkspaceEdit{url -> [TextEdit{range,new_text}]} *)
| AIgnore (l : dlint)                       (* Command HarperIgnoreLint [url, lint as JSON] *)
| AAddUser (w : text)                       (* Command HarperAddToUserDict [word, url] *)
| AAddFile (w : text)                       (* Command HarperAddToFileDict [word, url] *)
| AOpenUrl (u : text).                      (* Command HarperOpen [url text] *)

Definition diag := (range * nat * N)%type.  (* range, LSP severity number, tag (message) *)

Fixpoint map_res {A B} (f : A -> res B) (l : list A) : res (list B) :=
  match l with
  | [] => Ok []
  | x :: r => do y <- f x; do ys <- map_res f r; Ok (y :: ys)
  end.

Fixpoint mem_N (k : N) (l : list N) : bool :=
  match l with [] => false | x :: r => (x =? k)%N || mem_N k r end.

(* Vec::sort_by_key(|l| l.priority): stable *)
Fixpoint insert_by_prio (l : dlint) (ls : list dlint) : list dlint :=
  match ls with
  | [] => [l]
  | x :: r => if lprio l <=? lprio x then l :: x :: r else x :: insert_by_prio l r
  end.
Definition sort_by_prio (ls : list dlint) : list dlint := fold_right insert_by_prio [] ls.

(* DiagnosticSeverity::to_lsp, read from config.rs by tools/tables/posconvcasts.py *)
Definition severity_to_lsp (sev : nat) : nat :=
  match find (fun p => fst p =? sev) severity_to_lsp_table with Some p => snd p | None => 0 end.

(* diagnostics.rs:lint_to_code_actions: one quick fix per suggestion, the ignore command, for spelling
   lints the two dictionary commands; the whole list reversed when code_action_config.force_stable *)
Definition lint_to_code_actions (l : dlint) (src : text) (force_stable : bool) : res (list action) :=
  do edits <- map_res (fun s => do e <- text_edit_u32 s (lspan l) src; Ok (AEdit (fst e) (snd e) (ltag l))) (lsugs l);
  do dict <- (if lspell l
              then do orig <- get_content (lspan l) src; Ok [AAddUser orig; AAddFile orig]   (* get_content_string *)
              else Ok []);
  let results := edits ++ [AIgnore l] ++ dict in
  Ok (if force_stable then rev results else results).

(* diagnostics.rs:lints_to_diagnostics *)
Definition lints_to_diagnostics (src : text) (lints : list dlint) (sev : nat) : res (list diag) :=
  map_res (fun l => do r <- span_to_range_u32 src (lspan l); Ok (r, severity_to_lsp sev, ltag l)) lints.

Section DocState.
  Variable doc : Type.                         (* harper_core::Document *)
  Variable source : doc -> text.               (* Document::get_full_content = get_source *)
  Variable cfg : Type.                         (* LintGroupConfig *)
  Variable fill_with_curated : cfg -> cfg.
  Variable ctx_key : dlint -> doc -> N.        (* IgnoredLints::hash_lint_context (LintContext + DefaultHasher) *)
  Variable url_token_at : doc -> nat -> option span.
    (* Document::get_token_at_char_index(i) when that token is a TokenKind::Url: its span *)

  Record dstate := mkdstate {
    ds_doc : doc;
    ds_lint : cfg -> doc -> list dlint;        (* LintGroup::lint as a function of its config and the document *)
    ds_config : cfg;                           (* linter.config *)
    ds_ignored : list N                        (* ignored_lints.context_hashes (a set: only membership is used) *)
  }.

  Definition set_config (s : dstate) (c : cfg) : dstate :=
    mkdstate (ds_doc s) (ds_lint s) c (ds_ignored s).

  (* IgnoredLints::remove_ignored *)
  Definition remove_ignored (ign : list N) (d : doc) (lints : list dlint) : list dlint :=
    match ign with
    | [] => lints
    | _ => filter (fun l => negb (mem_N (ctx_key l d) ign)) lints
    end.

  (* the first lines of generate_diagnostics and of generate_code_actions:
       let temp = self.linter.config.clone(); self.linter.config.fill_with_curated();
       let mut lints = self.linter.lint(&self.document); self.linter.config = temp;
       self.ignored_lints.remove_ignored(&mut lints, &self.document); *)
  Definition lint_current (s : dstate) : dstate * list dlint :=
    let temp := ds_config s in
    let s1 := set_config s (fill_with_curated (ds_config s)) in
    let lints := ds_lint s1 (ds_config s1) (ds_doc s1) in
    let s2 := set_config s1 temp in
    (s2, remove_ignored (ds_ignored s2) (ds_doc s2) lints).

  (* the rest of generate_code_actions, given the lints *)
  Definition code_actions_core (d : doc) (lints : list dlint) (r : range) (force_stable : bool) : res (list action) :=
    let sorted := sort_by_prio lints in                                   (* lints.sort_by_key(|l| l.priority) *)
    let src := source d in
    do q <- lookup_span src r;                                            (* range_to_span(..).with_len(1) *)
    do per <- map_res (fun l => lint_to_code_actions l src force_stable)
                      (filter (fun l => overlaps (lspan l) q) sorted);    (* filter + flat_map + collect *)
    let acts := concat per in
    match url_token_at d (sstart q) with
    | Some sp => do u <- get_content sp src; Ok (acts ++ [AOpenUrl u])
    | None => Ok acts
    end.

  Definition generate_code_actions (s : dstate) (r : range) (force_stable : bool) : dstate * res (list action) :=
    let '(s', lints) := lint_current s in
    (s', code_actions_core (ds_doc s') lints r force_stable).

  Definition generate_diagnostics (s : dstate) (sev : nat) : dstate * res (list diag) :=
    let '(s', lints) := lint_current s in
    (s', lints_to_diagnostics (source (ds_doc s')) lints sev).

  (* DocumentState::ignore_lint: the context hash is taken against the document of THAT moment *)
  Definition ignore_lint (s : dstate) (l : dlint) : dstate :=
    mkdstate (ds_doc s) (ds_lint s) (ds_config s) (ctx_key l (ds_doc s) :: ds_ignored s).

  (* backend.rs:update_document: doc_state.document = Document::new(..) *)
  Definition set_document (s : dstate) (d : doc) : dstate :=
    mkdstate d (ds_lint s) (ds_config s) (ds_ignored s).

  (* backend.rs: doc_state.linter = LintGroup::new_curated(..).with_lint_config(..) *)
  Definition set_linter (s : dstate) (f : cfg -> doc -> list dlint) (c : cfg) : dstate :=
    mkdstate (ds_doc s) f c (ds_ignored s).

  Inductive op :=
  | OSetDocument (d : doc)
  | OSetLinter (f : cfg -> doc -> list dlint) (c : cfg)
  | OIgnore (l : dlint)
  | ODiagnostics (sev : nat)
  | OCodeActions (r : range) (force_stable : bool).

  Inductive answer :=
  | RNone
  | RDiagnostics (r : res (list diag))
  | RActions (r : res (list action)).

  Definition step (s : dstate) (o : op) : dstate * answer :=
    match o with
    | OSetDocument d => (set_document s d, RNone)
    | OSetLinter f c => (set_linter s f c, RNone)
    | OIgnore l => (ignore_lint s l, RNone)
    | ODiagnostics sev => let '(s', r) := generate_diagnostics s sev in (s', RDiagnostics r)
    | OCodeActions r fs => let '(s', a) := generate_code_actions s r fs in (s', RActions a)
    end.

  Fixpoint run (s : dstate) (h : list op) : dstate * list answer :=
    match h with
    | [] => (s, [])
    | o :: h' => let '(s1, a) := step s o in
                 let '(s2, rest) := run s1 h' in (s2, a :: rest)
    end.

  (* ---- specification side: what a history leaves behind, read off the operations alone ---- *)
  Fixpoint doc_after (d0 : doc) (h : list op) : doc :=
    match h with
    | [] => d0
    | OSetDocument d :: h' => doc_after d h'
    | _ :: h' => doc_after d0 h'
    end.

  Fixpoint lint_after (f0 : cfg -> doc -> list dlint) (h : list op) : cfg -> doc -> list dlint :=
    match h with
    | [] => f0
    | OSetLinter f _ :: h' => lint_after f h'
    | _ :: h' => lint_after f0 h'
    end.

  Fixpoint config_after (c0 : cfg) (h : list op) : cfg :=
    match h with
    | [] => c0
    | OSetLinter _ c :: h' => config_after c h'
    | _ :: h' => config_after c0 h'
    end.

  (* the ignored set: every OIgnore adds the key of its lint against the document current at that moment *)
  Fixpoint ignored_after (d0 : doc) (ign0 : list N) (h : list op) : list N :=
    match h with
    | [] => ign0
    | OSetDocument d :: h' => ignored_after d ign0 h'
    | OIgnore l :: h' => ignored_after d0 (ctx_key l d0 :: ign0) h'
    | _ :: h' => ignored_after d0 ign0 h'
    end.

  (* the lints a client sees for a document: the linter's (curated config filled in) minus the ignored ones *)
  Definition visible_lints (d : doc) (f : cfg -> doc -> list dlint) (c : cfg) (ign : list N) : list dlint :=
    remove_ignored ign d (f (fill_with_curated c) d).

  (* the single-shot answers: functions of ONE document, no state *)
  Definition code_actions_of (d : doc) (f : cfg -> doc -> list dlint) (c : cfg) (ign : list N)
             (r : range) (force_stable : bool) : res (list action) :=
    code_actions_core d (visible_lints d f c ign) r force_stable.

  Definition diagnostics_of (d : doc) (f : cfg -> doc -> list dlint) (c : cfg) (ign : list N) (sev : nat) : res (list diag) :=
    lints_to_diagnostics (source d) (visible_lints d f c ign) sev.

  (* ---- (3) backend.rs handler glue.  `docs` = the doc_state map seen through one url ---- *)
  Variable json : Type.
  Variable lint_to_json : dlint -> json.            (* serde_json::to_value(lint) *)
  Variable lint_of_json : json -> option dlint.     (* serde_json::from_value::<Lint> *)

  (* Backend::code_action -> generate_code_actions: an unknown url answers Ok(vec![]) *)
  Definition handle_code_action (o : option dstate) (r : range) (force_stable : bool)
    : option dstate * res (list action) :=
    match o with
    | None => (None, Ok [])
    | Some s => let '(s', a) := generate_code_actions s r force_stable in (Some s', a)
    end.

  (* Backend::publish_diagnostics: PublishDiagnosticsParams { uri, diagnostics, version: None } *)
  Definition handle_publish (o : option dstate) (sev : nat) : option dstate * res (list diag) :=
    match o with
    | None => (None, Ok [])
    | Some s => let '(s', d) := generate_diagnostics s sev in (Some s', d)
    end.

  (* execute_command "HarperIgnoreLint" [url, lint JSON]: unreadable lint or unknown url = nothing happens
     (no publication); otherwise ignore_lint, then publish_diagnostics *)
  Definition handle_ignore (o : option dstate) (j : json) (sev : nat)
    : option dstate * option (res (list diag)) :=
    match lint_of_json j with
    | None => (o, None)
    | Some l =>
        match o with
        | None => (None, None)
        | Some s => let '(o', d) := handle_publish (Some (ignore_lint s l)) sev in (o', Some d)
        end
    end.
End DocState.

Arguments mkdstate {doc cfg}.
Arguments ds_doc {doc cfg}.
Arguments ds_lint {doc cfg}.
Arguments ds_config {doc cfg}.
Arguments ds_ignored {doc cfg}.
Arguments OSetDocument {doc cfg}.
Arguments OSetLinter {doc cfg}.
Arguments OIgnore {doc cfg}.
Arguments ODiagnostics {doc cfg}.
Arguments OCodeActions {doc cfg}.

(* ------------------------------------------------------------------------------------------ *)
(*  driver entry point: a history over a table of documents                                     *)
(* ------------------------------------------------------------------------------------------ *)
(* A document of the driver: (id, source text, the lints the reference linter reports for it together with
   the context hash of each, the document's TOKEN VECTOR as the parser left it - span and `kind == Url` of every
   token, in order).  The linter of the driver looks the document's lints up in the document itself; an ignore
   operation carries the hash the harness computed for (lint, current document). *)
Record ddoc := mkddoc { dd_id : nat; dd_text : text; dd_lints : list (dlint * N); dd_tokens : list dtoken }.

Definition drv_lint (_ : nat) (d : ddoc) : list dlint := map fst (dd_lints d).
Definition dlint_eqb (a b : dlint) : bool :=
  (sstart (lspan a) =? sstart (lspan b)) && (send (lspan a) =? send (lspan b)) && (ltag a =? ltag b)%N
  && (lprio a =? lprio b).
(* the key of a lint against a document: an entry of `foreign` (document id, lint, key) when the harness
   supplied one (a lint ignored while ANOTHER document is current), else the document's own table entry *)
Definition drv_ctx_key (foreign : list (nat * dlint * N)) (l : dlint) (d : ddoc) : N :=
  match find (fun p => (fst (fst p) =? dd_id d) && dlint_eqb (snd (fst p)) l) foreign with
  | Some p => snd p
  | None =>
      match find (fun p => dlint_eqb (fst p) l) (dd_lints d) with
      | Some p => snd p
      | None => 0%N
      end
  end.
(* Document::get_token_at_char_index: the binary search of Model/C08TokenAt.v run on the document's token
   vector (phase 4; before, the harness tabulated the function) *)
Definition drv_url_at (d : ddoc) (i : nat) : option span := url_token_at_vec (dd_tokens d) i.

Definition drv_run (foreign : list (nat * dlint * N)) (d0 : ddoc) (h : list (op ddoc nat))
  : list answer :=
  snd (run ddoc dd_text nat (fun _ => 1) (drv_ctx_key foreign) drv_url_at
           (mkdstate d0 drv_lint 0 []) h).

(* S / E cases of the driver: the conversions with their casts *)
Definition run_span_to_range_u32 (t : text) (a b : nat) : option range :=
  match span_to_range_u32 t (mkspan a b) with Ok r => Some r | Panic _ => None end.
Definition run_text_edit_u32 (kind : nat) (cs : text) (a b : nat) (t : text) : option (range * text) :=
  let s := match kind with 0 => ReplaceWith cs | 1 => InsertAfter cs | _ => Remove end in
  match text_edit_u32 s (mkspan a b) t with Ok x => Some x | Panic _ => None end.
(* the cast alone, for the 64-bit sweep of the driver (values given in binary) *)
Definition run_as_u32 (x : N) : N := (x mod u32_modulus)%N.
