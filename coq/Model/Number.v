(* Number.v — executable model of the ordinal-suffix pipeline of harper-core (property C17).  No proofs here.

   What is modelled, in the order the code runs (file : function):
     lexing/mod.rs        : lex_token (the dispatch order) and every sub-lexer it tries — lex_regexish,
                            lex_punctuation/lex_quote, lex_tabs, lex_spaces, lex_newlines, lex_plural_digit,
                            lex_hex_number, lex_long_decade, lex_number (candidate bound, last digit, the
                            longest-FINITE-prefix loop over a grammar of Rust's f64::from_str), lex_word, lex_catch
     lexing/hostname.rs   : lex_hostname, lex_hostname_token
     lexing/url.rs        : lex_url up to and including the test for "//"      (the tail is a parameter, see below)
     lexing/email_address.rs : lex_email_address up to the search for '@'      (the tail is a parameter, see below)
     parsers/plain_english.rs : PlainEnglish::parse (the cursor loop)
     document.rs          : condense_spaces, condense_newlines, newlines_to_breaks, condense_number_suffixes,
                            condense_indices, condense_contractions (find_all_matches + condense_pattern for
                            the fixed pattern word-apostrophe-word), condense_dotted_initialisms  (this order)
     number.rs            : NumberSuffix::from_chars / to_chars / correct_suffix_for   (tables: Tables_number.v)
     linting/correct_number_suffix.rs : CorrectNumberSuffix::lint

   Parameters (Section variables; no contract is needed for them by any theorem):
     U          : the Unicode predicates char::is_numeric / is_alphanumeric / is_whitespace and
                  CharExt::is_english_lingual.  The ASCII facts the proofs use are hypotheses of the theorems
                  and are checked by the harness against Rust's `char` on every run.
     url_tail   : what lex_ip_schemepart consumes after "//"            (only reached on texts containing "://")
     email_tail : lex_email_address after an '@' was found              (only reached on texts containing '@')
   The passes that run after condense_dotted_initialisms (condense_ellipsis, condense_latin, match_quotes,
   articles_imply_nouns, dictionary metadata) never touch a Number token; they are not modelled here and the
   theorems carry that fact as an explicit, monitored hypothesis.

   Conventions: usize = nat, char = N, a Number token's value is VInt n when the literal denotes the integer
   n < 2^53 exactly (the f64 round trip is exact there: the premise of C17), VOther otherwise (the rule's verdict
   on such a token is then "unknown" in the model). *)
Require Import Base Overlap Suggestion Tables_number.
From Coq Require Import List Arith NArith Bool Lia.
Import ListNotations.

(* ================================================================================================ *)
(* 1. number.rs                                                                                      *)
(* ================================================================================================ *)

Inductive value := VInt (n : N) | VOther.
Definition two53 : N := 9007199254740992%N.

Definition lookup_digit (d : N) : option suffix :=
  match find (fun r => N.eqb (fst r) d) digit_table with Some r => Some (snd r) | None => None end.

(* NumberSuffix::correct_suffix_for on the f64 that represents the integer n < 2^53 exactly:
   `number < 0.0`, `number - number.floor() > EPSILON` and `number > u64::MAX as f64` are all false,
   `number as u64` is n. *)
Definition correct_suffix_for_int (n : N) : option suffix :=
  let r := (n mod teens_modulus)%N in
  if (teens_lo <=? r)%N && (r <=? teens_hi)%N then Some teens_suffix
  else lookup_digit (n mod digit_modulus)%N.

(* None = the value is outside the modelled domain *)
Definition correct_suffix_for (v : value) : option (option suffix) :=
  match v with VInt n => Some (correct_suffix_for_int n) | VOther => None end.

(* NumberSuffix::from_chars: `chars.len() < 2 -> None`, then the match on (chars[0], chars[1]) *)
Definition from_chars (cs : text) : option suffix :=
  match cs with
  | a :: b :: _ =>
      match find (fun r => N.eqb (fst (fst r)) a && N.eqb (snd (fst r)) b) from_chars_table with
      | Some r => Some (snd r)
      | None => None
      end
  | _ => None
  end.

(* the English rule, written independently of the tables (specification side) *)
Definition ordinal (n : N) : suffix :=
  let r := (n mod 100)%N in
  if (11 <=? r)%N && (r <=? 13)%N then Th
  else match (n mod 10)%N with 1%N => St | 2%N => Nd | 3%N => Rd | _ => Th end.

(* canonical decimal rendering of n (specification side: how the number is written in the text) *)
Definition digit_char (d : N) : N := (48 + d)%N.
Fixpoint render_go (fuel : nat) (n : N) (acc : text) : text :=
  match fuel with
  | 0 => acc
  | S f => let acc' := digit_char (n mod 10)%N :: acc in
           if (n / 10 =? 0)%N then acc' else render_go f (n / 10)%N acc'
  end.
Definition render (n : N) : text := render_go (S (N.to_nat (N.size n))) n [].

(* ================================================================================================ *)
(* 2. characters                                                                                     *)
(* ================================================================================================ *)

Definition in_range (lo hi c : N) : bool := (lo <=? c)%N && (c <=? hi)%N.
Definition is_ascii_digit (c : N) : bool := in_range 48 57 c.
Definition is_ascii_upper (c : N) : bool := in_range 65 90 c.
Definition is_ascii_lower (c : N) : bool := in_range 97 122 c.
Definition is_ascii_alpha (c : N) : bool := is_ascii_upper c || is_ascii_lower c.
Definition is_ascii_alnum (c : N) : bool := is_ascii_alpha c || is_ascii_digit c.
Definition is_ascii_hexdigit (c : N) : bool := is_ascii_digit c || in_range 65 70 c || in_range 97 102 c.
Definition memN (c : N) (l : list N) : bool := existsb (N.eqb c) l.
Definition hexval (c : N) : N :=
  if is_ascii_digit c then (c - 48)%N else if in_range 65 70 c then (c - 55)%N else (c - 87)%N.

Record uni := mkuni {
  u_numeric : N -> bool;      (* char::is_numeric *)
  u_alnum : N -> bool;        (* char::is_alphanumeric *)
  u_lingual : N -> bool;      (* CharExt::is_english_lingual *)
  u_white : N -> bool         (* char::is_whitespace *)
}.

(* index of the first element satisfying p  (Iterator::position) *)
Fixpoint position {A} (p : A -> bool) (l : list A) : option nat :=
  match l with
  | [] => None
  | x :: r => if p x then Some 0 else match position p r with Some i => Some (S i) | None => None end
  end.
(* index of the last element satisfying p  (iter().enumerate().rev().find(..)) *)
Fixpoint last_position {A} (p : A -> bool) (l : list A) : option nat :=
  match l with
  | [] => None
  | x :: r => match last_position p r with
              | Some i => Some (S i)
              | None => if p x then Some 0 else None
              end
  end.
Fixpoint last_error {A} (l : list A) : option A :=
  match l with [] => None | [x] => Some x | _ :: r => last_error r end.
Fixpoint count_while {A} (p : A -> bool) (l : list A) : nat :=
  match l with x :: r => if p x then S (count_while p r) else 0 | [] => 0 end.

(* ================================================================================================ *)
(* 3. tokens                                                                                         *)
(* ================================================================================================ *)

Inductive kind :=
| KNumber (v : value) (sfx : option suffix)      (* radix and precision are never read by the rule *)
| KWord
| KSpace (n : nat)
| KNewline (n : nat)
| KParBreak
| KPunct (p : pclass)                            (* quotes are POther here *)
| KDecade
| KRegexish
| KUrl
| KEmail
| KHostname
| KUnlintable.

Record token := mktok { tspan : span; tkind : kind }.

Definition is_number (t : token) : bool := match tkind t with KNumber _ _ => true | _ => false end.
Definition is_word (t : token) : bool := match tkind t with KWord => true | _ => false end.
Definition is_space (t : token) : bool := match tkind t with KSpace _ => true | _ => false end.
Definition is_newline (t : token) : bool := match tkind t with KNewline _ => true | _ => false end.
Definition is_apostrophe (t : token) : bool := match tkind t with KPunct PApostrophe => true | _ => false end.
Definition is_period (t : token) : bool := match tkind t with KPunct PPeriod => true | _ => false end.

(* ================================================================================================ *)
(* 4. the sub-lexers (lexing/*.rs); each returns (next_index, kind)                                   *)
(* ================================================================================================ *)
Section Lexer.
  Variable U : uni.
  Variable url_tail : text -> nat.
  Variable email_tail : text -> nat -> option nat.

  (* ---- lex_regexish: `i` is the index of the head of `rest` ---- *)
  Fixpoint regex_body (rest : text) (i : nat) : option nat :=
    match rest with
    | [] => None                                         (* i >= l *)
    | c :: r1 =>
      if negb (u_alnum U c) then None else
      match r1 with
      | [] => None                                       (* not ']' -> continue -> i >= l at the top *)
      | d :: r2 =>
        if (d =? 45)%N then                              (* '-' : a range *)
          match r2 with
          | [] => None
          | e :: r3 =>
            if negb (u_alnum U e) then None else
            match r3 with
            | [] => None
            | x :: _ => if (x =? 93)%N then Some (i + 4) else regex_body r3 (i + 3)
            end
          end
        else if (d =? 93)%N then Some (i + 2) else regex_body r1 (i + 1)
      end
    end.
  Definition lex_regexish (src : text) : option (nat * kind) :=
    match src with
    | c :: rest => if (c =? 91)%N then match regex_body rest 1 with Some n => Some (n, KRegexish) | None => None end
                   else None
    | [] => None
    end.

  (* ---- lex_punctuation (lex_quote first, then Punctuation::from_char) ---- *)
  Definition punct_of (c : N) : option pclass :=
    match find (fun r => N.eqb (fst r) c) punct_table with Some r => Some (snd r) | None => None end.
  Definition lex_punctuation (src : text) : option (nat * kind) :=
    match src with
    | [] => None
    | c :: _ => if memN c quote_chars then Some (1, KPunct POther)
                else match punct_of c with Some p => Some (1, KPunct p) | None => None end
    end.

  (* ---- lex_tabs / lex_spaces / lex_newlines ---- *)
  Definition lex_tabs (src : text) : option (nat * kind) :=
    let n := count_while (N.eqb 9) src in if 0 <? n then Some (n, KSpace (n * 2)) else None.
  Definition lex_spaces (src : text) : option (nat * kind) :=
    let n := count_while (N.eqb 32) src in if 0 <? n then Some (n, KSpace n) else None.
  Definition lex_newlines (src : text) : option (nat * kind) :=
    let n := count_while (N.eqb 10) src in if 0 <? n then Some (n, KNewline n) else None.

  (* ---- lex_plural_digit: the first character is tested with is_ascii_alphanumeric, the look-ahead behind
     the `s` with char::is_alphanumeric (7202fd4) ---- *)
  Definition lex_plural_digit (src : text) : option (nat * kind) :=
    match src with
    | [] => None
    | c0 :: r1 =>
      if negb (is_ascii_alnum c0) then None else
      let ir := match r1 with
                | a :: r1' => if (a =? 39)%N then (2, r1') else (1, r1)      (* '\'' *)
                | [] => (1, r1)
                end in
      match snd ir with
      | s :: r3 =>
        if (s =? 115)%N then                                                  (* 's' *)
          match r3 with
          | [] => Some (S (fst ir), KWord)
          | x :: _ => if negb (u_alnum U x) then Some (S (fst ir), KWord) else None
          end
        else None
      | [] => None
      end
    end.

  (* ---- lex_hex_number ---- *)
  Definition two64 : N := 18446744073709551616%N.
  Fixpoint hex_scan (rest : text) (i : nat) (acc : N) : option (nat * N) :=
    match rest with
    | [] => Some (i, acc)
    | c :: r => if is_ascii_hexdigit c then hex_scan r (S i) (16 * acc + hexval c)%N
                else if u_alnum U c then None else Some (i, acc)
    end.
  Definition lex_hex_number (src : text) : option (nat * kind) :=
    match src with
    | c0 :: c1 :: ((c2 :: _) as rest) =>
      if (c0 =? 48)%N && (c1 =? 120)%N && is_ascii_hexdigit c2 then
        match hex_scan rest 2 0%N with
        | Some (i, v) =>
            if (v <? two64)%N                                   (* u64::from_str_radix succeeds *)
            then Some (i, KNumber (if (v <? two53)%N then VInt v else VOther) None)
            else None
        | None => None
        end
      else None
    | _ => None
    end.

  (* ---- lex_long_decade ---- *)
  Definition lex_long_decade (src : text) : option (nat * kind) :=
    match src with
    | c0 :: c1 :: c2 :: c3 :: c4 :: rest =>
      if negb ((c0 =? 49)%N || (c0 =? 50)%N) then None
      else if negb (is_ascii_digit c1) then None
      else if negb (is_ascii_digit c2) then None
      else if negb (c3 =? 48)%N then None
      else if negb (c4 =? 115)%N then None
      else match rest with
           | c5 :: _ => if u_alnum U c5 then None else Some (5, KDecade)
           | [] => Some (5, KDecade)
           end
    | _ => None
    end.

  (* ---- lex_number ---- *)
  (* grammar of <f64 as FromStr>: [+-]? ( inf | infinity | nan | D+ | D+ '.' D* | D* '.' D+ ) ([eE] [+-]? D+)? *)
  Definition strip_sign (t : text) : text :=
    match t with c :: r => if (c =? 43)%N || (c =? 45)%N then r else t | [] => t end.
  Fixpoint drop_digits (t : text) : text :=
    match t with c :: r => if is_ascii_digit c then drop_digits r else t | [] => [] end.
  Definition lower_ascii (c : N) : N := if is_ascii_upper c then (c + 32)%N else c.
  Definition text_eqb (a b : text) : bool :=
    (length a =? length b) && forallb (fun p => N.eqb (fst p) (snd p)) (combine a b).
  Definition is_special_float (t : text) : bool :=
    let l := map lower_ascii t in
    text_eqb l [105; 110; 102]%N || text_eqb l [105; 110; 102; 105; 110; 105; 116; 121]%N
    || text_eqb l [110; 97; 110]%N.
  Definition exp_ok (t : text) : bool :=
    match t with
    | [] => true
    | c :: r => if (c =? 101)%N || (c =? 69)%N then
                  let r' := strip_sign r in
                  (length (drop_digits r') <? length r') && (length (drop_digits r') =? 0)
                else false
    end.
  Definition parses_f64 (t : text) : bool :=
    let t1 := strip_sign t in
    if is_special_float t1 then true else
    let a := drop_digits t1 in
    let na := length t1 - length a in                     (* digits before the point *)
    match a with
    | c :: b =>
        if (c =? 46)%N then
          let b' := drop_digits b in
          let nb := length b - length b' in               (* digits after the point *)
          (0 <? na + nb) && exp_ok b'
        else (0 <? na) && exp_ok a
    | [] => 0 <? na
    end.

  Definition parse_dec (t : text) : N := fold_left (fun a c => (10 * a + (c - 48))%N) t 0%N.

  (* `.filter(|n| n.is_finite())` (b5c1992) on a literal that parses: inf / infinity / nan are not finite; a
     decimal literal m * 10^e (m = all its digits, e = exponent - number of fraction digits) is rounded
     correctly by f64::from_str (round to nearest, ties to even), so the result is finite exactly when
     m * 10^e < 2^1024 - 2^970 (half an ulp above f64::MAX).  The comparison is exact (N arithmetic); the
     two cut-offs only avoid computing astronomically large powers: m >= 1 and e > 400 is infinite, and
     m < 10^(number of digits) <= 10^-e is below 1.  (Rust saturates the exponent it reads at 65536: the
     same verdict for every literal shorter than 65 k characters.) *)
  Definition f64_round_to_inf : N := (2 ^ 1024 - 2 ^ 970)%N.
  Definition finite_dec (digits : text) (nfrac : nat) (eneg : bool) (eabs : N) : bool :=
    let m := parse_dec digits in
    let nf := N.of_nat nfrac in
    if (m =? 0)%N then true
    else if eneg then
      (if (N.of_nat (length digits) <=? eabs + nf)%N then true
       else (m <? f64_round_to_inf * 10 ^ (eabs + nf))%N)
    else if (nf <=? eabs)%N then
      (if (400 <? eabs - nf)%N then false else (m * 10 ^ (eabs - nf) <? f64_round_to_inf)%N)
    else (m <? f64_round_to_inf * 10 ^ (nf - eabs))%N.
  (* the exponent part ([eE] [+-]? D+, or nothing) of a literal accepted by parses_f64: (negative?, |e|) *)
  Definition exp_of (t : text) : bool * N :=
    match t with
    | [] => (false, 0%N)
    | _ :: r => (match r with c :: _ => (c =? 45)%N | [] => false end, parse_dec (strip_sign r))
    end.
  Definition finite_f64 (t : text) : bool :=
    let t1 := strip_sign t in
    if is_special_float t1 then false else
    let a := drop_digits t1 in
    let ip := firstn (length t1 - length a) t1 in          (* digits before the point *)
    match a with
    | c :: b =>
        if (c =? 46)%N then
          let b' := drop_digits b in
          let fp := firstn (length b - length b') b in      (* digits after the point *)
          finite_dec (ip ++ fp) (length fp) (fst (exp_of b')) (snd (exp_of b'))
        else finite_dec ip 0 (fst (exp_of a)) (snd (exp_of a))
    | [] => finite_dec ip 0 false 0%N
    end.
  (* the value of a literal that parses: exact integers below 2^53 written with digits only are VInt *)
  Definition value_of (t : text) : value :=
    if forallb is_ascii_digit t && (parse_dec t <? two53)%N then VInt (parse_dec t) else VOther.

  Definition is_float_char (c : N) : bool := is_ascii_digit c || memN c float_extra_chars.

  (* `while !s.is_empty() { if let Some(n) = s.parse::<f64>().ok().filter(|n| n.is_finite()) { return .. s.len() }
     s.pop(); }`, s = src[0..k] *)
  Fixpoint longest_float (k : nat) (src : text) : option (nat * kind) :=
    match k with
    | 0 => None
    | S k' => if parses_f64 (firstn k src) && finite_f64 (firstn k src) then Some (k, KNumber (value_of (firstn k src)) None)
              else longest_float k' src
    end.

  Definition lex_number (src : text) : option (nat * kind) :=
    match src with
    | [] => None
    | c0 :: _ =>
      if negb (u_numeric U c0) then None else
      let limit := match position (fun c => negb (is_float_char c)) src with Some i => i | None => length src end in
      match last_position is_ascii_digit (firstn limit src) with
      | None => None
      | Some e => longest_float (S e) src
      end
    end.

  (* ---- lex_url (url.rs) ---- *)
  Definition valid_scheme_char (c : N) : bool := is_ascii_alpha c || is_ascii_digit c || memN c [46; 45; 43]%N.
  Definition lex_url (src : text) : option (nat * kind) :=
    match position (N.eqb 58) src with
    | None => None
    | Some sep =>
      if forallb valid_scheme_char (firstn sep src) then
        match skipn (S sep) src with
        | c1 :: c2 :: rest => if (c1 =? 47)%N && (c2 =? 47)%N then Some (url_tail rest + 2 + sep + 1, KUrl) else None
        | _ => None
        end
      else None
    end.

  (* ---- lex_email_address (email_address.rs) ---- *)
  Definition lex_email_address (src : text) : option (nat * kind) :=
    let limit := match src with
                 | c :: _ => if (c =? 34)%N then length src
                             else match position (u_white U) src with Some i => i | None => length src end
                 | [] => 0
                 end in
    match last_position (N.eqb 64) (firstn limit src) with
    | None => None
    | Some at_loc => match email_tail src at_loc with Some n => Some (n, KEmail) | None => None end
    end.

  (* ---- lex_hostname / lex_hostname_token (hostname.rs) ----
     lex_hostname walks the labels of source.split('.') counting characters (and one per label) and returns
     the index of the first character outside [A-Za-z0-9-] that is not a '.', or the length. *)
  Definition host_label_char (c : N) : bool := is_ascii_alnum c || (c =? 45)%N.
  Fixpoint host_run (src : text) : nat :=
    match src with
    | [] => 0
    | c :: r => if (c =? 46)%N || host_label_char c then S (host_run r) else 0
    end.
  Definition lex_hostname (src : text) : option nat :=
    match src with
    | [] => None
    | c :: _ => if is_ascii_alnum c then Some (host_run src) else None
    end.
  Definition lex_hostname_token (src : text) : option (nat * kind) :=
    match lex_hostname src with
    | None => None
    | Some len =>
      if len <=? 1 then None
      else if negb (memN 46%N (firstn (len - 1 - 1) (skipn 1 src))) then None
      else match nth_error src (len - 1) with
           | Some c => if (c =? 46)%N then None else Some (len, KHostname)
           | None => Some (len, KHostname)
           end
    end.

  (* ---- lex_word / lex_catch ---- *)
  Definition lex_word (src : text) : option (nat * kind) :=
    let e := match position (fun c => negb (u_lingual U c) && negb (is_ascii_digit c)) src with
             | Some i => i | None => length src end in
    if e =? 0 then None else Some (e, KWord).
  Definition lex_catch (src : text) : option (nat * kind) := Some (1, KUnlintable).

  (* ---- lex_token: the first sub-lexer that answers ---- *)
  Definition orelse {A} (a : option A) (b : option A) : option A := match a with Some _ => a | None => b end.
  Definition lex_token (src : text) : option (nat * kind) :=
    orelse (lex_regexish src) (orelse (lex_punctuation src) (orelse (lex_tabs src) (orelse (lex_spaces src)
    (orelse (lex_newlines src) (orelse (lex_plural_digit src) (orelse (lex_hex_number src)
    (orelse (lex_long_decade src) (orelse (lex_number src) (orelse (lex_url src) (orelse (lex_email_address src)
    (orelse (lex_hostname_token src) (orelse (lex_word src) (lex_catch src))))))))))))).

  (* ---- PlainEnglish::parse: `rest` is source[cursor..] ---- *)
  Fixpoint lex_loop (fuel cursor : nat) (rest : text) : res (list token) :=
    match rest with
    | [] => Ok []                                        (* cursor >= source.len() *)
    | _ :: _ =>
      match fuel with
      | 0 => Panic PFuel
      | S f =>
        match lex_token rest with
        | None => Panic PUnwrap                          (* panic!() *)
        | Some (n, k) =>
            do sp <- span_new cursor (cursor + n);
            do tl <- lex_loop f (cursor + n) (skipn n rest);
            Ok (mktok sp k :: tl)
        end
      end
    end.
  Definition lex_doc (src : text) : res (list token) := lex_loop (length src) 0 src.

  (* ============================================================================================== *)
  (* 5. Document::parse, up to and including condense_dotted_initialisms                             *)
  (* ============================================================================================== *)

  (* ---- condense_spaces ---- *)
  (* state at the top of the inner `loop`; returns the updated start token, the cursor and the queue *)
  Fixpoint cs_inner (fuel : nat) (copy : list token) (start : token) (cursor : nat) (rm : list nat)
    : res (token * nat * list nat) :=
    match fuel with
    | 0 => Panic PFuel
    | S f =>
      let cursor := S cursor in
      match nth_error copy cursor with
      | None => Ok (start, cursor, rm)                                  (* cursor >= copy.len() *)
      | Some child =>
        if negb (send (tspan start) =? sstart (tspan child)) then Ok (start, cursor, rm)
        else match tkind child, tkind start with
             | KSpace n, KSpace sc =>
                 cs_inner f copy (mktok (mkspan (sstart (tspan start)) (send (tspan child))) (KSpace (sc + n)))
                          (S cursor) (rm ++ [cursor])
             | _, _ => Ok (start, cursor, rm)
             end
      end
    end.
  Fixpoint cs_outer (fuel : nat) (copy toks : list token) (cursor : nat) (rm : list nat)
    : res (list token * list nat) :=
    match fuel with
    | 0 => Panic PFuel
    | S f =>
      match nth_error toks cursor with
      | None => Ok (toks, rm)                                           (* cursor >= self.tokens.len() *)
      | Some st =>
        if is_space st then
          do r <- cs_inner (S (length copy)) copy st cursor rm;
          let '(st', cur', rm') := r in
          do toks' <- set_nth toks cursor st';
          cs_outer f copy toks' (S cur') rm'
        else cs_outer f copy toks (S cursor) rm
      end
    end.
  Definition condense_spaces (toks : list token) : res (list token) :=
    do r <- cs_outer (S (length toks)) toks toks 0 [];
    Ok (remove_indices 0 (snd r) (fst r)).

  (* ---- condense_newlines (no adjacency test, one cursor increment per merged child) ---- *)
  Fixpoint cn_inner (fuel : nat) (copy : list token) (start : token) (cursor : nat) (rm : list nat)
    : res (token * nat * list nat) :=
    match fuel with
    | 0 => Panic PFuel
    | S f =>
      let cursor := S cursor in
      match nth_error copy cursor with
      | None => Ok (start, cursor, rm)
      | Some child =>
        match tkind child, tkind start with
        | KNewline n, KNewline sc =>
            cn_inner f copy (mktok (mkspan (sstart (tspan start)) (send (tspan child))) (KNewline (sc + n)))
                     cursor (rm ++ [cursor])
        | _, _ => Ok (start, cursor, rm)
        end
      end
    end.
  Fixpoint cn_outer (fuel : nat) (copy toks : list token) (cursor : nat) (rm : list nat)
    : res (list token * list nat) :=
    match fuel with
    | 0 => Panic PFuel
    | S f =>
      match nth_error toks cursor with
      | None => Ok (toks, rm)
      | Some st =>
        if is_newline st then
          do r <- cn_inner (S (length copy)) copy st cursor rm;
          let '(st', cur', rm') := r in
          do toks' <- set_nth toks cursor st';
          cn_outer f copy toks' (S cur') rm'
        else cn_outer f copy toks (S cursor) rm
      end
    end.
  Definition condense_newlines (toks : list token) : res (list token) :=
    do r <- cn_outer (S (length toks)) toks toks 0 [];
    Ok (remove_indices 0 (snd r) (fst r)).

  (* ---- newlines_to_breaks ---- *)
  Definition newlines_to_breaks (toks : list token) : list token :=
    map (fun t => match tkind t with
                  | KNewline n => if 2 <=? n then mktok (tspan t) KParBreak else t
                  | _ => t end) toks.

  (* ---- condense_contractions = condense_pattern(word, apostrophe, word) ---- *)
  (* SequencePattern::matches on tokens[i..] *)
  Definition contraction_at (l : list token) : nat :=
    match l with
    | a :: b :: c :: _ => if is_word a && is_apostrophe b && is_word c then 3 else 0
    | _ => 0
    end.
  (* PatternExt::find_all_matches: all positive matches, then drop found[i+1] when it overlaps found[i] *)
  Fixpoint matches_from (i : nat) (l : list token) : list span :=
    match l with
    | [] => []
    | _ :: tl => let n := contraction_at l in
                 (if 0 <? n then [span_new_with_len i n] else []) ++ matches_from (S i) tl
    end.
  Fixpoint overlap_queue (i : nat) (found : list span) : list nat :=
    match found with
    | a :: ((b :: _) as tl) => (if overlaps a b then [S i] else []) ++ overlap_queue (S i) tl
    | _ => []
    end.
  Definition find_all_matches (l : list token) : list span :=
    let found := matches_from 0 l in
    if length found <? 2 then found else remove_indices 0 (overlap_queue 0 found) found.
  (* TokenStringExt::span of a slice: min and max over all start and end coordinates *)
  Definition hull (l : list token) : option span :=
    match flat_map (fun t => [sstart (tspan t); send (tspan t)]) l with
    | [] => None
    | c :: cs => Some (mkspan (fold_left Nat.min cs c) (fold_left Nat.max cs c))
    end.
  (* the `for m in matches` loop of condense_pattern (edit = identity) *)
  Fixpoint cp_apply (ms : list span) (toks : list token) (rm : list nat) : res (list token * list nat) :=
    match ms with
    | [] => Ok (toks, rm)
    | m :: ms' =>
        do sl <- slice_chk toks (sstart m) (send m);
        match hull sl with
        | None => Panic PUnwrap
        | Some h =>
            do t <- nth_chk toks (sstart m);
            do toks' <- set_nth toks (sstart m) (mktok h (tkind t));
            cp_apply ms' toks' (rm ++ seq (S (sstart m)) (send m - S (sstart m)))
        end
    end.
  Definition condense_contractions (toks : list token) : res (list token) :=
    do r <- cp_apply (find_all_matches toks) toks [];
    Ok (remove_indices 0 (snd r) (fst r)).

  (* ---- condense_dotted_initialisms ---- *)
  Definition is_initialism_chunk (a b : token) : res bool :=
    if is_word a then (do len <- span_len (tspan a); Ok ((len =? 1) && is_period b)) else Ok false.
  Definition set_span_end (toks : list token) (i e : nat) : res (list token) :=
    do t <- nth_chk toks i; set_nth toks i (mktok (mkspan (sstart (tspan t)) e) (tkind t)).
  Fixpoint di_loop (fuel cursor : nat) (toks : list token) (rm : list nat) (st : option nat)
    : res (list token * list nat * option nat) :=
    match fuel with
    | 0 => Panic PFuel
    | S f =>
      if length toks <=? cursor then Ok (toks, rm, st) else
      do c1 <- sub_chk cursor 1;
      do a <- nth_chk toks c1;
      do b <- nth_chk toks cursor;
      do chunk <- is_initialism_chunk a b;
      if chunk then
        match st with
        | None => di_loop f (cursor + 1 + 1) toks (rm ++ [cursor]) (Some c1)
        | Some _ => di_loop f (cursor + 1 + 1) toks ((rm ++ [c1]) ++ [cursor]) st
        end
      else
        match st with
        | Some s =>
            do c2 <- sub_chk cursor 2;
            if c2 =? s + 1 then di_loop f (cursor + 1) toks (removelast rm) None      (* pop_back *)
            else (do e <- nth_chk toks c2;
                  do toks' <- set_span_end toks s (send (tspan e));
                  di_loop f (cursor + 1) toks' rm None)
        | None => di_loop f (cursor + 1) toks rm None
        end
    end.
  Definition condense_dotted_initialisms (toks : list token) : res (list token) :=
    if length toks <? 2 then Ok toks else
    do r <- di_loop (S (length toks)) 1 toks [] None;
    let '(toks1, rm, st) := r in
    do r2 <- match st, last_error rm with
             | Some s, Some l =>
                 if l =? s + 1 then Ok (toks1, removelast rm)
                 else (do e <- nth_chk toks1 l;
                       do toks2 <- set_span_end toks1 s (send (tspan e));
                       Ok (toks2, rm))
             | _, _ => Ok (toks1, rm)
             end;
    Ok (remove_indices 0 (snd r2) (fst r2)).

  (* ---- condense_number_suffixes + condense_indices ---- *)
  (* the `for idx in 0..len-1` loop: sets the suffix of tokens[idx], collects replace_starts *)
  Fixpoint cns_scan (src : text) (idx : nat) (l : list token) : res (list token * list nat) :=
    match l with
    | a :: ((b :: _) as tl) =>
        do hd <- match tkind a, tkind b with
                 | KNumber v s, KWord =>
                     do len <- span_len (tspan b);
                     if negb (len =? 2) then Ok (a, false)
                     else (do content <- get_content (tspan b) src;
                           match from_chars content with
                           | Some found => Ok (mktok (tspan a) (KNumber v (Some found)), true)
                           | None => Ok (a, false)
                           end)
                 | _, _ => Ok (a, false)
                 end;
        do r <- cns_scan src (S idx) tl;
        Ok (fst hd :: fst r, if snd hd then idx :: snd r else snd r)
    | _ => Ok (l, [])
    end.
  Fixpoint ci_spans (indices : list nat) (stretch : nat) (toks : list token) : res (list token) :=
    match indices with
    | [] => Ok toks
    | i :: r =>
        do j <- sub_chk (i + stretch) 1;
        do e <- nth_chk toks j;
        do toks' <- set_span_end toks i (send (tspan e));
        ci_spans r stretch toks'
    end.
  Fixpoint ci_mid (old : list token) (stretch : nat) (indices : list nat) : res (list token) :=
    match indices with
    | [] => Ok []
    | a :: rest =>
        do ta <- nth_chk old a;
        match rest with
        | b :: _ => do mid <- slice_chk old (a + stretch) b;
                    do more <- ci_mid old stretch rest;
                    Ok (ta :: mid ++ more)
        | [] => Ok [ta]
        end
    end.
  Definition condense_indices (indices : list nat) (stretch : nat) (toks : list token) : res (list token) :=
    do old <- ci_spans indices stretch toks;
    do first <- slice_chk old 0 (hd (length indices) indices);
    do mid <- ci_mid old stretch indices;
    do last <- slice_chk old (match last_error indices with Some v => v + stretch | None => length indices end)
                         (length old);
    Ok (first ++ mid ++ last).
  Definition condense_number_suffixes (src : text) (toks : list token) : res (list token) :=
    if length toks <? 2 then Ok toks else
    do r <- cns_scan src 0 toks;
    condense_indices (snd r) 2 (fst r).

  (* ---- the part of Document::parse this model covers (pass order as of dcfd71f: number suffixes are
     attached before contractions are condensed) ---- *)
  Definition doc_tokens (src : text) : res (list token) :=
    do t0 <- lex_doc src;
    do t1 <- condense_spaces t0;
    do t2 <- condense_newlines t1;
    do t3 <- condense_number_suffixes src (newlines_to_breaks t2);
    do t4 <- condense_contractions t3;
    condense_dotted_initialisms t4.
  (* HISTORY ONLY: the pass order before dcfd71f (condense_number_suffixes last); used by the regression
     witness C17_apostrophe_old_refuted, by nothing else *)
  Definition doc_tokens_old (src : text) : res (list token) :=
    do t0 <- lex_doc src;
    do t1 <- condense_spaces t0;
    do t2 <- condense_newlines t1;
    do t4 <- condense_contractions (newlines_to_breaks t2);
    do t5 <- condense_dotted_initialisms t4;
    condense_number_suffixes src t5.
End Lexer.

(* ================================================================================================ *)
(* 6. CorrectNumberSuffix::lint                                                                      *)
(* ================================================================================================ *)
Record mlint := mkmlint { l_span : span; l_sugg : list suggestion }.

(* None = some number token carrying a suffix has a value outside the modelled domain *)
Fixpoint rule (toks : list token) : option (list mlint) :=
  match toks with
  | [] => Some []
  | t :: r =>
    match tkind t with
    | KNumber v sfx =>
      match pulled_by (span_new_with_len (send (tspan t)) 2) 2 with
      | None => rule r                                                   (* continue *)
      | Some ss =>
        match sfx with
        | None => rule r
        | Some s =>
          match correct_suffix_for v with
          | None => None
          | Some None => rule r
          | Some (Some c) =>
              if suffix_eqb s c then rule r
              else match rule r with
                   | Some ls => Some (mkmlint ss [ReplaceWith (to_chars c)] :: ls)
                   | None => None
                   end
          end
        end
      end
    | _ => rule r
    end
  end.

(* ================================================================================================ *)
(* 6b. the class of contexts covered by C17_lint_iff (specification side; decidable, syntactic)       *)
(* ================================================================================================ *)
(* the text contains "://" *)
Fixpoint has_scheme_mark (t : text) : bool :=
  match t with
  | c :: r => (match r with
               | c1 :: c2 :: _ => (c =? 58)%N && (c1 =? 47)%N && (c2 =? 47)%N
               | _ => false
               end) || has_scheme_mark r
  | [] => false
  end.
(* no '.' is directly followed by a host-name label character [A-Za-z0-9-] *)
Fixpoint dots_ok (t : text) : bool :=
  match t with
  | c :: r => (match r with d :: _ => negb ((c =? 46)%N && host_label_char d) | [] => true end) && dots_ok r
  | [] => true
  end.
Definition is_apostrophe_char (c : N) : bool :=
  match punct_of c with Some PApostrophe => true | _ => false end.
(* pre: no numeric character, no '[', no '@', does not end in a word character;
   post: no numeric character, no '@', does not start with a word character or a digit
         (it MAY start with an apostrophe: `2st's`, since dcfd71f);
   the whole text: no "://", no '.' directly followed by [A-Za-z0-9-]. *)
Definition ctx_ok (U : uni) (pre num sfx post : text) : bool :=
  forallb (fun c => negb (u_numeric U c) && negb (c =? 91)%N && negb (c =? 64)%N) pre
  && forallb (fun c => negb (u_numeric U c) && negb (c =? 64)%N) post
  && match last_error pre with Some c => negb (u_lingual U c) | None => true end
  && match post with
     | c :: _ => negb (u_lingual U c) && negb (is_ascii_digit c)
     | [] => true
     end
  && negb (has_scheme_mark (pre ++ num ++ sfx ++ post))
  && dots_ok (pre ++ num ++ sfx ++ post).

(* ================================================================================================ *)
(* 7. driver entry points (extracted)                                                                *)
(* ================================================================================================ *)
Definition suffix_code (s : option suffix) : nat :=
  match s with None => 0 | Some Th => 1 | Some St => 2 | Some Nd => 3 | Some Rd => 4 end.
Definition kind_code (k : kind) : nat * nat :=
  match k with
  | KNumber _ s => (0, suffix_code s) | KWord => (1, 0) | KSpace n => (2, n) | KNewline n => (3, n)
  | KParBreak => (4, 0)
  | KPunct PApostrophe => (5, 1) | KPunct PPeriod => (5, 2) | KPunct POther => (5, 0)
  | KDecade => (6, 0) | KRegexish => (7, 0) | KUrl => (8, 0) | KEmail => (9, 0) | KHostname => (10, 0)
  | KUnlintable => (11, 0)
  end.
Definition tok_code (t : token) : nat * nat * (nat * nat) := (sstart (tspan t), send (tspan t), kind_code (tkind t)).

(* raw lexing of a text: None = panic *)
Definition run_lex (U : uni) (ut : text -> nat) (et : text -> nat -> option nat) (src : text)
  : option (list (nat * nat * (nat * nat))) :=
  match lex_doc U ut et src with Ok l => Some (map tok_code l) | Panic _ => None end.

(* the number tokens of the document and the rule's lints (span, replacement); outer None = panic,
   inner None = unknown value *)
Definition lint_code (l : mlint) : nat * nat * list text :=
  (sstart (l_span l), send (l_span l),
   map (fun s => match s with ReplaceWith cs => cs | InsertAfter cs => 0%N :: cs | Remove => [1%N] end) (l_sugg l)).
Definition run_doc (U : uni) (ut : text -> nat) (et : text -> nat -> option nat) (src : text)
  : option (list (nat * nat * (nat * nat)) * option (list (nat * nat * list text))) :=
  match doc_tokens U ut et src with
  | Ok l => Some (map tok_code (filter is_number l),
                  match rule l with Some ls => Some (map lint_code ls) | None => None end)
  | Panic _ => None
  end.
