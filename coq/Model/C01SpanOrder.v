(* C01SpanOrder.v (phase 7) — the nine `Span::new(a.span.start, b.span.end)` sites of the struct rules (`impl Linter for`).
   Span::new(s, e) panics iff s > e (Base.span_new).  At every one of the nine sites `a` and `b` are two tokens of ONE token
   list (the document, or a chunk = a contiguous slice of it), `a` strictly before `b`, and a kind test on both dominates the
   site.  Each rule is modelled as: the index pairs (i, j) its loop visits, the kind test that guards the site, the checked
   Span::new.  The model evaluates the site on a SUPERSET of the pairs the code reaches (further `continue`s that depend on
   the dictionary or on the text are dropped).

     RepeatedWords::lint                 (idx_a, idx_b) neighbours of iter_word_indices of a chunk; tok_a, tok_b = chunk[idx_a], chunk[idx_b]
     MergeWords::lint  (2 sites)         (a, w, b) in document.tokens().tuple_windows(): i, i + 2; a, b words
     CurrencyPlacement::lint             per chunk: (i, i+1); (0, 2); (i+1, i+3) of the 4-window; generate_lint_for_tokens: one of
                                         a, b is a currency sign, one a number (`?` returns before Span::new otherwise)
     AdjectiveOfA::lint                  i in iter_adjective_indices, a_or_an = get_token(i + 4), a word
     InflectedVerbAfterTo::lint          pi in iter_preposition_indices, word = get_token(pi + 2), a word
     CommaFixes::lint  (3 sites)         ci in iter_comma_indices, toks.1 = get_token(ci - 1) behind `ci >= 1`, kind Space(_)

   The Rust text of all six functions (+ generate_lint_for_tokens) is pinned by tools/tables/bodyshapes.py.  No proofs here. *)
Require Import Base Overlap TokenSeq Pattern C01Bodies C01Struct.

(* a token that covers characters *)
Definition cov (t : tok) : Prop := sstart (tspan t) < send (tspan t).

(* WEAKER than C02's invariant OrderedDisjoint (Proofs/TokenInv.v: OrderedFrom — tokens that cover characters are increasing
   and disjoint), restated for our token type: the START offsets of the tokens that cover characters never decrease.  Zero-width
   (and reversed) tokens may sit anywhere — Markdown's ParagraphBreaks do —, and a token may be emitted twice (harper-typst does) *)
Fixpoint ordered_cov (lo : nat) (ts : list tok) : Prop :=
  match ts with
  | [] => True
  | t :: r => if sstart (tspan t) <? send (tspan t)
              then lo <= sstart (tspan t) /\ ordered_cov (sstart (tspan t)) r
              else ordered_cov lo r
  end.
(* the premise of the site theorems: that order + tokens of the kinds the site tests (`k`) are never empty *)
Definition span_ord (k : tok -> bool) (ts : list tok) : Prop :=
  ordered_cov 0 ts /\ Forall (fun t => k t = true -> cov t) ts.

(* `if guard(a, b) { Span::new(a.span.start, b.span.end) }` for a = ts[i], b = ts[j]; a window that does not exist is not visited *)
Definition span_at (g : tok -> tok -> bool) (ts : list tok) (ij : nat * nat) : res unit :=
  match nth_error ts (fst ij), nth_error ts (snd ij) with
  | Some a, Some b => if g a b then do _s <- span_new (sstart (tspan a)) (send (tspan b)); Ok tt else Ok tt
  | _, _ => Ok tt
  end.

Definition both (k : tok -> bool) (a b : tok) : bool := k a && k b.

(* ---------- RepeatedWords::lint: Span::new(tok_a.span.start, tok_b.span.end) ---------- *)
Definition repeated_words_spans (chunk : list tok) : res unit :=
  each_chk (span_at (fun _ _ => true) chunk) (pairs_adjacent (word_indices chunk)).

(* ---------- MergeWords::lint: both Span::new(a.span.start, b.span.end), behind `!a.is_word() || .. || !b.is_word() => continue` ---------- *)
Definition merge_words_spans (doc : list tok) : res unit :=
  each_chk (fun i => do _x <- span_at (both (flag F_WORD)) doc (i, i + 2); span_at (both (flag F_WORD)) doc (i, i + 2))
           (seq 0 (length doc)).

(* ---------- CurrencyPlacement::lint + generate_lint_for_tokens ----------
   let punct = a.kind.as_punctuation().or(b.kind.as_punctuation())?; let currency = punct.as_currency()?;
   let number = a.kind.as_number().or(b.kind.as_number())?;  let span = Span::new(a.span.start, b.span.end);
   `is_punct`, `is_num`: any predicates that exclude each other (two variants of TokenKind) *)
Definition cur_guard (is_punct is_num : tok -> bool) (a b : tok) : bool :=
  (is_punct a || is_punct b) && (is_num a || is_num b).
Definition currency_chunk (is_punct is_num : tok -> bool) (chunk : list tok) : res unit :=
  let g := cur_guard is_punct is_num in
  do _a <- each_chk (fun i => span_at g chunk (i, i + 1)) (seq 0 (length chunk));     (* (a, b) in tuple_windows *)
  do _b <- span_at g chunk (0, 2);                                                    (* first (a, b, c): (a, c) *)
  each_chk (fun i => span_at g chunk (i + 1, i + 3)) (seq 0 (length chunk)).          (* (p, a, b, c): (a, c) *)

(* ---------- AdjectiveOfA::lint: Span::new(adjective.span.start, a_or_an.span.end), behind `!a_or_an.kind.is_word() => continue` ---------- *)
Definition adjective_of_a_spans (is_adj : tok -> bool) (doc : list tok) : res unit :=
  each_chk (fun i => span_at (fun a b => is_adj a && flag F_WORD b) doc (i, i + 4)) (term_indices is_adj doc).

(* ---------- InflectedVerbAfterTo::lint: Span::new(prep.span.start, word.span.end), behind `!word.kind.is_word() => continue` ---------- *)
Definition inflected_spans (is_prep : tok -> bool) (doc : list tok) : res unit :=
  each_chk (fun pi => span_at (fun a b => is_prep a && flag F_WORD b) doc (pi, pi + 2)) (term_indices is_prep doc).

(* ---------- CommaFixes::lint: three arms with Span::new(toks.1.unwrap().span.start, toks.2.span.end), Some(Space(_)) in position 1 ---------- *)
Definition comma_spans (is_comma is_space : tok -> bool) (doc : list tok) : res unit :=
  each_chk (fun ci => if 1 <=? ci then
                        do p <- sub_chk ci 1;
                        let g := fun a b => is_space a && is_comma b in
                        do _x <- span_at g doc (p, ci); do _y <- span_at g doc (p, ci); span_at g doc (p, ci)
                      else Ok tt)
           (term_indices is_comma doc).
