(* EffectsSave.v — C10: WHERE harper-ls writes when it saves a dictionary, as the code computes it now
   (harper-ls/src/dictionary_io.rs: file_dict_name since 08b9da8, save_dict since 87b8642 + a91f3ee; backend.rs: get_file_dict_path).
   Executable definitions only; lemmas in Proofs/EffectsSaveProofs.v.  Extracted and compared, per
   HarperAddToFileDict / HarperAddToUserDict command of every traced session, with the open-for-writing and rename
   system calls the implementation really issued (harness/src/bin/c10.rs).

   Scope of the model: Unix paths as byte strings; ABSOLUTE configured paths (Config resolves `~` and relative
   settings before they get here); valid UTF-8 (file_dict_name's to_string_lossy is then the identity).
   Url::to_file_path is third-party: its result is an INPUT of the model (None = Err). *)
Require Import Base EffectsBase Effects.
Open Scope list_scope.

Definition percent : N := 37.
Definition dotdot : bytes := [46; 46]%N.
Definition onedot : bytes := [46]%N.

(* std::path::Path::components on an absolute Unix path: split at '/', empty and "." segments disappear, ".." stays;
   the RootDir component is not represented (file_dict_name skips it, everything else here is absolute) *)
Fixpoint split_aux (p cur : bytes) : list bytes :=
  match p with
  | [] => [rev cur]
  | c :: r => if (c =? slash)%N then rev cur :: split_aux r [] else split_aux r (c :: cur)
  end.
Definition keep_comp (s : bytes) : bool := negb (beqb s []) && negb (beqb s onedot).
Definition comps (p : bytes) : list bytes := filter keep_comp (split_aux p []).

(* file_dict_name(url): for seg in url.to_file_path()?.components() { if seg != RootDir { push seg; push '%' } } *)
Definition file_dict_name (fp : bytes) : bytes := flat_map (fun c => c ++ [percent]) (comps fp).

(* PathBuf::join: an absolute argument REPLACES the base (this is what an absolute or `..`-laden name would exploit);
   a relative one is appended; join("") only adds a trailing separator, i.e. no component *)
Definition join_comps (base name : bytes) : list bytes :=
  match name with
  | c :: _ => if (c =? slash)%N then comps name else comps base ++ comps name
  | [] => comps base
  end.

(* save_dict: tmp_name = path.file_name().unwrap_or_default() + ".tmp"; tmp_path = path.with_file_name(tmp_name).
   file_name() is the last component unless that is ".." (or there is none); with_file_name replaces the last
   component when file_name() is Some, and pushes otherwise.  NB a trailing '/' is no component: the file name of
   "<dir>/" is the directory's own name. *)
Definition tmp_comps (cs : list bytes) : list bytes :=
  match rev cs with
  | n :: r => if beqb n dotdot then cs ++ [tmp_suffix] else rev r ++ [n ++ tmp_suffix]
  | [] => [tmp_suffix]
  end.

(* what the harness does to every path of the system-call log before judging it: ".." resolved lexically *)
Fixpoint resolve_aux (cs acc : list bytes) : list bytes :=
  match cs with
  | [] => rev acc
  | c :: r => if beqb c dotdot then resolve_aux r (tl acc) else resolve_aux r (c :: acc)
  end.
Definition resolve (cs : list bytes) : list bytes := resolve_aux cs [].

Definition render' (cs : list bytes) : bytes := flat_map (fun c => slash :: c) cs.
Definition render (cs : list bytes) : bytes := match cs with [] => [slash] | _ => render' cs end.

(* (path opened for writing, source of the rename, destination of the rename) of one save_dict(dst) *)
Definition save_plan (dst : list bytes) : bytes * bytes * bytes :=
  let t := render (resolve (tmp_comps dst)) in (t, t, render (resolve dst)).

(* a component list that names a file: there is a last component and it is not ".." (Path::file_name() is Some) *)
Definition names_file (cs : list bytes) : bool :=
  match rev cs with n :: _ => negb (beqb n dotdot) | [] => false end.

(* save_dict(dst) since a91f3ee (the fix of finding FC10b): a destination without a file name is refused BEFORE
   anything is created (no create_dir_all, no temporary file); otherwise the plan above *)
Definition save_dict_plan (dst : list bytes) : option (bytes * bytes * bytes) :=
  if names_file dst then Some (save_plan dst) else None.

(* HarperAddToFileDict: save_dict(config.file_dict_path.join(file_dict_name(url)?)).  file_dict_name fails — and nothing
   is written — when the URL has no file path, and (since 08b9da8) when that path has no component, i.e. the
   rewritten name is empty (`file:///`) *)
Definition file_dict_plan (filedir : bytes) (fp : option bytes) : option (bytes * bytes * bytes) :=
  match fp with
  | None => None
  | Some p => if beqb (file_dict_name p) [] then None
              else save_dict_plan (join_comps filedir (file_dict_name p))
  end.

(* HISTORY (before 08b9da8, finding FC10a): the empty name was joined too — kept only for the regression witness *)
Definition file_dict_plan_old (filedir : bytes) (fp : option bytes) : option (bytes * bytes * bytes) :=
  match fp with
  | None => None
  | Some p => Some (save_plan (join_comps filedir (file_dict_name p)))
  end.

(* HarperAddToUserDict: save_dict(&config.user_dict_path); None = refused, nothing written *)
Definition user_dict_plan (user : bytes) : option (bytes * bytes * bytes) := save_dict_plan (comps user).

(* HISTORY (before a91f3ee, finding FC10b): no file-name check — kept only for the regression witness *)
Definition user_dict_plan_old (user : bytes) : bytes * bytes * bytes := save_plan (comps user).
