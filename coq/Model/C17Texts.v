(* C17Texts.v — C17, specification side for texts with SEVERAL ordinals (no proofs here).
   A text is described by its instances, each with the stretch of text in front of it, and the final right context:
       mtext [i1; ..; ik] post = pre1 ++ D1 ++ [a1; b1] ++ pre2 ++ D2 ++ [a2; b2] ++ .. ++ post
   `mctx_ok` is the covered class (decidable, syntactic; for k = 1 it is ctx_ok plus the conditions on the digits and
   the suffix letters that C17_lint_digits states as hypotheses), `mexpected` is what the rule must report: one
   verdict per instance, in document order, each on exactly the two suffix letters of its instance. *)
Require Import Base Overlap Suggestion Tables_number Number.
From Coq Require Import List Arith NArith Bool.
Import ListNotations.

Record inst := mkinst { i_pre : text; i_digits : text; i_a : N; i_b : N }.

Fixpoint mtext (l : list inst) (post : text) : text :=
  match l with
  | [] => post
  | i :: r => i_pre i ++ i_digits i ++ [i_a i; i_b i] ++ mtext r post
  end.

(* what follows a suffix does not start with a word character or a digit *)
Definition tail_okb (U : uni) (t : text) : bool :=
  match t with c :: _ => negb (u_lingual U c) && negb (is_ascii_digit c) | [] => true end.
(* in front of a number: no numeric character, no '[', no '@', not ending in a word character *)
Definition pre_okb (U : uni) (pre : text) : bool :=
  forallb (fun c => negb (u_numeric U c) && negb (c =? 91)%N && negb (c =? 64)%N) pre
  && match last_error pre with Some c => negb (u_lingual U c) | None => true end.
(* a non-empty string of ASCII digits denoting an integer below 2^53 (leading zeros allowed) *)
Definition digits_okb (D : text) : bool :=
  negb (length D =? 0) && forallb is_ascii_digit D && (parse_dec D <? two53)%N.
Definition suffix_of (i : inst) : option suffix := from_chars [i_a i; i_b i].

Fixpoint segs_ok (U : uni) (l : list inst) (post : text) : bool :=
  match l with
  | [] => forallb (fun c => negb (u_numeric U c) && negb (c =? 64)%N) post
  | i :: r => pre_okb U (i_pre i) && digits_okb (i_digits i)
              && (match suffix_of i with Some _ => true | None => false end)
              && tail_okb U (mtext r post) && segs_ok U r post
  end.
Definition mctx_ok (U : uni) (l : list inst) (post : text) : bool :=
  segs_ok U l post && negb (has_scheme_mark (mtext l post)) && dots_ok (mtext l post).

(* the verdict on one instance whose suffix letters stand at off .. off + 2 *)
Definition verdict (off : nat) (D : text) (sx : suffix) : list mlint :=
  if suffix_eqb sx (ordinal (parse_dec D)) then []
  else [mkmlint (mkspan off (off + 2)) [ReplaceWith (to_chars (ordinal (parse_dec D)))]].
Fixpoint mexpected (off : nat) (l : list inst) : list mlint :=
  match l with
  | [] => []
  | i :: r =>
      let p := off + length (i_pre i) + length (i_digits i) in
      (match suffix_of i with Some sx => verdict p (i_digits i) sx | None => [] end) ++ mexpected (p + 2) r
  end.
(* an instance whose suffix is not the English one *)
Definition wrongb (i : inst) : bool :=
  match suffix_of i with Some sx => negb (suffix_eqb sx (ordinal (parse_dec (i_digits i)))) | None => false end.

(* driver entry point (extracted): the class and the expected lints of a structured text *)
Definition run_multi (U : uni) (l : list inst) (post : text) : bool * list (nat * nat * list text) :=
  (mctx_ok U l post, map lint_code (mexpected 0 l)).
