(* C18Str.v — executable model of make_title_case_str / make_title_case_chars (title_case.rs) END TO END
   for the PlainEnglish parser: the text is lexed and condensed by C02's frozen models
   (Lexer.plain_parse, Condense.document_passes = Document::new_from_vec without the metadata), every
   Word token receives the dictionary's metadata for its text (the loop that ends Document::parse:
   `*meta = dictionary.get_word_metadata(token.span.get_content(source)).cloned()` — it overwrites
   whatever articles_imply_nouns did before, which therefore has no effect on the result), and the
   token list is handed to TitleCase.make_title_case together with the same text.  No proofs here.

   `source.chars().collect()` / `.to_string()` are the identity on `text = list char`.
   The panic of the look-up loop's `get_content` is Condense.word_lookup_check, which document_passes
   runs on the same tokens; where it does not panic its value is the slice (C18StrProofs.get_content_slice),
   which is what `attach_tok` hands to the dictionary. *)
Require Import Base Overlap Tables_lexer Lexer Condense Tables_titlecase TitleCase.

(* TokenKind of the lexer model -> TokenKind class of the title-case model (payloads dropped; Word
   receives the metadata) *)
Definition conv_kind (m : option wmeta) (k : Lexer.tkind) : tkind :=
  match k with
  | Lexer.KWord => KWord m
  | Lexer.KPunct _ => KPunct
  | Lexer.KDecade => KDecade
  | Lexer.KNumber _ => KNumber
  | Lexer.KSpace _ => KSpace
  | Lexer.KNewline _ => KNewline
  | Lexer.KEmail => KEmail
  | Lexer.KUrl => KUrl
  | Lexer.KHostname => KHostname
  | Lexer.KUnlintable => KUnlintable
  | Lexer.KParagraphBreak => KParaBreak
  | Lexer.KRegexish => KRegexish
  end.

Definition attach_tok (dict_meta : text -> option wmeta) (src : text) (t : Lexer.token) : token :=
  mktok (Lexer.tspan t)
        (match Lexer.tkind_of t with
         | Lexer.KWord => KWord (dict_meta (slice src (Lexer.tstart t) (Lexer.tend t)))
         | k => conv_kind None k
         end).

Definition attach (dict_meta : text -> option wmeta) (src : text) (ts : list Lexer.token) : list token :=
  map (attach_tok dict_meta src) ts.

Section Str.
  Variable u : uni.                             (* Unicode class predicates of the lexer *)
  Variable lower : char -> list char.           (* char::to_lowercase *)
  Variable upper : char -> list char.           (* char::to_uppercase *)
  Variable is_lowercase : char -> bool.         (* char::is_lowercase *)
  Variable dict_canon : text -> option text.    (* Dictionary::get_correct_capitalization_of *)
  Variable dict_meta : text -> option wmeta.    (* Dictionary::get_word_metadata (projected) *)

  (* Document::new_from_vec(source, &PlainEnglish, dict).get_tokens() *)
  Definition document_tokens (src : text) : res (list token) :=
    do ts <- document_plain u src;
    Ok (attach dict_meta src ts).

  (* make_title_case_str(source, &PlainEnglish, dict) *)
  Definition title_case_str (src : text) : res text :=
    do toks <- document_tokens src;
    make_title_case lower upper is_lowercase dict_canon dict_meta toks src.
End Str.

(* ---------- entry points for the extracted driver ---------- *)
Definition tbl_lower (chars : list (char * (bool * (list char * list char)))) (c : char) : list char :=
  match assoc_char chars c with Some (_, (l, _)) => l | None => [c] end.
Definition tbl_upper (chars : list (char * (bool * (list char * list char)))) (c : char) : list char :=
  match assoc_char chars c with Some (_, (_, up)) => up | None => [c] end.
Definition tbl_isl (chars : list (char * (bool * (list char * list char)))) (c : char) : bool :=
  match assoc_char chars c with Some (b, _) => b | None => false end.
Definition tbl_canon (canon : list (text * option text)) (w : text) : option text :=
  match assoc_text canon w with Some r => r | None => None end.
Definition tbl_meta (meta : list (text * option wmeta)) (w : text) : option wmeta :=
  match assoc_text meta w with Some r => r | None => None end.

Definition run_title_case_str (u : uni)
           (chars : list (char * (bool * (list char * list char))))
           (canon : list (text * option text))
           (meta : list (text * option wmeta))
           (src : text) : res text :=
  title_case_str u (tbl_lower chars) (tbl_upper chars) (tbl_isl chars) (tbl_canon canon) (tbl_meta meta) src.

(* the token list the model hands to make_title_case, in the driver's tuple form *)
Definition tok_tuple (t : token) : nat * nat * nat * option wmeta :=
  (sstart (tspan t), send (tspan t), kind_code (tkind_ t),
   match tkind_ t with KWord m => m | _ => None end).

Definition run_document_tokens (u : uni) (meta : list (text * option wmeta)) (src : text)
  : res (list (nat * nat * nat * option wmeta)) :=
  do toks <- document_tokens u (tbl_meta meta) src;
  Ok (map tok_tuple toks).

(* did the harness dump every fact this run asks for?  (the model tokenises the text itself, so the
   keys are those of ITS tokens: a disagreement about tokens shows up as a missing fact or a wrong result,
   never silently) *)
Definition run_str_missing_keys (u : uni)
           (chars : list (char * (bool * (list char * list char))))
           (canon : list (text * option text))
           (meta : list (text * option wmeta))
           (src : text) : bool :=
  match document_plain u src with
  | Panic _ => false
  | Ok ts =>
      existsb (fun t => match Lexer.tkind_of t with
                        | Lexer.KWord =>
                            match assoc_text meta (slice src (Lexer.tstart t) (Lexer.tend t)) with
                            | None => true | Some _ => false end
                        | _ => false
                        end) ts
      || run_missing_keys chars canon meta (map tok_tuple (attach (tbl_meta meta) src ts)) src
  end.
