(* Stats.v — the statistics log of harper-stats (src/lib.rs, src/summary.rs) and the way harper-ls
   (backend.rs: save_stats, append mode) and harper-wasm (generate_stats_file / import_stats_file) use it.
   A record is abstract; serde is a pair of Section variables (`ser`, `de`) whose contract is stated in
   Proofs/StatsProofs.v.  A file is a list of bytes.  No proofs here. *)
Require Import Base JsonEscape.
Local Open Scope N_scope.

(* ---------- BufRead::lines (std/src/io/mod.rs: Lines::next, read_line, read_until(b'\n')) ---------- *)
(* read_until(b'\n') cuts the byte stream after every LF; what follows the last LF is a final,
   unterminated chunk — kept unless it is empty (read_line returns Ok(0) = end of iteration).
   Each element: (bytes before the LF, was there an LF). *)
Fixpoint raw_lines (bs : bytes) : list (bytes * bool) :=
  match bs with
  | [] => []
  | b :: t =>
    if b =? 10 then ([], true) :: raw_lines t
    else match raw_lines t with
         | [] => [([b], false)]
         | (l, tm) :: rest => (b :: l, tm) :: rest
         end
  end.

(* `if buf.ends_with('\n') { buf.pop(); if buf.ends_with('\r') { buf.pop(); } }` :
   exactly one CR is removed, and only from a line that was terminated by LF *)
Fixpoint strip_cr (l : bytes) : bytes :=
  match l with
  | [] => []
  | [b] => if b =? 13 then [] else [b]
  | b :: t => b :: strip_cr t
  end.

Definition line_of (x : bytes * bool) : bytes := if snd x then strip_cr (fst x) else fst x.
Definition lines (bs : bytes) : list bytes := map line_of (raw_lines bs).

(* read_line additionally rejects a chunk that is not UTF-8 (the Lines item is then an Err, the bytes are
   consumed and iteration goes on); for the driver: Some text / None per line *)
Definition lines_utf8 (bs : bytes) : list (option text) := map utf8_dec (lines bs).

(* vocabulary of the statements: a byte that is not a C0 control; a line that BufRead::lines gives back
   unchanged; a file that Stats::write may be appended to ("either empty or terminated by a newline") *)
Definition ge32 (b : byte) : Prop := 32 <= b.
Definition line_ok (l : bytes) : Prop := ~ In 10 l /\ last l 0 <> 13.
Definition terminated (f : bytes) : Prop := f = [] \/ last f 0 = 10.

Section Log.
  Variable record : Type.
  Variable ser : record -> bytes.                 (* Serializer::new(w) + record.serialize *)
  Variable de : bytes -> option record.           (* String::from_utf8 (read_line) + serde_json::from_str *)

  (* Stats::write: for each record, its JSON then `writeln!(w)` *)
  Definition write (rs : list record) : bytes := flat_map (fun r => ser r ++ [10]) rs.

  (* Stats::read: `for line_res in br.lines() { let line = line_res?; records.push(from_str(&line)?) }`
     — the first line that is not UTF-8 or does not deserialise makes the WHOLE read fail *)
  Fixpoint read_lines (ls : list bytes) : option (list record) :=
    match ls with
    | [] => Some []
    | l :: t =>
      match de l with
      | None => None
      | Some r => match read_lines t with Some rs => Some (r :: rs) | None => None end
      end
    end.
  Definition read (file : bytes) : option (list record) := read_lines (lines file).

  (* harper-ls save_stats: OpenOptions::new().read(true).append(true).create(true): every session's
     bytes go to the end of what the file holds (O_APPEND); a missing file is created empty.
     harper-wasm: generate_stats_file = write into an empty Vec; import_stats_file = read + Vec::append. *)
  Definition append_session (file : bytes) (rs : list record) : bytes := file ++ write rs.
  Definition sessions (file : bytes) (ss : list (list record)) : bytes := fold_left append_session ss file.
End Log.

(* ---------- Stats::summarize / Summary ---------- *)
Section Summary.
  Variable lintkind : Type.
  Variable kind_eqb : lintkind -> lintkind -> bool.
  Variable config : Type.
  Variable default_config : config.               (* LintGroupConfig::default() *)

  (* what summarize looks at in a record: RecordKind::Lint { kind, context } — of the context only the
     contents of the tokens whose kind is Word(None), in order — or RecordKind::LintConfigUpdate(c) *)
  Inductive rkind :=
  | RLint (k : lintkind) (misspelt : list text)
  | RConfig (c : config).

  Fixpoint text_eqb (a b : text) : bool :=
    match a, b with
    | [], [] => true
    | x :: a', y :: b' => (x =? y) && text_eqb a' b'
    | _, _ => false
    end.

  (* HashMap::entry(k).and_modify(+1).or_insert(1) / get_mut(k) += 1 else insert(k, 1), as an
     association list with at most one entry per key (order = first insertion; the real HashMap has no
     order, outputs are compared as sorted lists) *)
  Section Bump.
    Context {K : Type} (eqb : K -> K -> bool).
    Fixpoint bump (k : K) (m : list (K * nat)) : list (K * nat) :=
      match m with
      | [] => [(k, 1%nat)]
      | (k', n) :: t => if eqb k k' then (k', S n) :: t else (k', n) :: bump k t
      end.
    Fixpoint lookup (k : K) (m : list (K * nat)) : nat :=
      match m with
      | [] => 0%nat
      | (k', n) :: t => if eqb k k' then n else lookup k t
      end.
  End Bump.

  Record summary := mksummary {
    lint_counts : list (lintkind * nat);
    total_applied : nat;
    final_config : config;
    misspelled : list (text * nat) }.

  Definition summary_new : summary := mksummary [] 0 default_config [].

  Definition inc_lint_count (s : summary) (k : lintkind) : summary :=
    mksummary (bump kind_eqb k (lint_counts s)) (S (total_applied s)) (final_config s) (misspelled s).
  Definition inc_misspelled_count (s : summary) (w : text) : summary :=
    mksummary (lint_counts s) (total_applied s) (final_config s) (bump text_eqb w (misspelled s)).

  Definition summarize_step (s : summary) (r : rkind) : summary :=
    match r with
    | RLint k ws => fold_left inc_misspelled_count ws (inc_lint_count s k)
    | RConfig c => mksummary (lint_counts s) (total_applied s) c (misspelled s)
    end.

  (* the `for record in &self.records` loop *)
  Definition summarize (rs : list rkind) : summary := fold_left summarize_step rs summary_new.

  (* get_count *)
  Definition get_count (s : summary) (k : lintkind) : nat := lookup kind_eqb k (lint_counts s).

  (* vocabulary of the statements about summarize *)
  Definition is_lint (r : rkind) : bool := match r with RLint _ _ => true | RConfig _ => false end.
  Definition has_kind (k : lintkind) (r : rkind) : bool :=
    match r with RLint k' _ => kind_eqb k k' | RConfig _ => false end.
  Definition words_of (r : rkind) : list text := match r with RLint _ ws => ws | RConfig _ => [] end.
  Fixpoint last_config (rs : list rkind) (d : config) : config :=
    match rs with [] => d | RConfig c :: t => last_config t c | RLint _ _ :: t => last_config t d end.
  Definition count_sum {K : Type} (m : list (K * nat)) : nat := fold_right (fun e a => (snd e + a)%nat) 0%nat m.
End Summary.

(* ---------- concrete instances for the extracted driver ---------- *)
(* the driver is handed serde's behaviour on the lines of the case as a table: line bytes ↦ what
   from_str::<Record> made of it (Some id = the record the harness numbers id, None = an error) *)
Fixpoint bytes_eqb (a b : bytes) : bool :=
  match a, b with
  | [], [] => true
  | x :: a', y :: b' => (x =? y) && bytes_eqb a' b'
  | _, _ => false
  end.

Fixpoint table_de (tbl : list (bytes * option N)) (l : bytes) : option N :=
  match tbl with
  | [] => None
  | (k, v) :: t => if bytes_eqb k l then v else table_de t l
  end.

(* run_sessions: the file after the sessions (each a list of already serialised records), and what
   Stats::read makes of it given the table *)
Definition run_sessions (tbl : list (bytes * option N)) (start : bytes) (ss : list (list bytes))
  : bytes * option (list N) :=
  let file := sessions bytes (fun b => b) start ss in
  (file, read N (table_de tbl) file).

Definition run_lines (bs : bytes) : list (option text) := lines_utf8 bs.

(* run_summarize: lint kinds and configurations are numbered by the harness *)
Definition run_summarize (rs : list (rkind N N)) : summary N N :=
  summarize N N.eqb N 0 rs.
