(* Ignore.v — model of harper-core/src/ignored_lints/{mod.rs, lint_context.rs}, fat_token.rs and the
   parts of document.rs / token.rs / span.rs they call.  No proofs here.

   LintContext::from_lint(lint, document) — as it is after the fix commits 8948350 (F12), 4550195 (F13)
   and 483b7cf (C16-N1) — builds
       (lint_kind, suggestions, message, priority, tokens)
   — every field derives Hash, priority included — where `tokens` are the FAT tokens
   (TokenKind, content chars; no position) of
       problem  = tokens intersecting  lint.span                                         = [s, e)
       prequel  = tokens intersecting  Span::new(lint.span.start.saturating_sub(2), lint.span.start) = [s-2 (sat), s)
       sequel   = tokens intersecting  Span::new_with_len(lint.span.end, 2)              = [e, e+2)
   concatenated prequel ++ problem ++ sequel (ONE flat list: the window boundaries are not recorded),
   each fat token with Quote.twin_loc := None and Word(metadata) := Word(None).
   IgnoredLints is a HashSet<u64> of DefaultHasher hashes of that structure.
   The code BEFORE those commits (windows [s-2,s) only when s >= 2, [s,e), [s+2,s+4); nothing blanked)
   lives in History/C14History.v as `context_old`. *)
Require Import Base Suggestion.

(* ---------- TokenKind (token_kind.rs), with every field that derives Hash ---------- *)
Inductive tkind :=
| KWord (meta : option N)          (* Word(Option<WordMetadata>): the metadata as an opaque code *)
| KPunct (p : N)                   (* Punctuation(p) for every variant but Quote: the variant *)
| KQuote (twin : option nat)       (* Punctuation(Quote(Quote { twin_loc })): an ABSOLUTE token index *)
| KDecade
| KNumber (value : N) (suffix : option N) (radix : N) (precision : nat)
                                   (* Number { value: OrderedFloat<f64>, suffix: Option<NumberSuffix>, radix: u32, precision: usize } *)
| KSpace (n : nat)
| KNewline (n : nat)
| KEmail | KUrl | KHostname | KUnlintable | KParagraphBreak | KRegexish.

Record token := mktok { tspan : span; tkd : tkind }.
Record doc := mkdoc { dsrc : text; dtoks : list token }.

(* FatToken { content, kind } *)
Definition ftok := (tkind * text)%type.

(* Lint { span, lint_kind, suggestions, message, priority } *)
Record ilint := mkilint { il_span : span; il_kind : N; il_sugg : list suggestion; il_msg : text; il_prio : N }.

(* LintContext *)
Record ctx := mkctx { c_kind : N; c_sugg : list suggestion; c_msg : text; c_prio : N; c_toks : list ftok }.

(* ---------- Document::token_indices_intersecting ---------- *)
Fixpoint indices_from (i : nat) (ts : list token) (sp : span) : list nat :=
  match ts with
  | [] => []
  | t :: r => if overlaps (tspan t) sp then i :: indices_from (S i) r sp else indices_from (S i) r sp
  end.
Definition token_indices_intersecting (d : doc) (sp : span) : list nat := indices_from 0 (dtoks d) sp.

(* what the closure of from_lint does to a fat token before it enters the context:
     if let Punctuation(Quote(quote)) = &mut fat.kind { quote.twin_loc = None; }     (8948350)
     if let Word(metadata) = &mut fat.kind { *metadata = None; }                      (483b7cf) *)
Definition blank_kind (k : tkind) : tkind :=
  match k with KQuote _ => KQuote None | KWord _ => KWord None | k' => k' end.
Definition blank_ftok (f : ftok) : ftok := (blank_kind (fst f), snd f).

(* the windows of from_lint, with the span arithmetic the code uses *)
(* Span::new(lint.span.start.saturating_sub(2), lint.span.start): Span::new panics when start > end (checked) *)
Definition prequel_window (sp : span) : res span := span_new (sstart sp - 2) (sstart sp).
(* Span::new_with_len(lint.span.end, 2) *)
Definition sequel_window (sp : span) : span := span_new_with_len (send sp) 2.

Definition context_indices (l : ilint) (d : doc) : res (list nat) :=
  let problem := token_indices_intersecting d (il_span l) in
  do pw <- prequel_window (il_span l);
  let prequel := token_indices_intersecting d pw in
  let sequel := token_indices_intersecting d (sequel_window (il_span l)) in
  Ok (prequel ++ problem ++ sequel).

(* .flat_map(|idx| document.get_token(idx)) *)
Fixpoint get_tokens (ts : list token) (idxs : list nat) : list token :=
  match idxs with
  | [] => []
  | i :: r => match nth_error ts i with Some t => t :: get_tokens ts r | None => get_tokens ts r end
  end.

(* Token::to_fat: span.get_content(source) panics when the span does not lie in the source *)
Definition to_fat (src : text) (t : token) : res ftok :=
  do c <- get_content (tspan t) src; Ok (tkd t, c).
(* .map(|t| { let mut fat = t.to_fat(..); <blank>; fat }) *)
Definition fat_blanked (src : text) (t : token) : res ftok :=
  do f <- to_fat src t; Ok (blank_ftok f).

Fixpoint map_res {A B} (f : A -> res B) (l : list A) : res (list B) :=
  match l with
  | [] => Ok []
  | x :: r => do y <- f x; do ys <- map_res f r; Ok (y :: ys)
  end.

Definition context_tokens (l : ilint) (d : doc) : res (list ftok) :=
  do idx <- context_indices l d;
  map_res (fat_blanked (dsrc d)) (get_tokens (dtoks d) idx).

Definition context (l : ilint) (d : doc) : res ctx :=
  do toks <- context_tokens l d;
  Ok (mkctx (il_kind l) (il_sugg l) (il_msg l) (il_prio l) toks).

(* ---------- decidable equality of contexts (what "same hash input" means; used by the driver) ---------- *)
Definition opt_eqb {A} (eqb : A -> A -> bool) (a b : option A) : bool :=
  match a, b with
  | Some x, Some y => eqb x y
  | None, None => true
  | _, _ => false
  end.
Fixpoint list_eqb {A} (eqb : A -> A -> bool) (a b : list A) : bool :=
  match a, b with
  | [], [] => true
  | x :: a', y :: b' => eqb x y && list_eqb eqb a' b'
  | _, _ => false
  end.
Definition text_eqb : text -> text -> bool := list_eqb N.eqb.

Definition tkind_eqb (a b : tkind) : bool :=
  match a, b with
  | KWord m, KWord m' => opt_eqb N.eqb m m'
  | KPunct p, KPunct p' => N.eqb p p'
  | KQuote t, KQuote t' => opt_eqb Nat.eqb t t'
  | KDecade, KDecade => true
  | KNumber v s r p, KNumber v' s' r' p' => N.eqb v v' && opt_eqb N.eqb s s' && N.eqb r r' && Nat.eqb p p'
  | KSpace n, KSpace n' => Nat.eqb n n'
  | KNewline n, KNewline n' => Nat.eqb n n'
  | KEmail, KEmail => true
  | KUrl, KUrl => true
  | KHostname, KHostname => true
  | KUnlintable, KUnlintable => true
  | KParagraphBreak, KParagraphBreak => true
  | KRegexish, KRegexish => true
  | _, _ => false
  end.
Definition ftok_eqb (a b : ftok) : bool := tkind_eqb (fst a) (fst b) && text_eqb (snd a) (snd b).
Definition sugg_eqb (a b : suggestion) : bool :=
  match a, b with
  | ReplaceWith x, ReplaceWith y => text_eqb x y
  | InsertAfter x, InsertAfter y => text_eqb x y
  | Remove, Remove => true
  | _, _ => false
  end.
Definition ctx_eqb (a b : ctx) : bool :=
  N.eqb (c_kind a) (c_kind b) && list_eqb sugg_eqb (c_sugg a) (c_sugg b) && text_eqb (c_msg a) (c_msg b)
  && N.eqb (c_prio a) (c_prio b) && list_eqb ftok_eqb (c_toks a) (c_toks b).

(* ---------- IgnoredLints ---------- *)
(* context_hashes: HashSet<u64>, as a duplicate-free list; only membership is observable *)
Definition ignored := list N.
Definition ig_mem (h : N) (s : ignored) : bool := existsb (N.eqb h) s.
Definition ig_insert (h : N) (s : ignored) : ignored := if ig_mem h s then s else h :: s.
(* append: self.context_hashes.extend(other.context_hashes) *)
Definition ig_append (s other : ignored) : ignored := fold_left (fun acc h => ig_insert h acc) other s.

Section Hashed.
  (* the context builder (LintContext::from_lint = `context`; History/C14History.v instantiates it with
     `context_old`) and DefaultHasher over the derived Hash of LintContext *)
  Variable ctxf : ilint -> doc -> res ctx.
  Variable hash : ctx -> N.

  Definition hash_lint_context (l : ilint) (d : doc) : res N := do c <- ctxf l d; Ok (hash c).
  Definition ignore_lint (s : ignored) (l : ilint) (d : doc) : res ignored :=
    do h <- hash_lint_context l d; Ok (ig_insert h s).
  Definition is_ignored (s : ignored) (l : ilint) (d : doc) : res bool :=
    do h <- hash_lint_context l d; Ok (ig_mem h s).

  (* lints.retain(|lint| !self.is_ignored(lint, document)) — retain visits the elements in order *)
  Fixpoint retain_unignored (s : ignored) (ls : list ilint) (d : doc) : res (list ilint) :=
    match ls with
    | [] => Ok []
    | l :: r =>
        do b <- is_ignored s l d;
        do r' <- retain_unignored s r d;
        Ok (if b then r' else l :: r')
    end.
  Definition remove_ignored (s : ignored) (ls : list ilint) (d : doc) : res (list ilint) :=
    match s with
    | [] => Ok ls                                   (* if self.context_hashes.is_empty() { return; } *)
    | _ => retain_unignored s ls d
    end.

  (* ignoring a whole history of (lint, document) pairs, starting from `s` *)
  Fixpoint ignore_all (s : ignored) (h : list (ilint * doc)) : res ignored :=
    match h with
    | [] => Ok s
    | (l, d) :: r => do s' <- ignore_lint s l d; ignore_all s' r
    end.
End Hashed.

(* ---------- the property's own notion of neighbourhood ---------- *)
(* "the flagged text and the tokens within two characters of it": tokens intersecting the two
   characters before the span (clamped at the start of the text), the span, and the two characters
   after its END, as THREE lists; a token is its kind and its text — a quote's partner index is a
   position and a word's dictionary metadata is a fact about the dictionary, not about the text. *)
Definition before_window (sp : span) : span := mkspan (sstart sp - 2) (sstart sp).   (* saturating_sub *)
Definition after_window (sp : span) : span := mkspan (send sp) (send sp + 2).

(* fat tokens intersecting one window *)
Definition window_tokens (d : doc) (sp : span) : res (list ftok) :=
  map_res (to_fat (dsrc d)) (get_tokens (dtoks d) (token_indices_intersecting d sp)).

(* (tokens within two characters before, flagged tokens, tokens within two characters after) *)
Definition nb_parts (l : ilint) (d : doc) : res (list ftok * list ftok * list ftok) :=
  do b <- window_tokens d (before_window (il_span l));
  do p <- window_tokens d (il_span l);
  do a <- window_tokens d (after_window (il_span l));
  Ok (map blank_ftok b, map blank_ftok p, map blank_ftok a).

(* the same, flattened (what the code hashes: Proofs/IgnoreProofs.v, context_tokens_nb) *)
Definition nb_tokens (l : ilint) (d : doc) : res (list ftok) :=
  do '(b, p, a) <- nb_parts l d; Ok (b ++ p ++ a).

Definition nb_indices (l : ilint) (d : doc) : list nat :=
  token_indices_intersecting d (before_window (il_span l))
  ++ token_indices_intersecting d (il_span l)
  ++ token_indices_intersecting d (after_window (il_span l)).

(* ---------- the same document under another dictionary / after tokens were inserted elsewhere ---------- *)
(* a document with everything removed that the context does not look at *)
Definition blank_token (t : token) : token := mktok (tspan t) (blank_kind (tkd t)).
Definition blank_doc (d : doc) : doc := mkdoc (dsrc d) (map blank_token (dtoks d)).

(* a lint moved by k characters (text inserted in front) *)
Definition shift_span (k : nat) (sp : span) : span := push_by sp k.
Definition shift_lint (k : nat) (l : ilint) : ilint :=
  mkilint (shift_span k (il_span l)) (il_kind l) (il_sugg l) (il_msg l) (il_prio l).

(* ---------- serde_json of IgnoredLints:  {"context_hashes":[h1,h2,...]}  ---------- *)
(* export = serde_json::to_string: compact, the elements in the HashSet's iteration order (any order:
   the theorems quantify over all permutations).  import = serde_json::from_str, modelled on the
   grammar   ws { ws KEY ws : ws [ ws ITEMS ws ] ws } ws,  KEY = the quoted field name,  ITEMS = empty or
   num (ws , ws num)...,  with
   num = 0 | [1-9][0-9]*  and  num <= u64::MAX; everything else is rejected (None = Err(..), not a
   panic).  serde_json accepts more spellings of the same value (escapes in the key, unknown extra
   keys, the tuple form [[..]]); those are outside the model and outside the generated cases. *)
Local Open Scope N_scope.
Definition u64_max : N := 18446744073709551615.

Fixpoint digits_fuel (fuel : nat) (n : N) (acc : text) : text :=
  match fuel with
  | O => acc
  | S f => if n <? 10 then (48 + n) :: acc else digits_fuel f (n / 10) ((48 + n mod 10) :: acc)
  end.
(* a u64 has at most 20 decimal digits *)
Definition render_num (n : N) : text := digits_fuel 20 n [].

Definition key_text : text := [99;111;110;116;101;120;116;95;104;97;115;104;101;115].   (* context_hashes *)
Fixpoint render_items (l : list N) : text :=
  match l with
  | [] => []
  | [x] => render_num x
  | x :: r => render_num x ++ 44 :: render_items r
  end.
Definition render_set (l : list N) : text :=
  123 :: 34 :: key_text ++ 34 :: 58 :: 91 :: render_items l ++ [93; 125].

Inductive jtok := JLBrace | JRBrace | JLBrack | JRBrack | JColon | JComma | JStr (s : text) | JNum (ds : text) | JBad.
Inductive lexst := LNone | LNum (rev_ds : text) | LStr (rev_cs : text).
Definition is_ws (c : N) : bool := (c =? 32) || (c =? 10) || (c =? 13) || (c =? 9).
Definition is_digit (c : N) : bool := (48 <=? c) && (c <=? 57).
(* one character met outside a number and outside a string *)
Definition step_none (c : N) : option jtok * lexst :=
  if is_ws c then (None, LNone)
  else if is_digit c then (None, LNum [c])
  else if c =? 34 then (None, LStr [])
  else if c =? 123 then (Some JLBrace, LNone)
  else if c =? 125 then (Some JRBrace, LNone)
  else if c =? 91 then (Some JLBrack, LNone)
  else if c =? 93 then (Some JRBrack, LNone)
  else if c =? 58 then (Some JColon, LNone)
  else if c =? 44 then (Some JComma, LNone)
  else (Some JBad, LNone).
Definition emit (o : option jtok) (r : list jtok) : list jtok := match o with Some t => t :: r | None => r end.
Fixpoint lex (st : lexst) (cs : text) : list jtok :=
  match cs with
  | [] => match st with LNone => [] | LNum ds => [JNum (rev ds)] | LStr _ => [JBad] end
  | c :: r =>
      match st with
      | LStr acc =>
          if c =? 34 then JStr (rev acc) :: lex LNone r
          else if (c =? 92) || (c <? 32) then [JBad]           (* escapes / control characters: not modelled *)
          else lex (LStr (c :: acc)) r
      | LNum ds =>
          if is_digit c then lex (LNum (c :: ds)) r
          else JNum (rev ds) :: (let '(o, st') := step_none c in emit o (lex st' r))
      | LNone => let '(o, st') := step_none c in emit o (lex st' r)
      end
  end.

Definition digits_value (ds : text) : N := fold_left (fun a c => a * 10 + (c - 48)) ds 0.
Definition num_value (ds : text) : option N :=
  match ds with
  | [] => None
  | [d] => Some (d - 48)
  | d :: _ => if d =? 48 then None                               (* leading zero: invalid number *)
              else let v := digits_value ds in if v <=? u64_max then Some v else None
  end.

(* after an element: `, num` ... or `]` *)
Fixpoint parse_items (ts : list jtok) (acc : ignored) : option (ignored * list jtok) :=
  match ts with
  | JRBrack :: r => Some (acc, r)
  | JComma :: JNum ds :: r =>
      match num_value ds with Some v => parse_items r (ig_insert v acc) | None => None end
  | _ => None
  end.
Definition parse_set (ts : list jtok) : option ignored :=
  match ts with
  | JLBrace :: JStr k :: JColon :: JLBrack :: r =>
      if text_eqb k key_text then
        match r with
        | [JRBrack; JRBrace] => Some []
        | JNum ds :: r' =>
            match num_value ds with
            | Some v => match parse_items r' [v] with Some (s, [JRBrace]) => Some s | _ => None end
            | None => None
            end
        | _ => None
        end
      else None
  | _ => None
  end.
Local Close Scope N_scope.

Definition run_export (s : ignored) : text := render_set s.
Definition run_import (j : text) : option ignored := parse_set (lex LNone j).
(* Linter::import_ignored_lints: parse, then append; an unparsable text leaves the list alone *)
Definition import_into (s : ignored) (j : text) : option ignored :=
  match run_import j with Some o => Some (ig_append s o) | None => None end.

(* ---------- driver entry points ---------- *)
(* C: the token indices of the context (prequel ++ problem ++ sequel); None = a panic *)
Definition run_context_indices (l : ilint) (d : doc) : option (list nat) :=
  match context_indices l d with Ok i => Some i | Panic _ => None end.
(* X: is the lint l2 of d2 ignored after ignoring l1 of d1 (hash = identity)?  None = a panic *)
Definition run_same_context (l1 : ilint) (d1 : doc) (l2 : ilint) (d2 : doc) : option bool :=
  match context l1 d1, context l2 d2 with
  | Ok a, Ok b => Some (ctx_eqb a b)
  | _, _ => None
  end.
