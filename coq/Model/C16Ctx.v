(* C16Ctx.v — what Wasm.v leaves abstract as `ctx`, built from C14's model of the ignore context
   (Model/Ignore.v: LintContext::from_lint, imported, not edited) over a model of
   Document::new_from_vec(text, parser(lang), dictionary) in which the dictionary enters the document
   through the metadata of word tokens only.  No proofs here.

   harper-core/src/document.rs, Document::parse(&mut self, dictionary):
       condense_spaces .. condense_latin; match_quotes; articles_imply_nouns;      (none takes the dictionary)
       for token in self.tokens.iter_mut() {
           if let TokenKind::Word(meta) = &mut token.kind {
               let word_source = token.span.get_content(&self.source);
               let found_meta = dictionary.get_word_metadata(word_source);
               *meta = found_meta.cloned()
           } }
   (articles_imply_nouns runs while every word still carries Word(None): it changes nothing — modelled as
   written, i.e. it is part of `pre_tokens`.)  The translator tools/tables/wasmapi.py pins that
   `dictionary` occurs in Document::parse in that one expression only (document_parse_dictionary_uses)
   and that harper-wasm's two parsers are constructed without a dictionary (wasm_parser_constructors). *)
Require Import Base Overlap Suggestion LintJson Ignore Wasm.

(* `lint.lint_kind` as it enters the derived Hash of LintContext: the discriminant, declaration order *)
Definition kind_code (k : lint_kind) : N :=
  match k with
  | Spelling => 0 | Capitalization => 1 | Style => 2 | Formatting => 3 | Repetition => 4
  | Enhancement => 5 | Readability => 6 | WordChoice => 7 | Miscellaneous => 8 | Punctuation => 9
  end%N.

(* the same core Lint, in the field types of Ignore.v *)
Definition ilint_of (l : rlint) : ilint :=
  mkilint (rspan l) (kind_code (rkind l)) (rsugs l) (rmsg l) (N.of_nat (rprio l)).

Section Doc.
  (* the tokens after parser.parse(source) and every pass of Document::parse before the metadata loop
     (word tokens still carry Word(None)); no dictionary is in scope there *)
  Variable pre_tokens : text -> language -> list token.
  (* dictionary.get_word_metadata(word) of MergedDictionary(curated, user part), the WordMetadata as an
     opaque code *)
  Variable word_meta : dict -> text -> option N.

  (* one turn of the metadata loop; get_content is the checked slice of Base.v *)
  Definition set_meta (d : dict) (src : text) (t : token) : res token :=
    match tkd t with
    | KWord _ => do w <- get_content (tspan t) src; Ok (mktok (tspan t) (KWord (word_meta d w)))
    | _ => Ok t
    end.

  (* Document::new_from_vec(text, parser(lang), dictionary) *)
  Definition document (t : text) (lang : language) (d : dict) : res doc :=
    do toks <- map_res (set_meta d t) (pre_tokens t lang); Ok (mkdoc t toks).

  (* LintContext::from_lint(lint, document) on that document *)
  Definition context_of (l : rlint) (t : text) (lang : language) (d : dict) : res Ignore.ctx :=
    do dc <- document t lang d; Ignore.context (ilint_of l) dc.

  (* DefaultHasher over the derived Hash of LintContext *)
  Variable hash : Ignore.ctx -> N.

  (* IgnoredLints::hash_lint_context(lint, document) *)
  Definition hash_of (l : rlint) (t : text) (lang : language) (d : dict) : res N :=
    do dc <- document t lang d; hash_lint_context Ignore.context hash (ilint_of l) dc.

  (* the instance of Wasm.v's Section variable `ctx`.  Wasm.v has no panicking ignore_lint / lint (the
     premise "documents are well formed", C02, excludes it: C16_context_total); a panic is mapped to 0 so
     that the function is total, and it is the same panic under every dictionary. *)
  Definition ctx_inst (l : rlint) (t : text) (lang : language) (d : dict) : N :=
    match hash_of l t lang d with Ok h => h | Panic _ => 0%N end.
End Doc.

(* ---------- driver entry point (correspondence stream DC) ---------- *)
(* items = (lint, dictionary) pairs on ONE text: for each item the index of the first item with the same
   context (itself when there is none before it); None = a panic.  The implementation prints the same
   from the u64 hashes of the real IgnoredLints. *)
Definition res_ctx_eqb (a b : res Ignore.ctx) : bool :=
  match a, b with
  | Ok x, Ok y => ctx_eqb x y
  | _, _ => false
  end.
Fixpoint first_same (c : res Ignore.ctx) (before : list (res Ignore.ctx)) (i : nat) : nat :=
  match before with
  | [] => i
  | b :: r => if res_ctx_eqb b c then i else first_same c r (S i)
  end.
Fixpoint classes_from (seen : list (res Ignore.ctx)) (cs : list (res Ignore.ctx)) : list (option nat) :=
  match cs with
  | [] => []
  | c :: r =>
      (match c with Ok _ => Some (first_same c seen 0) | Panic _ => None end)
      :: classes_from (seen ++ [c]) r
  end.
Definition run_ctx_classes (pre_tokens : text -> language -> list token) (word_meta : dict -> text -> option N)
    (t : text) (lang : language) (items : list (rlint * dict)) : list (option nat) :=
  classes_from [] (map (fun it => context_of pre_tokens word_meta (fst it) t lang (snd it)) items).
