(* PosConv.v — model of harper-ls/src/pos_conv.rs (index <-> LSP position), of the TextEdit that
   diagnostics.rs builds per suggestion and of the lint selection in
   document_state.rs:generate_code_actions; plus, independent of the code, the specification side:
   what an LSP position denotes (`resolve`) and what an LSP client does with a TextEdit
   (`client_apply`).  No proofs here. *)
Require Import Base Suggestion.

(* char::len_utf16: 1 code unit in the BMP, 2 (a surrogate pair) above it *)
Definition len_utf16 (c : char) : nat := if (c <? 65536)%N then 1 else 2.

Definition NL : char := 10%N.
Definition is_nl (c : char) : bool := (c =? 10)%N.

Definition position := (nat * nat)%type.        (* (line, character), both u32 in the LSP types *)
Definition range := (position * position)%type. (* (start, end) *)

(* ------------------------------------------------------------------------------------------ *)
(*  the code                                                                                    *)
(* ------------------------------------------------------------------------------------------ *)

(* source.iter().enumerate().filter_map(|(idx, c)| if *c == '\n' { Some(idx + 1) } else { None })
   `base` is the index of the head of `s` *)
Fixpoint newline_indices_from (base : nat) (s : text) : list nat :=
  match s with
  | [] => []
  | c :: s' => if is_nl c then S base :: newline_indices_from (S base) s'
               else newline_indices_from (S base) s'
  end.
Definition newline_indices (s : text) : list nat := newline_indices_from 0 s.

Definition sum_utf16 (s : text) : nat := fold_right (fun c acc => len_utf16 c + acc) 0 s.

(* fn index_to_position(source, index) *)
Definition index_to_position (source : text) (index : nat) : res position :=
  do before <- slice_chk source 0 index;                         (* &source[0..index] *)
  let nl := newline_indices before in
  let lines := length nl in
  let last_newline_idx := last nl 0 in                            (* .last().copied().unwrap_or(0) *)
  do seg <- slice_chk source last_newline_idx index;              (* source[last_newline_idx..index] *)
  Ok (lines, sum_utf16 seg).

Definition span_to_range (source : text) (sp : span) : res range :=
  do a <- index_to_position source (sstart sp);
  do b <- index_to_position source (send sp);
  Ok (a, b).

(* Vec::pop().unwrap_or(d): the last element (or d) and the vector without it *)
Definition pop_or (l : list nat) (d : nat) : nat * list nat := (last l d, removelast l).

(* the column loop: for (traversed_chars, c) in seg.iter().enumerate() { if traversed_cols == col
   { return start + traversed_chars } traversed_cols += c.len_utf16() }
   inl k = returned from inside the loop after k characters; inr cols = fell through with
   traversed_cols = cols *)
Fixpoint col_loop (seg : text) (target cols k : nat) : nat + nat :=
  match seg with
  | [] => inr cols
  | c :: seg' => if cols =? target then inl k else col_loop seg' target (cols + len_utf16 c) (S k)
  end.

(* fn position_to_index(source, position) — the code as it is since 229693d (fix of F9).
   After the `.take(line + 1).collect()`:
     let line = position.line as usize;
     if line >= 1 && newline_indices.len() == line
         && (newline_indices[line - 1] < source.len() || position.character == 0)
     { newline_indices.push(source.len()); }
   `&&` short-circuits, so `newline_indices[line - 1]` is only evaluated when the vector has exactly
   `line >= 1` elements: it is the last element and the index cannot panic. *)
Definition position_to_index (source : text) (line col : nat) : res nat :=
  let nl0 := firstn (line + 1) (newline_indices source) in          (* .take(line + 1).collect() *)
  let nl := if (1 <=? line) && (length nl0 =? line) && ((last nl0 0 <? length source) || (col =? 0))
            then nl0 ++ [length source] else nl0 in                  (* .push(source.len()) *)
  let '(line_end_idx, nl1) := pop_or nl (length source) in
  let '(line_start_idx, _) := pop_or nl1 0 in
  do seg <- slice_chk source line_start_idx line_end_idx;
  match col_loop seg col 0 0 with
  | inl k => Ok (line_start_idx + k)
  | inr cols => if 0 <? cols then Ok line_end_idx else Ok line_start_idx
  end.

Definition range_to_span (source : text) (r : range) : res span :=
  let '((l1, c1), (l2, c2)) := r in
  do a <- position_to_index source l1 c1;
  do b <- position_to_index source l2 c2;
  span_new a b.                                                      (* Span::new panics on a > b *)

(* ---- HISTORY: position_to_index as it was before 229693d (finding F9, fixed).  Kept because the
   proofs reduce the current code to it outside the class the fix touches (PosConvProofs.fix_confined)
   and for the regression witnesses in History/C08History.v.  NOT the current tree. *)
Definition position_to_index_old (source : text) (line col : nat) : res nat :=
  let nl := firstn (line + 1) (newline_indices source) in
  let '(line_end_idx, nl1) := pop_or nl (length source) in
  let '(line_start_idx, _) := pop_or nl1 0 in
  do seg <- slice_chk source line_start_idx line_end_idx;
  match col_loop seg col 0 0 with
  | inl k => Ok (line_start_idx + k)
  | inr cols => if 0 <? cols then Ok line_end_idx else Ok line_start_idx
  end.

Definition range_to_span_old (source : text) (r : range) : res span :=
  let '((l1, c1), (l2, c2)) := r in
  do a <- position_to_index_old source l1 c1;
  do b <- position_to_index_old source l2 c2;
  span_new a b.

(* diagnostics.rs:lint_to_code_actions — the replacement string of the TextEdit *)
Definition new_text (s : suggestion) (sp : span) (source : text) : res text :=
  match s with
  | ReplaceWith cs => Ok cs
  | Remove => Ok []
  | InsertAfter cs => do flagged <- get_content sp source; Ok (flagged ++ cs)   (* get_content_string panics *)
  end.

Definition text_edit (s : suggestion) (sp : span) (source : text) : res (range * text) :=
  do r <- span_to_range source sp;
  do nt <- new_text s sp source;
  Ok (r, nt).

(* document_state.rs:generate_code_actions — which lints are offered for a requested range:
   those overlapping range_to_span(range).with_len(1) *)
Definition lookup_span (source : text) (r : range) : res span :=
  do sp <- range_to_span source r; Ok (with_len sp 1).

Definition selected (source : text) (r : range) (lints : list span) : res (list span) :=
  do q <- lookup_span source r; Ok (filter (fun l => overlaps l q) lints).

(* HISTORY (before 229693d), see position_to_index_old *)
Definition lookup_span_old (source : text) (r : range) : res span :=
  do sp <- range_to_span_old source r; Ok (with_len sp 1).
Definition selected_old (source : text) (r : range) (lints : list span) : res (list span) :=
  do q <- lookup_span_old source r; Ok (filter (fun l => overlaps l q) lints).

(* ------------------------------------------------------------------------------------------ *)
(*  the specification side (independent of the code above)                                      *)
(* ------------------------------------------------------------------------------------------ *)

(* the text from the start of line `l` on (lines end at '\n'); None when there is no such line *)
Fixpoint skip_lines (t : text) (l : nat) {struct t} : option text :=
  match l, t with
  | 0, _ => Some t
  | S _, [] => None
  | S l', c :: t' => if is_nl c then skip_lines t' l' else skip_lines t' l
  end.

(* how many characters of the line starting at `t` make up exactly `col` UTF-16 code units; None
   when the column lies beyond the end of the line or between the two halves of a surrogate pair *)
Fixpoint walk_col (t : text) (col : nat) {struct t} : option nat :=
  match col with
  | 0 => Some 0
  | _ => match t with
         | [] => None
         | c :: t' => if is_nl c then None
                      else if col <? len_utf16 c then None
                      else option_map S (walk_col t' (col - len_utf16 c))
         end
  end.

(* the character index an LSP position denotes *)
Definition resolve (t : text) (p : position) : option nat :=
  match skip_lines t (fst p) with
  | None => None
  | Some rest => match walk_col rest (snd p) with
                 | None => None
                 | Some k => Some (length t - length rest + k)
                 end
  end.

(* what an LSP client does with TextEdit { range, new_text } *)
Definition client_apply (t : text) (r : range) (nt : text) : option text :=
  match resolve t (fst r), resolve t (snd r) with
  | Some a, Some b => if a <=? b then Some (firstn a t ++ nt ++ skipn b t) else None
  | _, _ => None
  end.

(* ---- the same specification with the line ends of LSP 3.17 ("\n", "\r\n" and "\r"): what an
   editor really does.  `resolve` above only knows "\n" (as harper does); Proofs/PosConvProofs.v shows
   that the two agree on texts without a lone "\r" except at the index between "\r" and "\n". *)
Definition CR : char := 13%N.
Definition is_cr (c : char) : bool := (c =? 13)%N.

Fixpoint skip_lines_lsp (t : text) (l : nat) {struct t} : option text :=
  match l, t with
  | 0, _ => Some t
  | S _, [] => None
  | S l', c :: t' =>
      if is_nl c then skip_lines_lsp t' l'
      else if is_cr c then
        match t' with
        | d :: t'' => if is_nl d then skip_lines_lsp t'' l' else skip_lines_lsp t' l'
        | [] => skip_lines_lsp t' l'
        end
      else skip_lines_lsp t' l
  end.

Fixpoint walk_col_lsp (t : text) (col : nat) {struct t} : option nat :=
  match col with
  | 0 => Some 0
  | _ => match t with
         | [] => None
         | c :: t' => if is_nl c || is_cr c then None
                      else if col <? len_utf16 c then None
                      else option_map S (walk_col_lsp t' (col - len_utf16 c))
         end
  end.

Definition resolve_lsp (t : text) (p : position) : option nat :=
  match skip_lines_lsp t (fst p) with
  | None => None
  | Some rest => match walk_col_lsp rest (snd p) with
                 | None => None
                 | Some k => Some (length t - length rest + k)
                 end
  end.

Definition client_apply_lsp (t : text) (r : range) (nt : text) : option text :=
  match resolve_lsp t (fst r), resolve_lsp t (snd r) with
  | Some a, Some b => if a <=? b then Some (firstn a t ++ nt ++ skipn b t) else None
  | _, _ => None
  end.

(* every "\r" is immediately followed by "\n" *)
Fixpoint no_lone_cr (t : text) : Prop :=
  match t with
  | [] => True
  | c :: t' => (is_cr c = true -> exists t'', t' = NL :: t'') /\ no_lone_cr t'
  end.

(* the index between a "\r" and its "\n": it has no LSP position *)
Definition inside_crlf (t : text) (i : nat) : Prop :=
  exists a b, t = a ++ CR :: NL :: b /\ i = length a + 1.

Definition count_nl (t : text) : nat := length (filter is_nl t).

(* lexicographic order on positions *)
Definition pos_lt (p q : position) : Prop := fst p < fst q \/ (fst p = fst q /\ snd p < snd q).

(* the class of the FIXED finding F9 (the only positions where 229693d changed the answer): the
   position lies on the final line of the text and that line is not line 0 *)
Definition KnownClass (t : text) (line : nat) : Prop := 1 <= line /\ count_nl t = line.

(* ------------------------------------------------------------------------------------------ *)
(*  driver entry points                                                                         *)
(* ------------------------------------------------------------------------------------------ *)
Definition run_span_to_range (t : text) (a b : nat) : option range :=
  match span_to_range t (mkspan a b) with Ok r => Some r | Panic _ => None end.
Definition run_range_to_span (t : text) (l1 c1 l2 c2 : nat) : option (nat * nat) :=
  match range_to_span t ((l1, c1), (l2, c2)) with Ok s => Some (sstart s, send s) | Panic _ => None end.
Definition run_range_to_span_old (t : text) (l1 c1 l2 c2 : nat) : option (nat * nat) :=
  match range_to_span_old t ((l1, c1), (l2, c2)) with Ok s => Some (sstart s, send s) | Panic _ => None end.
Definition run_resolve (t : text) (l c : nat) : option nat := resolve t (l, c).
Definition run_resolve_lsp (t : text) (l c : nat) : option nat := resolve_lsp t (l, c).
Definition run_client_apply_lsp (t : text) (l1 c1 l2 c2 : nat) (nt : text) : option text :=
  client_apply_lsp t ((l1, c1), (l2, c2)) nt.
Definition run_text_edit (kind : nat) (cs : text) (a b : nat) (t : text) : option (range * text) :=
  let s := match kind with 0 => ReplaceWith cs | 1 => InsertAfter cs | _ => Remove end in
  match text_edit s (mkspan a b) t with Ok x => Some x | Panic _ => None end.
Definition run_client_apply (t : text) (l1 c1 l2 c2 : nat) (nt : text) : option text :=
  client_apply t ((l1, c1), (l2, c2)) nt.
