(* C06Words.v — C06 on TEXTS: the Word tokens of a document are no longer given, they are computed by C02's
   (frozen) model of PlainEnglish::parse + the passes of Document::parse (Lexer.v, Condense.v), and the spell
   checker of SpellDecision.v runs on them.  No proofs here.

     doc_words u s      the spans of Document::new_plain_english(s).iter_words(), in order
     one_word u w       `w`, written alone, is exactly one token, that token is a Word and covers all of w —
                        the computed form of the former premise single_word_token
     lint_text .. s     SpellCheck::lint(Document::new_plain_english(s))

   `u` = the Unicode predicates of the lexer model (record Lexer.uni).  For the generated table of dictionary
   entries that are NOT one Word token (Tables_f24.v) the predicates are the finite table `f24_alphabet` the
   translator writes beside the entries: characters outside it do not occur in the table's entries. *)
Require Import Base Overlap Tables_lexer Lexer Condense Tables_spellnorm SpellDecision Tables_f24.

(* TokenStringExt::iter_words: the tokens whose kind is Word *)
Definition word_spans (ts : list token) : list span :=
  map tspan (filter (fun t => is_word (tkind_of t)) ts).

Definition doc_words (u : uni) (s : text) : res (list span) :=
  do ts <- document_plain u s; Ok (word_spans ts).

Definition one_word (u : uni) (w : text) : bool :=
  match document_plain u w with
  | Ok [t] => is_word (tkind_of t) && (tstart t =? 0) && (tend t =? length w)
  | _ => false
  end.

(* number of tokens the entry is cut into, 0 for a panic: what the table theorem reports *)
Definition token_count (u : uni) (w : text) : nat :=
  match document_plain u w with Ok ts => length ts | Panic _ => 0 end.

Section TextLint.
  Variable u : uni.
  Variable lc uc : char -> list char.
  Variable is_lower is_upper : char -> bool.
  Variable fuzzy : dict -> text -> nat -> list text.

  Definition lint_text (D : dict) (d : dialect) (s : text) : res (list slint) :=
    do words <- doc_words u s;
    lint_doc lc uc is_lower is_upper fuzzy D d s words.
End TextLint.

(* ---------- the characters the characterisation theorems speak about ---------- *)
Definition all_letters (u : uni) (w : text) : bool := forallb (u_lingual u) w.
(* both apostrophes Punctuation::from_char maps to Apostrophe *)
Definition is_apostrophe_char (c : N) : bool := ceq c 39 || ceq c 8217.

(* Unicode predicates from a finite table (code point, whitespace, numeric, alphabetic, lingual); false elsewhere *)
Definition flag_of (tab : list (N * (bool * bool * bool * bool))) (sel : bool * bool * bool * bool -> bool) (c : N) : bool :=
  match find (fun p => N.eqb (fst p) c) tab with Some p => sel (snd p) | None => false end.
Definition uni_of_table (tab : list (N * (bool * bool * bool * bool))) : uni :=
  mkuni (flag_of tab (fun '(w, _, _, _) => w)) (flag_of tab (fun '(_, n, _, _) => n))
        (flag_of tab (fun '(_, _, a, _) => a)) (flag_of tab (fun '(_, _, _, l) => l)).

(* the Unicode predicates on the alphabet of the generated table of multi-token entries *)
Definition f24_uni : uni := uni_of_table f24_alphabet.
Definition f24_flags (c : N) : bool * bool * bool * bool :=
  (u_whitespace f24_uni c, u_numeric f24_uni c, u_alphabetic f24_uni c, u_lingual f24_uni c).

(* the F24 witness of SpellDecision.v on a TEXT: the tokens are computed (ASCII restriction of Unicode) *)
Definition ascii_uni0 : uni :=
  mkuni (fun c => in_range 9 13 c || ceq c 32) is_ascii_digit is_ascii_alphabetic is_ascii_alphabetic.
Definition f24_text_run : res (list slint) :=
  lint_text ascii_uni0 ascii_lc ascii_uc ascii_is_lower ascii_is_upper no_fuzzy f24_dict American w_socio_political.

(* ---------- entry points for the extracted driver ---------- *)
Definition run_doc_words := doc_words.
Definition run_one_word := one_word.
