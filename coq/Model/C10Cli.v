(* C10Cli.v — C10: harper-cli (harper-cli/src/main.rs).  The command-line tool WRITES nothing: `lint` READS the user
   dictionary (-u, default config_dir()/harper-ls/dictionary.txt) and the file dictionary of the document
   (-f <dir>, default data_local_dir()/harper-ls/file_dictionaries/) and the document; every other subcommand reads at
   most its one file argument.  Here: which two dictionary files `lint` opens, as the code computes them
       load_dict(&user_dict_path)
       load_dict(&file_dict_path.join(file_dict_name(&file)))
   with harper-cli's OWN file_dict_name ("Path version of harper-ls/src/dictionary_io@file_dict_name"): it works on
   the path AS TYPED on the command line — relative paths stay relative, so Path::components may start with a CurDir
   component (a leading "." is kept, every later "." is dropped) — every component except RootDir followed by '%'.
   Executable definitions only; lemmas in Proofs/C10CliProofs.v.  Extracted and compared with the read-only opens the
   real harper-cli binary issues under strace (harness/src/bin/c10.rs, stream `K`). *)
Require Import Base EffectsBase Effects EffectsSave.
Open Scope list_scope.

(* std::path::Path::components on a path as typed: absolute -> comps; relative -> a leading "." segment is the CurDir
   component and stays, the rest as comps ("" has no component at all) *)
Definition cli_comps (p : bytes) : list bytes :=
  match p with
  | [] => []
  | c :: _ =>
    if (c =? slash)%N then comps p
    else match split_aux p [] with
         | s :: _ => if beqb s onedot then onedot :: comps p else comps p
         | [] => comps p
         end
  end.

(* harper-cli's file_dict_name(path) *)
Definition cli_file_dict_name (file : bytes) : bytes := flat_map (fun c => c ++ [percent]) (cli_comps file).

(* `lint -u <user> -f <filedir> <file>` (user, filedir absolute — the harness makes relative ones absolute with the
   working directory, as openat(AT_FDCWD) does): the two dictionary files opened for READING, lexically normalised *)
Definition cli_lint_reads (user filedir file : bytes) : bytes * bytes :=
  (render (resolve (comps user)), render (resolve (join_comps filedir (cli_file_dict_name file)))).
