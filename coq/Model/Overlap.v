(* Overlap.v — model of harper_core::remove_overlaps (harper-core/src/lib.rs) and
   VecExt::remove_indices (harper-core/src/vec_ext.rs).  No proofs here.

   A lint is its span plus an opaque identity: remove_overlaps never looks at anything else. *)
Require Import Base.

Record lint := mklint { lspan : span; lid : nat }.
Definition lstart (l : lint) := sstart (lspan l).
Definition lend (l : lint) := send (lspan l).

(* sort key  (start, usize::MAX - end)  compared lexicographically.  `!0 - end` cannot underflow
   (end <= usize::MAX), and  MAX - e1 <= MAX - e2  <->  e2 <= e1. *)
Definition key_le (a b : lint) : bool :=
  (lstart a <? lstart b) || ((lstart a =? lstart b) && (lend b <=? lend a)).

(* Vec::sort_by_key is a stable sort; the result of a stable sort is unique, so any stable sort
   models it.  Insertion sort, inserting in front of the first element that is not smaller. *)
Fixpoint linsert (x : lint) (l : list lint) : list lint :=
  match l with
  | [] => [x]
  | y :: ys => if key_le x y then x :: y :: ys else y :: linsert x ys
  end.
Fixpoint lsort (l : list lint) : list lint :=
  match l with
  | [] => []
  | x :: xs => linsert x (lsort xs)
  end.

(* the `for (i, lint) in lints.iter().enumerate()` sweep, producing the VecDeque of indices *)
Fixpoint sweep (cur i : nat) (ls : list lint) : list nat :=
  match ls with
  | [] => []
  | l :: rest =>
      if lstart l <? cur then i :: sweep cur (S i) rest
      else sweep (lend l) (S i) rest
  end.

(* VecExt::remove_indices: the `retain` closure with its pop_front queue, verbatim *)
Fixpoint remove_indices {A} (i : nat) (q : list nat) (xs : list A) : list A :=
  match xs with
  | [] => []
  | x :: xs' =>
      match q with
      | [] => x :: remove_indices (S i) [] xs'
      | r :: q' =>
          if i =? r then remove_indices (S i) q' xs'
          else x :: remove_indices (S i) q xs'
      end
  end.

Definition remove_overlaps (ls : list lint) : list lint :=
  if length ls <? 2 then ls
  else let s := lsort ls in remove_indices 0 (sweep 0 0 s) s.

(* what was dropped (specification side, used by the theorems and by the oracle) *)
Fixpoint sweep_dropped (cur : nat) (ls : list lint) : list lint :=
  match ls with
  | [] => []
  | l :: rest =>
      if lstart l <? cur then l :: sweep_dropped cur rest
      else sweep_dropped (lend l) rest
  end.
Fixpoint sweep_kept (cur : nat) (ls : list lint) : list lint :=
  match ls with
  | [] => []
  | l :: rest =>
      if lstart l <? cur then sweep_kept cur rest
      else l :: sweep_kept (lend l) rest
  end.
Definition dropped (ls : list lint) : list lint :=
  if length ls <? 2 then [] else sweep_dropped 0 (lsort ls).

(* driver entry point: spans as (start,end) pairs, ids = positions in the input; output = kept ids *)
Definition run_remove_overlaps (spans : list (nat * nat)) : list nat :=
  let fix number (i : nat) (l : list (nat * nat)) : list lint :=
      match l with
      | [] => []
      | (a, b) :: t => mklint (mkspan a b) i :: number (S i) t
      end in
  map lid (remove_overlaps (number 0 spans)).
