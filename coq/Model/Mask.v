(* Mask.v — executable models of the offset bookkeeping that places prose at its true position (C04).
   No proofs here.

   Mirrors, line by line (tree of /repo as it is NOW):
     harper-tree-sitter/src/lib.rs        byte_spans_to_char_spans, TreeSitterMasker::create_mask
     harper-core/src/mask/mod.rs          Mask::{push_allowed, merge_whitespace_sep, iter_allowed, from_iter}
     harper-core/src/parsers/mask.rs      parsers::Mask::parse
     harper-comments/src/masker.rs        CommentMasker::create_mask (ignore condition)
     harper-comments/src/comment_parsers  without_initiators, Unit::parse, JsDoc::parse (line loop), Go::parse
     harper-typst/src/offset_cursor.rs    OffsetCursor::push_to, the def_token! macro
     harper-core/src/parsers/markdown.rs  the traversed_bytes / traversed_chars loop of Markdown::parse
     harper-literate-haskell/src/masker.rs  LiterateHaskellMasker::create_mask
     harper-ls/src/git_commit_parser.rs   GitCommitParser::parse

   Conventions (DESIGN §3): char = N (scalar value), text = list char, a Rust `String`/`&str` is the
   list of its UTF-8 bytes (list N), usize = nat.  Operations that can panic return `res`.
   Third-party parsers (tree-sitter, pulldown-cmark, typst-syntax) and the inner prose parser appear
   only as data handed to these functions (node byte ranges, event lists, inner token lists). *)
Require Import Base.

(* ====================================================================================== *)
(** * A. UTF-8 *)

Definition is_cont (b : N) : bool := ((128 <=? b) && (b <? 192))%N.

(* char::encode_utf8 *)
Definition encode_char (c : N) : list N :=
  if (c <? 128)%N then [c]
  else if (c <? 2048)%N then [192 + c / 64; 128 + c mod 64]%N
  else if (c <? 65536)%N then [224 + c / 4096; 128 + (c / 64) mod 64; 128 + c mod 64]%N
  else [240 + c / 262144; 128 + (c / 4096) mod 64; 128 + (c / 64) mod 64; 128 + c mod 64]%N.

(* String::from_iter(chars) / source.iter().collect::<String>() *)
Definition encode (t : text) : list N := flat_map encode_char t.

(* Rust's `char` invariant *)
Definition valid_char (c : N) : Prop := (c < 1114112)%N /\ ~ (55296 <= c < 57344)%N.
Definition valid_charb (c : N) : bool := ((c <? 1114112) && negb ((55296 <=? c) && (c <? 57344)))%N.

(* a decoder (the lead byte decides how many bytes are consumed); total, garbage in -> garbage out *)
Fixpoint decode (bs : list N) : text :=
  match bs with
  | [] => []
  | b0 :: r0 =>
      if (b0 <? 128)%N then b0 :: decode r0
      else match r0 with
           | [] => []
           | b1 :: r1 =>
               if (b0 <? 224)%N then ((b0 - 192) * 64 + (b1 - 128))%N :: decode r1
               else match r1 with
                    | [] => []
                    | b2 :: r2 =>
                        if (b0 <? 240)%N then ((b0 - 224) * 4096 + (b1 - 128) * 64 + (b2 - 128))%N :: decode r2
                        else match r2 with
                             | [] => []
                             | b3 :: r3 =>
                                 ((b0 - 240) * 262144 + (b1 - 128) * 4096 + (b2 - 128) * 64 + (b3 - 128))%N
                                 :: decode r3
                             end
                    end
           end
  end.

(* str::chars().count(): the number of bytes that are not continuation bytes (this is literally how
   core::str::count counts) *)
Definition count_chars (bs : list N) : nat := length (filter (fun b => negb (is_cont b)) bs).

(* str::is_char_boundary *)
Definition is_boundary (bs : list N) (i : nat) : bool :=
  match i with
  | 0 => true
  | _ => match nth_error bs i with
         | Some b => negb (is_cont b)
         | None => i =? length bs
         end
  end.

(* &s[a..b] on a str: panics unless a <= b, both on char boundaries (which includes b <= len) *)
Definition str_slice (bs : list N) (a b : nat) : res (list N) :=
  if (b <? a) || negb (is_boundary bs a) || negb (is_boundary bs b) then Panic PIndex
  else Ok (slice bs a b).

(* the char index of a byte offset: s[..b].chars().count() *)
Definition char_index (bs : list N) (b : nat) : nat := count_chars (firstn b bs).

(* ====================================================================================== *)
(** * B. byte_spans_to_char_spans (harper-tree-sitter) *)

(* byte_spans.sort_by_key(|s| s.start): a stable sort; insertion in front of the first element that
   is not smaller models it (the result of a stable sort is unique) *)
Fixpoint sinsert (x : span) (l : list span) : list span :=
  match l with
  | [] => [x]
  | y :: ys => if sstart x <=? sstart y then x :: y :: ys else y :: sinsert x ys
  end.
Fixpoint ssort (l : list span) : list span :=
  match l with
  | [] => []
  | x :: xs => sinsert x (ssort xs)
  end.

(* the `retain` with its counter: element k of the sorted list is compared with element k-1 OF THE
   SORTED CLONE (not with the previously kept one); `cloned.get(1usize.wrapping_sub(2))` is None *)
Fixpoint filter_prev (prev : option span) (l : list span) : list span :=
  match l with
  | [] => []
  | cur :: t =>
      let keep := match prev with None => true | Some p => negb (overlaps cur p) end in
      if keep then cur :: filter_prev (Some cur) t else filter_prev (Some cur) t
  end.

(* the for_each with last_byte_pos / last_char_pos *)
Fixpoint b2c_loop (bs : list N) (last_byte last_char : nat) (l : list span) : res (list span) :=
  match l with
  | [] => Ok []
  | s :: t =>
      do pre <- str_slice bs last_byte (sstart s);
      let st := last_char + count_chars pre in
      do mid <- str_slice bs (sstart s) (send s);
      let en := st + count_chars mid in
      do rest <- b2c_loop bs (send s) en t;
      Ok (mkspan st en :: rest)
  end.

Definition byte_spans_to_char_spans (bs : list N) (spans : list span) : res (list span) :=
  b2c_loop bs 0 0 (filter_prev None (ssort spans)).

(* ====================================================================================== *)
(** * C. Mask (harper-core/src/mask/mod.rs) *)

(* the assert! in push_allowed / from_iter is reported as PSpanOrder ("Masker elements cannot overlap
   and must be sorted!") *)
Fixpoint push_allowed (m : list span) (a : span) : res (list span) :=
  match m with
  | [] => Ok [a]
  | [last] =>
      if sstart a <? send last then Panic PSpanOrder
      else if sstart a =? send last then Ok [mkspan (sstart last) (send a)]
      else Ok [last; a]
  | h :: t => do t' <- push_allowed t a; Ok (h :: t')
  end.

Fixpoint push_all (m : list span) (l : list span) : res (list span) :=
  match l with
  | [] => Ok m
  | a :: t => do m' <- push_allowed m a; push_all m' t
  end.

Section MaskOps.
  (* char::is_whitespace (Unicode White_Space) *)
  Variable is_whitespace : N -> bool.

  Definition sep_char (c : N) : bool := is_whitespace c || (c =? 10)%N.

  (* one `while let Some(i) = iter.next()` sweep of merge_whitespace_sep *)
  Fixpoint mws_pass (src : text) (l : list span) : res (list span) :=
    match l with
    | [] => Ok []
    | a :: t =>
        match t with
        | [] => Ok [a]
        | b :: t' =>
            do sep <- span_new (send a) (sstart b);
            do content <- get_content sep src;
            if forallb sep_char content then
              do ab <- span_new (sstart a) (send b);
              do r <- mws_pass src t';
              Ok (ab :: r)
            else
              do r <- mws_pass src t;
              Ok (a :: r)
        end
    end.

  (* the recursion `if self.allowed.len() != after.len() { ...; self.merge_whitespace_sep(source) }` *)
  Fixpoint mws_fuel (fuel : nat) (src : text) (l : list span) : res (list span) :=
    match fuel with
    | 0 => Panic PFuel
    | S f =>
        do after <- mws_pass src l;
        if length l =? length after then Ok after else mws_fuel f src after
    end.
  Definition merge_whitespace_sep (src : text) (l : list span) : res (list span) :=
    mws_fuel (S (length l)) src l.

  (* TreeSitterMasker::create_mask, given the byte ranges of the nodes accepted by node_condition in
     visiting order *)
  Definition ts_create_mask (src : text) (nodes : list span) : res (list span) :=
    do cs <- byte_spans_to_char_spans (encode src) nodes;
    do m <- push_all [] cs;
    merge_whitespace_sep src m.
End MaskOps.

(* impl FromIterator<Span> for Mask: sorted_by_key(start) + assert!(is_sorted_by(a.end <= b.start)) *)
Fixpoint chain_ok (l : list span) : bool :=
  match l with
  | [] => true
  | a :: t => match t with
              | [] => true
              | b :: _ => (send a <=? sstart b) && chain_ok t
              end
  end.
Definition mask_from_iter (l : list span) : res (list span) :=
  let s := ssort l in if chain_ok s then Ok s else Panic PSpanOrder.

(* ====================================================================================== *)
(** * D. ignore markers (harper-comments/src/masker.rs) *)

Fixpoint starts_with (needle hay : text) : bool :=
  match needle, hay with
  | [], _ => true
  | _ :: _, [] => false
  | n :: ns, h :: hs => (n =? h)%N && starts_with ns hs
  end.
(* str::contains(&str) *)
Fixpoint contains_sub (needle hay : text) : bool :=
  starts_with needle hay ||
  match hay with
  | [] => false
  | _ :: hs => contains_sub needle hs
  end.

(* the closure of CommentMasker::new over a marker list (the list itself is generated from the
   source: Tables_masks.ignore_markers / ignore_prefixes) *)
Definition ignore_condition (markers prefixes : list text) (t : text) : bool :=
  existsb (fun m => contains_sub m t) markers || existsb (fun p => starts_with p t) prefixes.

(* CommentMasker::create_mask after the inner mask:
     iter_allowed . filter_map(|(span, text)| { if text.starts_with("#!") { .. } .. }) . collect()
   A span whose text starts with the shebang prefix loses its first line only (the span is dropped when
   it has no newline); what remains — or any other span — is kept iff the ignore condition is false.
   `Span::new(span.start + line_len, span.end)` is the checked constructor. *)
Fixpoint position {A} (p : A -> bool) (l : list A) : option nat :=
  match l with
  | [] => None
  | x :: t => if p x then Some 0 else option_map S (position p t)
  end.

Definition is_nl (c : N) : bool := (c =? 10)%N.

Definition filter_one (markers prefixes : list text) (shebang : text) (s : span) (content : text)
  : res (option span) :=
  if starts_with shebang content then
    match position is_nl content with
    | None => Ok None                                             (* `?` *)
    | Some p =>
        let line_len := p + 1 in
        let rest := skipn line_len content in
        do rest_span <- span_new (sstart s + line_len) (send s);
        Ok (if ignore_condition markers prefixes rest then None else Some rest_span)
    end
  else Ok (if ignore_condition markers prefixes content then None else Some s).

Fixpoint filter_ignored (markers prefixes : list text) (shebang : text) (src : text) (m : list span)
  : res (list span) :=
  match m with
  | [] => Ok []
  | s :: t =>
      do content <- get_content s src;
      do o <- filter_one markers prefixes shebang s content;
      do r <- filter_ignored markers prefixes shebang src t;
      Ok (match o with Some s' => s' :: r | None => r end)
  end.

Definition comment_create_mask (is_whitespace : N -> bool) (markers prefixes : list text) (shebang : text)
    (src : text) (nodes : list span) : res (list span) :=
  do m <- ts_create_mask is_whitespace src nodes;
  do kept <- filter_ignored markers prefixes shebang src m;
  mask_from_iter kept.

(* ====================================================================================== *)
(** * E. parsers::Mask::parse *)

(* a token: span + an opaque kind code (the model only ever inspects the codes below) *)
Record tok := mktok { tspan : span; tkind : N }.
Definition K_PARBREAK : N := 1%N.
Definition K_UNLINTABLE : N := 2%N.
Definition K_NEWLINE1 : N := 3%N.       (* Newline(1) *)
Definition K_NEWLINE2 : N := 4%N.       (* Newline(2) *)

Definition tpush (by_ : nat) (t : tok) : tok := mktok (push_by (tspan t) by_) (tkind t).

Section MaskParse.
  (* the wrapped parser: a function of the slice it is given *)
  Variable inner : text -> list tok.

  Fixpoint mask_parse_loop (src : text) (last : option span) (allowed : list span) : res (list tok) :=
    match allowed with
    | [] => Ok []
    | sp :: t =>
        do content <- get_content sp src;                       (* iter_allowed *)
        do brk <- match last with
                  | None => Ok []
                  | Some la =>
                      do iv <- span_new (send la) (sstart sp);
                      do c <- get_content iv src;
                      Ok (if existsb (fun x => (x =? 10)%N) c then [mktok iv K_PARBREAK] else [])
                  end;
        let new_tokens := map (tpush (sstart sp)) (inner content) in
        do rest <- mask_parse_loop src (Some sp) t;
        Ok (brk ++ new_tokens ++ rest)
    end.

  Definition mask_parse (src : text) (allowed : list span) : res (list tok) :=
    mask_parse_loop src None allowed.
End MaskParse.

(* ====================================================================================== *)
(** * F. comment leaders: without_initiators, Unit / JsDoc line loops, Go *)

Definition is_comment_character (c : N) : bool :=
  ((c =? 35) || (c =? 45) || (c =? 47) || (c =? 42) || (c =? 33))%N.     (* # - / * ! *)

Section Comments.
  Variable is_whitespace : N -> bool.

  Definition leader_char (c : N) : bool := is_comment_character c || is_whitespace c.

  Definition without_initiators (src : text) : res span :=
    let actual_start := match position (fun c => negb (leader_char c)) src with
                        | Some i => i | None => length src end in
    let back := match position (fun c => negb (leader_char c)) (rev src) with
                | Some i => i | None => 0 end in
    do actual_end <- sub_chk (length src) back;
    span_new actual_start actual_end.

  (* slice::split(|c| c == '\n'): always at least one piece *)
  Fixpoint split_lines (src : text) : list text :=
    match src with
    | [] => [[]]
    | c :: t =>
        if (c =? 10)%N then [] :: split_lines t
        else match split_lines t with
             | [] => [[c]]           (* unreachable *)
             | l :: ls => (c :: l) :: ls
             end
    end.

  Variable inner : text -> list tok.

  (* unit.rs: parse_line *)
  Definition unit_parse_line (line : text) : res (list tok) :=
    do actual <- without_initiators line;
    do len <- span_len actual;
    if len =? 0 then Ok []
    else do content <- get_content actual line;
         Ok (map (tpush (sstart actual)) (inner content)).

  (* unit.rs: line_is_code_fence *)
  Definition line_is_code_fence (line : text) : res bool :=
    do actual <- without_initiators line;
    do content <- get_content actual line;
    Ok (match content with
        | a :: b :: c :: _ => ((a =? 96) && (b =? 96) && (c =? 96))%N
        | _ => false
        end).

  (* Unit::parse *)
  Fixpoint unit_loop (total : nat) (lines : list text) (traversed : nat) (in_fence : bool) : res (list tok) :=
    match lines with
    | [] => Ok []
    | line :: rest =>
        do fence <- line_is_code_fence line;
        let in_fence := if fence then negb in_fence else in_fence in
        if in_fence then unit_loop total rest (traversed + length line + 1) in_fence
        else
          do toks <- unit_parse_line line;
          let toks := if traversed + length line <? total
                      then toks ++ [mktok (span_new_with_len (length line) 1) K_NEWLINE1] else toks in
          do r <- unit_loop total rest (traversed + length line + 1) in_fence;
          Ok (map (tpush traversed) toks ++ r)
    end.
  Definition unit_parse (src : text) : res (list tok) :=
    unit_loop (length src) (split_lines src) 0 false.

  (* JsDoc::parse: the same loop without the fence state; `post` stands for mark_inline_tags + the
     block-tag pass, which only rewrite kinds, never spans (hence: a kind-only function) *)
  Variable post : list tok -> list tok.
  Definition jsdoc_parse_line (line : text) : res (list tok) :=
    do actual <- without_initiators line;
    do len <- span_len actual;
    if len =? 0 then Ok []
    else do content <- get_content actual line;
         Ok (map (tpush (sstart actual)) (post (inner content))).
  Fixpoint jsdoc_loop (total : nat) (lines : list text) (traversed : nat) : res (list tok) :=
    match lines with
    | [] => Ok []
    | line :: rest =>
        do toks <- jsdoc_parse_line line;
        let toks := if traversed + length line <? total
                    then toks ++ [mktok (span_new_with_len (length line) 1) K_NEWLINE1] else toks in
        do r <- jsdoc_loop total rest (traversed + length line + 1);
        Ok (map (tpush traversed) toks ++ r)
    end.
  Definition jsdoc_parse (src : text) : res (list tok) :=
    jsdoc_loop (length src) (split_lines src) 0.

  (* Go::parse: after a `go:` directive the directive line is skipped: `terminator` (the position of
     the first newline of `source`) becomes the start of `actual`, both in `source` coordinates;
     nothing is parsed when the comment has no newline or the newline is at/after actual.end.
     (`actual.start = terminator` assigns the field: no Span::new check; get_content is the checked
     slice.) *)
  Definition go_parse (src : text) : res (list tok) :=
    do actual <- without_initiators src;
    do actual_source <- get_content actual src;
    match actual_source with
    | 103%N :: 111%N :: 58%N :: _ =>                                  (* ['g','o',':', ..] *)
        match position is_nl src with
        | None => Ok []
        | Some terminator =>
            if send actual <=? terminator then Ok []
            else
              let actual' := mkspan terminator (send actual) in
              do new_source <- get_content actual' src;
              Ok (map (tpush (sstart actual')) (inner new_source))
        end
    | _ => Ok (map (tpush (sstart actual)) (inner actual_source))
    end.
End Comments.

(* ====================================================================================== *)
(** * G. Typst: OffsetCursor *)

Record cursor := mkcur { cchar : nat; cbyte : nat }.

(* OffsetCursor::push_to: assert!(new_byte >= self.byte); doc.get(byte..new_byte).unwrap() *)
Definition push_to (doc : list N) (c : cursor) (new_byte : nat) : res cursor :=
  if new_byte <? cbyte c then Panic PSpanOrder
  else if new_byte =? cbyte c then Ok c
  else match str_slice doc (cbyte c) new_byte with
       | Ok s => Ok (mkcur (cchar c + count_chars s) new_byte)
       | Panic _ => Panic PUnwrap
       end.

(* def_token!(doc, a, kind, offset) for a node with byte range [a, b) *)
Definition def_token (doc : list N) (offset : cursor) (a b : nat) (kind : N) : res tok :=
  do start <- push_to doc offset a;
  do e <- push_to doc start b;
  Ok (mktok (mkspan (cchar start) (cchar e)) kind).

Fixpoint push_to_all (doc : list N) (c : cursor) (bytes : list nat) : res cursor :=
  match bytes with
  | [] => Ok c
  | b :: t => do c' <- push_to doc c b; push_to_all doc c' t
  end.

(* ====================================================================================== *)
(** * H. Markdown: the traversed_bytes / traversed_chars loop over an abstract event stream *)

Inductive md_tag :=
| TParagraph | TLink | THeading | TItem | TTableCell | TEmphasis | TStrong | TStrikethrough
| TCodeBlock | TList | TOtherTag.

Inductive md_event :=
| EStart (t : md_tag)
| EEndBreaking          (* End(Paragraph | Item | Heading | CodeBlock | TableCell) *)
| EEndOther
| ESoftBreak
| EHardBreak
| ECodeLike (n : nat)   (* InlineMath | DisplayMath | Code, n = code.chars().count() *)
| EText (n : nat) (re : nat)   (* n = text.chars().count(), re = range.end (bytes) *)
| EHtml (n : nat)       (* Html | InlineHtml *)
| EOtherEvent.

Definition tag_is_prose (ignore_link_title : bool) (t : md_tag) : bool :=
  match t with
  | TParagraph | THeading | TItem | TTableCell | TEmphasis | TStrong | TStrikethrough => true
  | TLink => negb ignore_link_title
  | _ => false
  end.

Section Markdown.
  Variable lex : text -> list tok.         (* PlainEnglish *)
  Variable ignore_link_title : bool.

  (* the body of the Text arm after `chunk_len` has been computed and found non-zero; n = chunk_len *)
  Definition md_text (src : text) (stack : list md_tag) (tc n : nat) : res (list tok) :=
    let unl := [mktok (span_new_with_len tc n) K_UNLINTABLE] in
    let lexed := do chunk <- slice_chk src tc (tc + n); Ok (map (tpush tc) (lex chunk)) in
    match stack with
    | [] => lexed
    | tag :: _ =>
        match tag with
        | TCodeBlock => Ok unl
        | TLink => if ignore_link_title then Ok unl else lexed
        | _ => if tag_is_prose ignore_link_title tag then lexed else Ok []
        end
    end.

  (* chunk_len = text.chars().count().min(source_str[range.clone()].chars().count()): the str slice
     panics unless range.start <= range.end lie on char boundaries *)
  Definition md_chunk_len (bs : list N) (rs re n : nat) : res nat :=
    do r <- str_slice bs rs re; Ok (Nat.min n (count_chars r)).

  (* what one event pushes, given the current char cursor; the stack is a list with its top first;
     bs = the UTF-8 bytes of the source, rs = range.start of the event *)
  Definition md_event_step (src : text) (bs : list N) (rs : nat) (stack : list md_tag) (tc : nat) (ev : md_event)
    : res (list tok * list md_tag) :=
    match ev with
    | ESoftBreak => Ok ([mktok (span_new_with_len tc 1) K_NEWLINE1], stack)
    | EHardBreak => Ok ([mktok (span_new_with_len tc 1) K_NEWLINE2], stack)
    | EStart TList => Ok ([mktok (span_new_with_len tc 0) K_NEWLINE2], TList :: stack)
    | EStart t => Ok ([], t :: stack)
    | EEndBreaking => Ok ([mktok (span_new_with_len tc 0) K_PARBREAK], tl stack)
    | EEndOther => Ok ([], tl stack)
    | ECodeLike n =>
        if n =? 0 then Ok ([], stack)                                (* `if chunk_len == 0 { continue; }` (a37d1cc) *)
        else Ok ([mktok (span_new_with_len tc n) K_UNLINTABLE], stack)
    | EHtml n => Ok ([mktok (span_new_with_len tc n) K_UNLINTABLE], stack)
    | EText n re =>
        do chunk_len <- md_chunk_len bs rs re n;
        if chunk_len =? 0 then Ok ([], stack)                       (* `continue` *)
        else do o <- md_text src stack tc chunk_len; Ok (o, stack)
    | EOtherEvent => Ok ([], stack)
    end.

  (* if range.start > traversed_bytes { traversed_chars += source_str[tb..start].chars().count(); tb = start } *)
  Definition md_advance (bs : list N) (tb tc rs : nat) : res (nat * nat) :=
    if tb <? rs then do s <- str_slice bs tb rs; Ok (rs, tc + count_chars s) else Ok (tb, tc).

  (* the guard of 8b26ba4 / b736ef8: the events that make a token covering characters (the list is pinned by
     Tables_masks.md_guarded_events, regenerated from markdown.rs) *)
  Definition md_is_leaf (ev : md_event) : bool :=
    match ev with
    | ESoftBreak | EHardBreak | ECodeLike _ | EText _ _ | EHtml _ => true
    | _ => false
    end.
  (* if let Some(last) = tokens.last() { covered_until = covered_until.max(last.span.end); } *)
  Definition md_cu_top (cu : nat) (lastend : option nat) : nat :=
    match lastend with Some x => Nat.max cu x | None => cu end.
  (* tokens.last().map(|t| t.span.end) after `out` has been appended *)
  Definition md_last_end (out : list tok) (lastend : option nat) : option nat :=
    match rev out with t :: _ => Some (send (tspan t)) | [] => lastend end.

  (* events carry the byte start of their source range; cu = covered_until, lastend = the end of tokens.last() *)
  Fixpoint md_loop (src : text) (bs : list N) (evs : list (md_event * nat))
           (tb tc cu : nat) (lastend : option nat) (stack : list md_tag) : res (list tok) :=
    match evs with
    | [] => Ok []
    | (ev, rs) :: rest =>
        let behind := rs <? tb in                                    (* let behind_cursor = range.start < traversed_bytes; (b736ef8) *)
        do '(tb, tc) <- md_advance bs tb tc rs;
        let cu := md_cu_top cu lastend in
        if md_is_leaf ev && (behind || (tc <? cu)) then              (* `continue` of the guard *)
          md_loop src bs rest tb tc cu lastend stack
        else
          do '(out, stack) <- md_event_step src bs rs stack tc ev;
          do r <- md_loop src bs rest tb tc cu (md_last_end out lastend) stack;
          Ok (out ++ r)
    end.

  (* the cursor values seen by each event (specification side) *)
  Fixpoint md_cursors (bs : list N) (starts : list nat) (tb tc : nat) : res (list (nat * nat)) :=
    match starts with
    | [] => Ok []
    | rs :: rest =>
        do '(tb, tc) <- md_advance bs tb tc rs;
        do r <- md_cursors bs rest tb tc;
        Ok ((tb, tc) :: r)
    end.

  (* Markdown::parse up to (not including) the two wikilink passes: the loop, then the final pop of a
     trailing Newline / ParagraphBreak when the source does not end in '\n' *)
  Definition is_break_kind (k : N) : bool :=
    ((k =? K_PARBREAK) || (k =? K_NEWLINE1) || (k =? K_NEWLINE2))%N.
  Definition md_pop_last (src : text) (toks : list tok) : list tok :=
    match rev toks with
    | last :: before =>
        if is_break_kind (tkind last) &&
           negb (match rev src with c :: _ => (c =? 10)%N | [] => false end)
        then rev before else toks
    | [] => toks
    end.
  Definition md_parse_core (src : text) (evs : list (md_event * nat)) : res (list tok) :=
    do toks <- md_loop src (encode src) evs 0 0 0 None [];
    Ok (md_pop_last src toks).
End Markdown.

(* ====================================================================================== *)
(** * I. Literate Haskell masker *)

Section LHS.
  Variable is_whitespace : N -> bool.

  Fixpoint trim_start (t : text) : text :=
    match t with
    | c :: r => if is_whitespace c then trim_start r else t
    | [] => []
    end.
  Definition trim (t : text) : text := rev (trim_start (rev (trim_start t))).

  Fixpoint text_eqb (a b : text) : bool :=
    match a, b with
    | [], [] => true
    | x :: a', y :: b' => (x =? y)%N && text_eqb a' b'
    | _, _ => false
    end.

  Definition BEGIN_CODE : text := [92; 98; 101; 103; 105; 110; 123; 99; 111; 100; 101; 125]%N.  (* \begin{code} *)
  Definition END_CODE : text := [92; 101; 110; 100; 123; 99; 111; 100; 101; 125]%N.            (* \end{code} *)

  Record lhs_state := mklhs { l_mask : list span; l_loc : nat; l_in_code : bool; l_last_blank : bool }.

  (* one iteration of the `for line in source.split('\n')` loop; want_text/want_code are self.text/self.code *)
  Definition lhs_step (want_text want_code : bool) (st : lhs_state) (line : text) : res lhs_state :=
    let trimmed := trim line in
    let blank := match trimmed with [] => true | _ => false end in
    let line_is_bird := match line with c :: _ => (c =? 62)%N | [] => false end in
    let is_begin := text_eqb trimmed BEGIN_CODE in
    let is_end := text_eqb trimmed END_CODE in
    let latex_style := is_begin || is_end in
    let code_start := is_begin || (l_last_blank st && line_is_bird) in
    let code_end := is_end || blank in
    let toggle := (negb (l_in_code st) && code_start) || (l_in_code st && code_end) in
    let in_code := if toggle then negb (l_in_code st) else l_in_code st in
    if toggle && latex_style then
      Ok (mklhs (l_mask st) (l_loc st + length line + 1) in_code blank)
    else if toggle && blank then
      Ok (mklhs (l_mask st) (l_loc st + length line + 1) in_code true)
    else
      let end_loc := l_loc st + length line in
      do m <- (if (negb in_code && want_text) || (in_code && want_code) then
                 let start_loc := if line_is_bird then Nat.min (l_loc st + 2) end_loc else l_loc st in
                 do sp <- span_new start_loc end_loc;
                 push_allowed (l_mask st) sp
               else Ok (l_mask st));
      Ok (mklhs m (end_loc + 1) in_code blank).

  Fixpoint lhs_loop (want_text want_code : bool) (st : lhs_state) (lines : list text) : res lhs_state :=
    match lines with
    | [] => Ok st
    | l :: rest => do st' <- lhs_step want_text want_code st l; lhs_loop want_text want_code st' rest
    end.

  (* the mask before merge_whitespace_sep *)
  Definition lhs_raw_mask (want_text want_code : bool) (src : text) : res (list span) :=
    (* `let mut last_line_blank = true;`: the start of the file counts as a blank line *)
    do st <- lhs_loop want_text want_code (mklhs [] 0 false true) (split_lines src);
    Ok (l_mask st).

  Definition lhs_create_mask (want_text want_code : bool) (src : text) : res (list span) :=
    do m <- lhs_raw_mask want_text want_code src;
    merge_whitespace_sep is_whitespace src m.
End LHS.

(* ====================================================================================== *)
(** * J. git commit: cut at the first line that starts with '#' *)

(* source.iter().enumerate().position(|(i, c)| *c == '#' && (i == 0 || source[i - 1] == '\n'))
     .unwrap_or(source.len());  `source[i - 1]` is a checked index *)
Fixpoint git_scan (src : text) (i : nat) (rest : text) : res nat :=
  match rest with
  | [] => Ok (length src)
  | c :: t =>
      do hit <- (if (c =? 35)%N then
                   if i =? 0 then Ok true
                   else do p <- nth_chk src (i - 1); Ok (p =? 10)%N
                 else Ok false);
      if hit then Ok i else git_scan src (S i) t
  end.
Definition git_commit_cut (src : text) : res nat := git_scan src 0 src.
(* &source[0..end] *)
Definition git_commit_parse (inner : text -> list tok) (src : text) : res (list tok) :=
  do e <- git_commit_cut src; do c <- slice_chk src 0 e; Ok (inner c).

(* ====================================================================================== *)
(** * K. the concrete Unicode White_Space table used by the extracted model (checked against
      char::is_whitespace over all code points by the harness: monitor `is_whitespace_table`) *)
Definition ws_table (c : N) : bool :=
  (((9 <=? c) && (c <=? 13)) || (c =? 32) || (c =? 133) || (c =? 160) || (c =? 5760)
   || ((8192 <=? c) && (c <=? 8202)) || (c =? 8232) || (c =? 8233) || (c =? 8239) || (c =? 8287)
   || (c =? 12288))%N.

(* ====================================================================================== *)
(** * L. driver entry points (option = panic mapped to None) *)

Definition spans_of (l : list (nat * nat)) : list span := map (fun p => mkspan (fst p) (snd p)) l.
Definition pairs_of (l : list span) : list (nat * nat) := map (fun s => (sstart s, send s)) l.
Definition opt {A B} (f : A -> B) (r : res A) : option B :=
  match r with Ok a => Some (f a) | Panic _ => None end.

Definition run_encode (t : text) : list N := encode t.
Definition run_decode (bs : list N) : text := decode bs.
Definition run_char_index (t : text) (b : nat) : option nat :=
  let bs := encode t in if is_boundary bs b then Some (char_index bs b) else None.
Definition run_b2c (t : text) (spans : list (nat * nat)) : option (list (nat * nat)) :=
  opt pairs_of (byte_spans_to_char_spans (encode t) (spans_of spans)).
Definition run_ts_mask (t : text) (nodes : list (nat * nat)) : option (list (nat * nat)) :=
  opt pairs_of (ts_create_mask ws_table t (spans_of nodes)).
Definition run_comment_mask (markers prefixes : list text) (shebang : text) (t : text) (nodes : list (nat * nat))
  : option (list (nat * nat)) :=
  opt pairs_of (comment_create_mask ws_table markers prefixes shebang t (spans_of nodes)).
Definition run_merge_ws (t : text) (m : list (nat * nat)) : option (list (nat * nat)) :=
  opt pairs_of (merge_whitespace_sep ws_table t (spans_of m)).
Definition run_push_all (m : list (nat * nat)) : option (list (nat * nat)) :=
  opt pairs_of (push_all [] (spans_of m)).

(* the inner parser as a finite table recorded from the implementation: content -> tokens *)
Fixpoint text_eq (a b : text) : bool :=
  match a, b with
  | [], [] => true
  | x :: a', y :: b' => (x =? y)%N && text_eq a' b'
  | _, _ => false
  end.
Fixpoint lookup_inner (tbl : list (text * list tok)) (c : text) : list tok :=
  match tbl with
  | [] => []
  | (k, v) :: t => if text_eq k c then v else lookup_inner t c
  end.
Definition toks_of (l : list (nat * nat * N)) : list tok :=
  map (fun p => mktok (mkspan (fst (fst p)) (snd (fst p))) (snd p)) l.
Definition triples_of (l : list tok) : list (nat * nat * N) :=
  map (fun t => (sstart (tspan t), send (tspan t), tkind t)) l.
Definition tbl_of (l : list (text * list (nat * nat * N))) : list (text * list tok) :=
  map (fun p => (fst p, toks_of (snd p))) l.

Definition run_mask_parse (tbl : list (text * list (nat * nat * N))) (t : text) (allowed : list (nat * nat))
  : option (list (nat * nat * N)) :=
  (* the spans go through `collect::<Mask>()` (from_iter) as in the harness' fixed masker *)
  opt triples_of (do m <- mask_from_iter (spans_of allowed); mask_parse (lookup_inner (tbl_of tbl)) t m).
Definition run_without_initiators (t : text) : option (nat * nat) :=
  opt (fun s => (sstart s, send s)) (without_initiators ws_table t).
Definition run_unit_parse (tbl : list (text * list (nat * nat * N))) (t : text) : option (list (nat * nat * N)) :=
  opt triples_of (unit_parse ws_table (lookup_inner (tbl_of tbl)) t).
Definition run_jsdoc_lines (tbl : list (text * list (nat * nat * N))) (t : text) : option (list (nat * nat * N)) :=
  opt triples_of (jsdoc_parse ws_table (lookup_inner (tbl_of tbl)) (fun x => x) t).
Definition run_go_parse (tbl : list (text * list (nat * nat * N))) (t : text) : option (list (nat * nat * N)) :=
  opt triples_of (go_parse ws_table (lookup_inner (tbl_of tbl)) t).
Definition run_lhs_mask (want_text : bool) (t : text) : option (list (nat * nat)) :=
  opt pairs_of (lhs_create_mask ws_table want_text (negb want_text) t).
Definition run_push_to_all (t : text) (bytes : list nat) : option (nat * nat) :=
  opt (fun c => (cchar c, cbyte c)) (push_to_all (encode t) (mkcur 0 0) bytes).
Definition run_def_token (t : text) (pre a b : nat) : option (nat * nat) :=
  opt (fun k => (sstart (tspan k), send (tspan k)))
      (do c <- push_to (encode t) (mkcur 0 0) pre; def_token (encode t) c a b 0%N).
Definition run_md_cursors (t : text) (starts : list nat) : option (list (nat * nat)) :=
  opt (fun x => x) (md_cursors (encode t) starts 0 0).
Definition run_md_core (tbl : list (text * list (nat * nat * N))) (ilt : bool) (t : text)
    (evs : list (md_event * nat)) : option (list (nat * nat * N)) :=
  opt triples_of (md_parse_core (lookup_inner (tbl_of tbl)) ilt t evs).
Definition run_ignore (markers prefixes : list text) (t : text) : bool := ignore_condition markers prefixes t.
Definition run_git_cut (t : text) : option nat := opt (fun x => x) (git_commit_cut t).
