(* Effects.v — C10 "the text being checked never leaves the machine".
   Decidable checkers over the GENERATED tables of Tables_effects.v (dependency graph of Cargo.lock, audited
   crate classes, OS-effect call sites of the workspace, the listener address) and the model of the run-time
   monitor (what the strace oracle of harness/src/bin/c10.rs accepts).  Executable definitions only; the
   lemmas are in Proofs/EffectsProofs.v.

   What is hand-written HERE on purpose (and not generated): the allow-lists.  A new net-capable or
   process-spawning crate, a new socket / write / spawn site in the workspace, makes a theorem of
   Properties/C10.v fail until somebody edits this file, i.e. looks at it. *)
Require Import Base EffectsBase.
From Coq Require Import String Ascii.
Open Scope string_scope.
Open Scope list_scope.

(* ------------------------------------------------------------------ A. dependency graph *)
Definition graph := list (pkg * list pkg).

Fixpoint deps (g : graph) (a : pkg) : list pkg :=
  match g with
  | [] => []
  | (k, ds) :: g' => if pkg_eqb k a then ds else deps g' a
  end.

Definition has_node (g : graph) (a : pkg) : bool := existsb (fun kd => pkg_eqb (fst kd) a) g.
Definition pmem (a : pkg) (l : list pkg) : bool := existsb (pkg_eqb a) l.
Definition smem (s : string) (l : list string) : bool := existsb (String.eqb s) l.

(* depth-first closure with explicit fuel; every step either drops an already seen package from the stack
   or marks a new one and pushes its dependencies *)
Fixpoint closure (fuel : nat) (g : graph) (stack seen : list pkg) : list pkg :=
  match fuel with
  | 0 => seen
  | S f =>
    match stack with
    | [] => seen
    | a :: st => if pmem a seen then closure f g st seen else closure f g (deps g a ++ st) (a :: seen)
    end
  end.

Definition edge_count (g : graph) : nat := fold_right (fun kd n => S (List.length (snd kd)) + n) 0 g.

(* pushes <= |roots| + number of edges, marks <= number of nodes: this fuel is enough, and whether it WAS
   enough is not assumed but re-checked by `closed` below *)
Definition reach_set (g : graph) (roots : list pkg) : list pkg :=
  closure (S (List.length roots + edge_count g + List.length g)) g roots [].

(* R is closed under the edges of g and every member is a node of g (no dangling dependency) *)
Definition closed (g : graph) (R : list pkg) : bool :=
  forallb (fun a => has_node g a && forallb (fun d => pmem d R) (deps g a)) R.

Fixpoint class_of (t : list (pkg * eclass)) (a : pkg) : option eclass :=
  match t with
  | [] => None
  | (k, c) :: t' => if pkg_eqb k a then Some c else class_of t' a
  end.

(* the crates that may expose socket / resolver primitives: the async runtime and its reactor, raw OS bindings,
   and `url` (Url::socket_addrs).  By NAME: a new version still has to be re-audited in crate_effects.toml. *)
Definition net_capable_allowed : list string :=
  ["tokio"; "mio"; "socket2"; "tokio-util"; "libc"; "winapi"; "windows-sys"; "wasi"; "url"].

(* the crates that may spawn a process: `open` (HarperOpen only, see proc sites), build-time helpers, Redox's user db *)
Definition process_allowed : list string := ["open"; "autocfg"; "version_check"; "cc"; "redox_users"].

Definition class_ok (members : list pkg) (t : list (pkg * eclass)) (a : pkg) : bool :=
  pmem a members ||
  match class_of t a with
  | None => false                                   (* never audited *)
  | Some CNetClient => false
  | Some CNetRuntime => smem (fst a) net_capable_allowed
  | Some CProcess => smem (fst a) process_allowed
  | Some CFs => true
  | Some CPure => true
  end.

Definition check_crates (g : graph) (t : list (pkg * eclass)) (members roots : list pkg) : bool :=
  let R := reach_set g roots in
  forallb (fun r => pmem r R) roots && closed g R && forallb (class_ok members t) R.

(* ------------------------------------------------------------------ B. call sites *)
Definition site_mem (s : site) (l : list site) : bool := existsb (site_eqb s) l.

Definition is_net_kind (k : skind) : bool := match k with KNetImport | KNet => true | _ => false end.
Definition is_write_kind (k : skind) : bool :=
  match k with KFsImport | KFsWrite | KWrapperCall | KPathFn | KLocal => true | _ => false end.
Definition is_proc_kind (k : skind) : bool := match k with KProcImport | KProcess => true | _ => false end.

(* harper-ls/src/main.rs: the import, the bind on DEFAULT_ADDRESS, the accept on that very listener *)
Definition allowed_net_sites : list site := [
  mksite "harper-ls/src/main.rs" "<module>" KNetImport "tokio::net::TcpListener" "" "" "";
  mksite "harper-ls/src/main.rs" "main" KNet "TcpListener::bind" "DEFAULT_ADDRESS" "" "";
  mksite "harper-ls/src/main.rs" "main" KNet "listener.accept" "" "TcpListener::bind(DEFAULT_ADDRESS).await.unwrap()" ""
].

(* save_dict(path), since 87b8642:  path := path.as_ref(); mkdir -p parent(path);
     tmp_name := file_name(path) (as OsString); tmp_name.push(".tmp"); tmp_path := path.with_file_name(tmp_name)
     — i.e. the sibling `<path>.tmp` in the SAME directory —; create tmp_path; write; fsync; rename(tmp_path, path).
   save_stats: mkdir -p parent(stats_path); append to stats_path (no temporary file).
   Callers of save_dict pass user_dict_path or file_dict_path.join(file_dict_name(url)); save_stats is called by shutdown.
   The KLocal rows pin how every local that these path expressions mention is computed (a change of the temporary
   name, of its directory, or a second destination breaks C10_write_sites until this list is looked at again). *)
Definition allowed_write_sites : list site := [
  (* imports that bring a file type / the fs module into scope; what is DONE with them is in the KFsWrite rows
     (harper-cli only reads: File::open, fs::read_to_string) *)
  mksite "harper-cli/src/main.rs" "<module>" KFsImport "std::fs::File" "" "" "";
  mksite "harper-cli/src/main.rs" "<module>" KFsImport "std::{fs,process}" "" "" "";
  mksite "harper-ls/src/dictionary_io.rs" "<module>" KFsImport "tokio::fs::{self,File}" "" "" "";
  mksite "harper-ls/src/backend.rs" "<module>" KFsImport "std::fs::OpenOptions" "" "" "";
  mksite "harper-ls/src/backend.rs" "save_stats" KFsWrite
         "OpenOptions::new().read(true).append(true).create(true).open" "&config.stats_path" "" "";
  mksite "harper-ls/src/backend.rs" "save_stats" KFsWrite "fs::create_dir_all" "parent" "config.stats_path.parent()" "";
  mksite "harper-ls/src/backend.rs" "save_stats" KLocal "let (config,stats)" "join(self.config.read(),self.stats.read()).await" "" "";
  mksite "harper-ls/src/backend.rs" "save_stats" KLocal "let Some(parent)" "config.stats_path.parent()" "" "";
  mksite "harper-ls/src/dictionary_io.rs" "save_dict" KFsWrite "File::create" "&tmp_path" "path.with_file_name(tmp_name)" "";
  mksite "harper-ls/src/dictionary_io.rs" "save_dict" KFsWrite "fs::create_dir_all" "parent" "path.parent()" "";
  mksite "harper-ls/src/dictionary_io.rs" "save_dict" KFsWrite "fs::rename" "&tmp_path,path" "" "";
  mksite "harper-ls/src/dictionary_io.rs" "save_dict" KLocal "let path" "path.as_ref()" "" "";
  mksite "harper-ls/src/dictionary_io.rs" "save_dict" KLocal "let Some(parent)" "path.parent()" "" "";
  mksite "harper-ls/src/dictionary_io.rs" "save_dict" KLocal "let tmp_name" "path.file_name().unwrap_or_default().to_os_string()" "" "";
  mksite "harper-ls/src/dictionary_io.rs" "save_dict" KLocal "tmp_name.push" """.tmp""" "" "";
  mksite "harper-ls/src/dictionary_io.rs" "save_dict" KLocal "let tmp_path" "path.with_file_name(tmp_name)" "" "";
  mksite "harper-ls/src/backend.rs" "save_file_dictionary" KWrapperCall "save_dict"
         "self.get_file_dict_path(url).await.context(""Unable to get the file path."")?" "" "";
  mksite "harper-ls/src/backend.rs" "get_file_dict_path" KPathFn "tail-expression"
         "Ok(config.file_dict_path.join(file_dict_name(url)?))" "" "";
  mksite "harper-ls/src/backend.rs" "get_file_dict_path" KLocal "let config" "self.config.read().await" "" "";
  mksite "harper-ls/src/backend.rs" "save_user_dictionary" KWrapperCall "save_dict" "&config.user_dict_path" "" "";
  mksite "harper-ls/src/backend.rs" "save_user_dictionary" KLocal "let config" "self.config.read().await" "" "";
  mksite "harper-ls/src/backend.rs" "shutdown" KWrapperCall "self.save_stats" "" "" ""
].

(* the one spawn site: open::that on the first command argument, under the "HarperOpen" arm of execute_command;
   harper-cli imports std::process for process::exit *)
Definition allowed_proc_sites : list site := [
  mksite "harper-ls/src/backend.rs" "execute_command" KProcess "open::that" "&first" "string_args.next()" "HarperOpen";
  mksite "harper-cli/src/main.rs" "<module>" KProcImport "std::{fs,process}" "" "" ""
].

Definition sites_within (sel : skind -> bool) (allowed sites : list site) : bool :=
  forallb (fun s => negb (sel (s_kind s)) || site_mem s allowed) sites.

Definition net_sites_only_listener (sites : list site) : bool := sites_within is_net_kind allowed_net_sites sites.
Definition write_sites_only_configured (sites : list site) : bool := sites_within is_write_kind allowed_write_sites sites.
Definition proc_sites_only_open (sites : list site) : bool := sites_within is_proc_kind allowed_proc_sites sites.

(* the three path settings are stored into the field of the same meaning (F18: statsPath went to file_dict_path) *)
Fixpoint fields_of (t : list (string * list string)) (k : string) : option (list string) :=
  match t with
  | [] => None
  | (k', fs) :: t' => if String.eqb k' k then Some fs else fields_of t' k
  end.
Definition one_field (t : list (string * list string)) (k f : string) : bool :=
  match fields_of t k with Some [f'] => String.eqb f' f | _ => false end.
Definition path_fields : list string := ["user_dict_path"; "file_dict_path"; "stats_path"].
Definition config_paths_ok (t : list (string * list string)) : bool :=
  one_field t "userDictPath" "user_dict_path" && one_field t "fileDictPath" "file_dict_path" &&
  one_field t "statsPath" "stats_path" &&
  (* no other settings key touches a path field *)
  forallb (fun kf => smem (fst kf) ["userDictPath"; "fileDictPath"; "statsPath"] ||
                     forallb (fun f => negb (smem f path_fields)) (snd kf)) t.

(* ------------------------------------------------------------------ C. the listener address literal *)
Definition is_digit (c : ascii) : bool := let n := N_of_ascii c in (48 <=? n)%N && (n <=? 57)%N.

Fixpoint parse_dec_aux (l : list ascii) (acc : N) : option N :=
  match l with
  | [] => Some acc
  | c :: r => if is_digit c then parse_dec_aux r (10 * acc + (N_of_ascii c - 48))%N else None
  end.

(* Rust's SocketAddr parser (core::net::parser): a port is one or more digits, leading zeros allowed, value < 2^16;
   an IPv4 octet is 1..3 digits WITHOUT a zero prefix, value < 2^8 ("0127" is rejected; a C resolver would read it
   as octal) *)
Definition parse_num (l : list ascii) : option N :=
  match l with [] => None | _ => parse_dec_aux l 0%N end.

Definition parse_octet (l : list ascii) : option N :=
  match l with
  | [] => None
  | "0"%char :: _ :: _ => None
  | _ => if (3 <? List.length l)%nat then None
         else match parse_dec_aux l 0%N with
              | Some n => if (n <? 256)%N then Some n else None
              | None => None
              end
  end.

Fixpoint split_on (sep : ascii) (l cur : list ascii) : list (list ascii) :=
  match l with
  | [] => [rev cur]
  | c :: r => if Ascii.eqb c sep then rev cur :: split_on sep r [] else split_on sep r (c :: cur)
  end.

Definition port_ok (p : list ascii) : bool :=
  match parse_num p with Some n => (n <? 65536)%N | None => false end.

Definition v4_octets (h : list ascii) : option (N * N * N * N) :=
  match map parse_octet (split_on "."%char h []) with
  | [Some a; Some b; Some c; Some d] => Some (a, b, c, d)
  | _ => None
  end.

(* "127.x.y.z:port" *)
Definition loopback_v4 (s : list ascii) : bool :=
  match split_on ":"%char s [] with
  | [h; p] => port_ok p && match v4_octets h with Some (a, _, _, _) => (a =? 127)%N | None => false end
  | _ => false
  end.

(* "[::1]:port" *)
Definition loopback_v6 (s : list ascii) : bool :=
  match s with
  | "["%char :: ":"%char :: ":"%char :: "1"%char :: "]"%char :: ":"%char :: p => port_ok p
  | _ => false
  end.

(* a literal loopback socket address: no host NAME is accepted ("localhost:4000" would need a resolver) *)
Definition is_loopback_literal (s : string) : bool :=
  let l := list_ascii_of_string s in loopback_v4 l || loopback_v6 l.

(* the same test on a byte string (extracted: the harness compares it with Rust's own SocketAddr parser) *)
Definition loopback_bytes (l : list N) : bool :=
  let a := map ascii_of_N l in loopback_v4 a || loopback_v6 a.

(* the bind site names DEFAULT_ADDRESS, which is defined once, as a loopback literal *)
Definition listener_ok (sites : list site) (addr : string) (ndefs : nat) : bool :=
  is_loopback_literal addr && (ndefs =? 1)%nat &&
  forallb (fun s => negb (String.eqb (s_api s) "TcpListener::bind") || String.eqb (s_arg s) "DEFAULT_ADDRESS") sites.

(* ------------------------------------------------------------------ D. the run-time monitor *)
(* One record per traced system call of the process that drives the library, the JS-facing API and the
   in-process language server.  Paths are byte strings, absolute and normalised by the harness. *)
Definition bytes := list N.
Definition AF_UNIX : N := 1.
Definition AF_INET : N := 2.
Definition AF_INET6 : N := 10.

Inductive sysev :=
| EvSocket (fam : N)                      (* socket(fam, …) / socketpair *)
| EvConnect (fam : N) (upath : bytes)     (* connect(); upath = sun_path for AF_UNIX *)
| EvSend (fam : N)                        (* sendto / sendmsg / sendmmsg; fam of the destination address, 0 if none *)
| EvBind (fam : N)
| EvOpen (writing : bool) (path : bytes)  (* open / openat / creat; writing = O_WRONLY|O_RDWR|O_CREAT|O_TRUNC|O_APPEND *)
| EvRename (src dst : bytes)
| EvUnlink (path : bytes)                 (* unlink / unlinkat / rmdir *)
| EvMkdir (path : bytes).

Record mcfg := mkcfg {
  m_user : bytes;          (* configured user dictionary file *)
  m_filedir : bytes;       (* configured file-dictionary directory (no trailing slash) *)
  m_stats : bytes;         (* configured statistics file *)
  m_own : list bytes       (* files the harness itself writes in the traced process, enumerated exactly *)
}.

Inductive verdict := VOk | VNet | VResolve | VWrite.

Definition bytes_of_string (s : string) : bytes := map N_of_ascii (list_ascii_of_string s).

Fixpoint beqb (a b : bytes) : bool :=
  match a, b with
  | [], [] => true
  | x :: a', y :: b' => (x =? y)%N && beqb a' b'
  | _, _ => false
  end.
Definition bmem (p : bytes) (l : list bytes) : bool := existsb (beqb p) l.

(* what a name lookup touches: resolver configuration, hosts database, name-service switch, nscd *)
Definition resolver_files : list bytes :=
  map bytes_of_string ["/etc/resolv.conf"; "/etc/hosts"; "/etc/nsswitch.conf"; "/etc/host.conf"; "/etc/gai.conf";
                       "/var/run/nscd/socket"; "/run/nscd/socket"; "/run/systemd/resolve/io.systemd.Resolve"].

Definition slash : N := 47.

(* directory part: everything before the last '/' ("" when there is none) *)
Fixpoint dir_of_aux (p acc cur : bytes) : bytes :=
  match p with
  | [] => acc
  | c :: r => if (c =? slash)%N then dir_of_aux r (acc ++ cur) [c] else dir_of_aux r acc (cur ++ [c])
  end.
Definition dir_of (p : bytes) : bytes := dir_of_aux p [] [].

(* p ++ "/" ++ something = q *)
Fixpoint is_dir_prefix (p q : bytes) : bool :=
  match p, q with
  | [], c :: _ :: _ => (c =? slash)%N
  | x :: p', y :: q' => (x =? y)%N && is_dir_prefix p' q'
  | _, _ => false
  end.

(* save_dict (since 87b8642) writes `<dictionary>.tmp`, the sibling in the same directory, and renames it over the
   dictionary: the temporary name is the destination's name with ".tmp" appended, nothing else *)
Definition tmp_suffix : bytes := [46; 116; 109; 112]%N.     (* ".tmp" *)
Definition tmp_of (p : bytes) : bytes := p ++ tmp_suffix.

(* a dictionary file: the configured user dictionary, or a file directly inside the file-dictionary directory *)
Definition dict_file (c : mcfg) (p : bytes) : bool := beqb p (m_user c) || beqb (dir_of p) (m_filedir c).

(* the files that may be created / opened for writing / removed: the user dictionary and its ".tmp" sibling, the
   statistics file (save_stats appends in place: NO temporary sibling), any file directly inside the file-dictionary
   directory (the ".tmp" sibling of a file dictionary is such a file).  Nothing else. *)
Definition path_allowed (c : mcfg) (p : bytes) : bool :=
  beqb p (m_user c) || beqb p (tmp_of (m_user c)) || beqb p (m_stats c) || beqb (dir_of p) (m_filedir c) || bmem p (m_own c).

(* the only rename: a dictionary's ".tmp" sibling over that dictionary *)
Definition rename_allowed (c : mcfg) (src dst : bytes) : bool := dict_file c dst && beqb src (tmp_of dst).

(* create_dir_all: the directories leading to a configured file, and the file-dictionary directory itself *)
Definition mkdir_allowed (c : mcfg) (p : bytes) : bool :=
  is_dir_prefix p (m_user c) || is_dir_prefix p (m_stats c) || is_dir_prefix p (m_filedir c) || beqb p (m_filedir c).

Definition judge (c : mcfg) (e : sysev) : verdict :=
  match e with
  | EvSocket f => if (f =? AF_UNIX)%N then VOk else VNet
  | EvConnect f up => if (f =? AF_UNIX)%N && bmem up resolver_files then VResolve else VNet
  | EvSend f => if (f =? AF_UNIX)%N then VOk else VNet
  | EvBind f => if (f =? AF_UNIX)%N then VOk else VNet
  | EvOpen w p => if bmem p resolver_files then VResolve
                  else if w then (if path_allowed c p then VOk else VWrite) else VOk
  | EvRename a b => if rename_allowed c a b then VOk else VWrite
  | EvUnlink p => if path_allowed c p then VOk else VWrite
  | EvMkdir p => if mkdir_allowed c p then VOk else VWrite
  end.

Definition verdict_code (v : verdict) : N :=
  match v with VOk => 0 | VNet => 1 | VResolve => 2 | VWrite => 3 end%N.

Definition run_judge (c : mcfg) (e : sysev) : N := verdict_code (judge c e).

Definition trace_ok (c : mcfg) (tr : list sysev) : bool :=
  forallb (fun e => match judge c e with VOk => true | _ => false end) tr.
