(* GoDirective.v — the span arithmetic of harper-comments/src/comment_parsers/go.rs (`Go::parse`) when
   the comment starts with `go:`, as it is NOW (017736b): `actual` (the span left by
   without_initiators) and `terminator` (the position of the first newline) both index `source`; when
   the directive line is the whole block nothing is linted, otherwise the block is cut at the newline
   and looked up in `source` with get_content.  `go_directive_cut_old` is the code before 017736b
   (finding F30).  No proofs here. *)
Require Import Base.

(*  if terminator >= actual.end { return Vec::new() }      -> Ok None
    actual.start = terminator;  actual_source = actual.get_content(source)  *)
Definition go_directive_cut (actual : span) (terminator : nat) (source : text) : res (option text) :=
  if send actual <=? terminator then Ok None
  else (do c <- get_content (mkspan terminator (send actual)) source; Ok (Some c)).

(* before 017736b:  actual.start += terminator;  actual.try_get_content(actual_source)
   — `actual_source` was already sliced, and start could pass end *)
Definition go_directive_cut_old (actual : span) (terminator : nat) (actual_source : text) : res (option text) :=
  try_get_content (mkspan (sstart actual + terminator) (send actual)) actual_source.
