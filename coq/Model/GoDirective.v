(* GoDirective.v — the span arithmetic of harper-comments/src/comment_parsers/go.rs (`Go::parse`) when
   the comment starts with `go:`: the start of `actual` (the span left by without_initiators, in
   SOURCE coordinates) is advanced by the position of the first newline of the source, and the result
   is looked up in `actual_source` with try_get_content.  No proofs here. *)
Require Import Base.

(*  actual.start += terminator;  actual.try_get_content(actual_source)  *)
Definition go_directive_cut (actual : span) (terminator : nat) (actual_source : text) : res (option text) :=
  try_get_content (mkspan (sstart actual + terminator) (send actual)) actual_source.
