(* TitleCase.v — executable model of harper-core/src/title_case.rs (make_title_case,
   should_capitalize_token) over abstract tokens.  No proofs here.

   What is abstracted:
     * a token is its span plus its TokenKind *class* (the 12 variants of enum TokenKind; their
       payloads are dropped except for Word, where the three facts of WordMetadata that this code
       reads are kept: noun.is_proper == Some(true), preposition, determiner);
     * the dictionary is two functions, exactly the two trait methods the code calls:
         dict_canon = Dictionary::get_correct_capitalization_of,  dict_meta = Dictionary::get_word_metadata
       (projected to the same three facts);
     * char::to_lowercase / char::is_lowercase (used by CharStringExt::to_lower on the *looked-up
       word only*, never to produce an output character) and char::to_uppercase are Section
       variables; to_lowercase and to_uppercase are also what is_case_variant compares (41fa706:
       the proper-noun block copies a canonical character only over a case variant of itself, or
       the canonical apostrophe over a curly one).
   What is concrete: every index, slice and subtraction the Rust performs is a checked operation;
   the case operations applied to OUTPUT characters are char::to_ascii_uppercase /
   to_ascii_lowercase (one char to one char, ASCII letters only — Tables_titlecase records that the
   source still uses exactly those).  *)
Require Import Base Tables_titlecase.

(* ---------- characters ---------- *)
(* char::to_ascii_uppercase / to_ascii_lowercase *)
Definition ascii_upper (c : char) : char :=
  if ((97 <=? c) && (c <=? 122))%N then (c - 32)%N else c.
Definition ascii_lower (c : char) : char :=
  if ((65 <=? c) && (c <=? 90))%N then (c + 32)%N else c.
Definition is_ascii_lower (c : char) : bool := ((97 <=? c) && (c <=? 122))%N.
Definition is_ascii_upper (c : char) : bool := ((65 <=? c) && (c <=? 90))%N.
Definition is_ascii_alpha (c : char) : bool := is_ascii_lower c || is_ascii_upper c.

(* char_to_normalized (char_string.rs), from the generated table *)
Fixpoint assoc_N (tbl : list (N * N)) (c : N) : option N :=
  match tbl with
  | [] => None
  | (a, b) :: t => if (a =? c)%N then Some b else assoc_N t c
  end.
Definition normalize_char (c : char) : char :=
  match assoc_N tc_normalize_table c with Some b => b | None => c end.

(* ---------- tokens ---------- *)
(* the part of WordMetadata that title_case.rs reads *)
Record wmeta := mkmeta { m_proper : bool; m_prep : bool; m_det : bool }.

(* WordMetadata::or restricted to those fields: noun.is_proper = a.is_proper.or(b.is_proper) is not
   needed (is_proper_noun is asked of the token's own metadata only); determiner and preposition
   are `||` *)
Definition meta_or (a b : wmeta) : wmeta :=
  mkmeta (m_proper a) (m_prep a || m_prep b) (m_det a || m_det b).

(* enum TokenKind, declaration order (= kind codes of Tables_titlecase) *)
Inductive tkind :=
| KWord (m : option wmeta)
| KPunct | KDecade | KNumber | KSpace | KNewline | KEmail | KUrl | KHostname
| KUnlintable | KParaBreak | KRegexish.

Definition kind_code (k : tkind) : nat :=
  match k with
  | KWord _ => 0 | KPunct => 1 | KDecade => 2 | KNumber => 3 | KSpace => 4 | KNewline => 5
  | KEmail => 6 | KUrl => 7 | KHostname => 8 | KUnlintable => 9 | KParaBreak => 10 | KRegexish => 11
  end.

Record token := mktok { tspan : span; tkind_ : tkind }.

(* TokenKind::is_word_like — the matched variants come from the generated table *)
Definition is_word_like (k : tkind) : bool := existsb (Nat.eqb (kind_code k)) tc_word_like_codes.
Definition tok_word_like (t : token) : bool := is_word_like (tkind_ t).

Fixpoint text_eqb (a b : text) : bool :=
  match a, b with
  | [], [] => true
  | x :: a', y :: b' => (x =? y)%N && text_eqb a' b'
  | _, _ => false
  end.
Definition text_mem (w : text) (ws : list text) : bool := existsb (text_eqb w) ws.

(* TokenStringExt::span — itertools minmax over all starts and ends, then Span::new(min, max) *)
Definition hull (toks : list token) : res (option span) :=
  match flat_map (fun t => [sstart (tspan t); send (tspan t)]) toks with
  | [] => Ok None
  | x :: xs =>
      do s <- span_new (fold_left Nat.min xs x) (fold_left Nat.max xs x);
      Ok (Some s)
  end.

Section TitleCase.
  Variable lower : char -> list char.        (* char::to_lowercase *)
  Variable upper : char -> list char.        (* char::to_uppercase *)
  Variable is_lowercase : char -> bool.      (* char::is_lowercase *)
  Variable dict_canon : text -> option text.   (* Dictionary::get_correct_capitalization_of *)
  Variable dict_meta : text -> option wmeta.   (* Dictionary::get_word_metadata (projected) *)

  (* CharStringExt::to_lower *)
  Definition to_lower (w : text) : text :=
    if forallb is_lowercase w then w else flat_map lower w.

  (* should_capitalize_token *)
  Definition should_capitalize_token (t : token) (src : text) : res bool :=
    match tkind_ t with
    | KWord (Some md) =>
        do chars <- get_content (tspan t) src;
        let cl := to_lower chars in
        let md' := match dict_meta cl with Some ml => meta_or md ml | None => md end in
        (* `metadata.preposition && tok.span.len() <= 4`: len() is only evaluated behind && *)
        do short_prep <- (if m_prep md'
                          then (do l <- span_len (tspan t); Ok (l <=? tc_short_preposition_max))
                          else Ok false);
        Ok (negb short_prep && negb (m_det md') && negb (text_mem cl tc_special_conjunctions))
    | _ => Ok true
    end.

  (* `if let Some(Some(metadata)) = word.kind.as_word() { if metadata.is_proper_noun() { ..
     dict.get_correct_capitalization_of(word.span.get_content(source)) } }` : the canonical
     spelling the proper-noun block will copy, if any *)
  Definition canon_for (w : token) (src : text) : res (option text) :=
    match tkind_ w with
    | KWord (Some md) =>
        if m_proper md then (do orig <- get_content (tspan w) src; Ok (dict_canon orig)) else Ok None
    | _ => Ok None
    end.

  (* fn is_case_variant(a, b) = a.to_lowercase().eq(b.to_lowercase()) && a.to_uppercase().eq(b.to_uppercase())
     (Iterator::eq = equality of the two sequences; shape pinned by tc_case_variant_is_lower_and_upper) *)
  Definition is_case_variant (a b : char) : bool :=
    text_eqb (lower a) (lower b) && text_eqb (upper a) (upper b).

  (* canonical == '\'' && matches!( *c, '’' | '‘' | '＇')  — characters from the generated table *)
  Definition is_apostrophe_pair (c canonical : char) : bool :=
    (canonical =? tc_canonical_apostrophe_to)%N && existsb (N.eqb c) tc_canonical_apostrophe_from.

  (* the character left at a position holding c when the canonical spelling has `canonical` there *)
  Definition canon_pick (c canonical : char) : char :=
    if is_case_variant c canonical || is_apostrophe_pair c canonical then canonical else c.

  (* output[a..b].iter_mut().enumerate().for_each(|(idx, c)| { let canonical = correct_caps[idx];
       if is_case_variant( *c, canonical) || (canonical == '\'' && matches!( *c, ..)) { *c = canonical; } })
     — the slice bounds are checked first (see apply_canon); then idx runs over 0..b-a;
     correct_caps[idx] is indexed before the guard is evaluated, so a canonical spelling shorter than
     the word panics exactly as before the fix.  `c` comes from iter_mut of the already-checked slice
     (the checked read below can never fail after slice_chk); not writing = writing c back. *)
  Fixpoint canon_overwrite (out : text) (a n idx : nat) (cc : text) : res text :=
    match n with
    | 0 => Ok out
    | S n' =>
        do canonical <- nth_chk cc idx;
        do c <- nth_chk out (a + idx);
        do out' <- set_nth out (a + idx) (canon_pick c canonical);
        canon_overwrite out' a n' (S idx) cc
    end.

  Definition apply_canon (start_index : nat) (w : token) (oc : option text) (out : text) : res text :=
    match oc with
    | Some cc =>
        do a <- sub_chk (sstart (tspan w)) start_index;
        do b <- sub_chk (send (tspan w)) start_index;
        do _s <- slice_chk out a b;
        canon_overwrite out a (b - a) 0 cc
    | None => Ok out
    end.

  (* for i in word.span { output[i - start_index] = output[i - start_index].to_ascii_lowercase() } *)
  Fixpoint lower_loop (start_index : nat) (out : text) (i n : nat) : res text :=
    match n with
    | 0 => Ok out
    | S n' =>
        do j <- sub_chk i start_index;
        do c <- nth_chk out j;
        do out' <- set_nth out j (ascii_lower c);
        lower_loop start_index out' (S i) n'
    end.

  (* `if should_capitalize { output[s - start_index] = output[s - start_index].to_ascii_uppercase() }
      else { for i in word.span { .. to_ascii_lowercase() } }` *)
  Definition apply_cap (start_index : nat) (w : token) (cap : bool) (out : text) : res text :=
    if cap then
      do j <- sub_chk (sstart (tspan w)) start_index;
      do c <- nth_chk out j;
      set_nth out j (ascii_upper c)
    else
      lower_loop start_index out (sstart (tspan w)) (send (tspan w) - sstart (tspan w)).

  (* the body of `while let Some((index, word)) = word_likes.next()`; `is_last` is
     `word_likes.peek().is_none()`.  Order of evaluation as in the source: the proper-noun block
     (content, dictionary, slice bounds, copy), then should_capitalize_token, then the case write. *)
  Definition word_step (start_index : nat) (src : text) (index : nat) (w : token) (is_last : bool)
             (out : text) : res text :=
    do oc <- canon_for w src;
    do out1 <- apply_canon start_index w oc out;
    do sc <- should_capitalize_token w src;
    apply_cap start_index w (sc || (index =? 0) || is_last) out1.

  Fixpoint tc_loop (start_index : nat) (src : text) (wl : list token) (index : nat) (out : text)
    : res text :=
    match wl with
    | [] => Ok out
    | w :: rest =>
        do out' <- word_step start_index src index w (match rest with [] => true | _ => false end) out;
        tc_loop start_index src rest (S index) out'
    end.

  Definition make_title_case (toks : list token) (src : text) : res text :=
    match toks with
    | [] => Ok []
    | t0 :: _ =>
        let start_index := sstart (tspan t0) in
        do h <- hull toks;
        match h with
        | None => Panic PUnwrap
        | Some sp =>
            do out <- get_content sp src;
            tc_loop start_index src (filter tok_word_like toks) 0 out
        end
    end.
End TitleCase.

(* ---------- entry point for the extracted driver ----------
   The driver instantiates the four Section variables by finite tables dumped from the real code:
   `chars`  : (c, (is_lowercase c, (to_lowercase c, to_uppercase c))) for the characters of the source
              and of the canonical spellings found,
   `canon`  : (word, get_correct_capitalization_of word),  `meta` : (word, get_word_metadata word).
   A key that is missing from a table makes the run answer `None` (reported as "?" by the driver:
   the harness did not dump a fact the model asked for — a correspondence failure, never silent). *)
Fixpoint assoc_text {A} (tbl : list (text * A)) (w : text) : option A :=
  match tbl with
  | [] => None
  | (k, v) :: t => if text_eqb k w then Some v else assoc_text t w
  end.
Fixpoint assoc_char {A} (tbl : list (char * A)) (c : char) : option A :=
  match tbl with
  | [] => None
  | (k, v) :: t => if (k =? c)%N then Some v else assoc_char t c
  end.

Definition run_title_case
           (chars : list (char * (bool * (list char * list char))))
           (canon : list (text * option text))
           (meta : list (text * option wmeta))
           (toks : list (nat * nat * nat * option wmeta))
           (src : text) : res text :=
  let lower c := match assoc_char chars c with Some (_, (l, _)) => l | None => [c] end in
  let upper c := match assoc_char chars c with Some (_, (_, u)) => u | None => [c] end in
  let isl c := match assoc_char chars c with Some (b, _) => b | None => false end in
  let dc w := match assoc_text canon w with Some r => r | None => None end in
  let dm w := match assoc_text meta w with Some r => r | None => None end in
  let kind_of code m :=
      match code with
      | 0 => KWord m | 1 => KPunct | 2 => KDecade | 3 => KNumber | 4 => KSpace | 5 => KNewline
      | 6 => KEmail | 7 => KUrl | 8 => KHostname | 9 => KUnlintable | 10 => KParaBreak | _ => KRegexish
      end in
  let toks' := map (fun q => match q with (s, e, k, m) => mktok (mkspan s e) (kind_of k m) end) toks in
  make_title_case lower upper isl dc dm toks' src.

(* which facts does a run ask for?  (used by the driver to report missing facts)
   Every character the guard of the copy can be asked about is a source character, a character of a
   canonical spelling, or the to_ascii_uppercase / to_ascii_lowercase image of one (an earlier,
   overlapping token of a malformed list may already have written there): all of them must be in `chars`. *)
Definition run_missing_keys
           (chars : list (char * (bool * (list char * list char))))
           (canon : list (text * option text))
           (meta : list (text * option wmeta))
           (toks : list (nat * nat * nat * option wmeta))
           (src : text) : bool :=
  let lower c := match assoc_char chars c with Some (_, (l, _)) => l | None => [c] end in
  let isl c := match assoc_char chars c with Some (b, _) => b | None => false end in
  let no_fact c := match assoc_char chars c with None => true | Some _ => false end in
  let no_facts c := no_fact c || no_fact (ascii_upper c) || no_fact (ascii_lower c) in
  existsb no_facts src
  || existsb (fun e => match snd e with Some cc => existsb no_facts cc | None => false end) canon
  || existsb (fun q => match q with
     | (s, e, 0, Some md) =>
         match get_content (mkspan s e) src with
         | Ok w =>
             (m_proper md && match assoc_text canon w with None => true | Some _ => false end)
             || match assoc_text meta (to_lower lower isl w) with None => true | Some _ => false end
         | Panic _ => false
         end
     | _ => false end) toks.
