(* C06Sentence.v — C06 inside a sentence: a class of TEXTS for which the Word tokens of Document::new_plain_english
   are known without running the lexer.  No proofs here.

   A sentence is a list of items
       SWord w    w = a letter followed by letters or ASCII digits (word_body of C06AlnumProofs: hello, MP3, IPv4)
       SSpace n   n >= 1 blanks (U+0020)
       SPunct c   one punctuation character of the class sep_punct: every character Punctuation::from_char knows
                  EXCEPT  . : @ [  ' U+2019  and the quote characters — i.e.  , ; ! ? ( ) - / # & % * + _ { } ] < > = ~ ^ |
                  \ en/em dash, U+2026, the ideographic commas and the currency signs
   in which no two words and no two blank runs are adjacent (sent_ok).  The excluded characters are exactly the ones
   that make a sub-lexer look further than the next character (`.` hostname / number / initialism / `etc.`, `:` URL,
   `@` e-mail, `[` regexish) or that glue words (apostrophes: contraction pass; quotes: match_quotes rewrites the kind).
   sent_tokens / sent_words are what C06SentenceProofs.v proves document_plain / doc_words to return on sent_text. *)
Require Import Base Tables_lexer Lexer Condense C06Words.

Inductive sitem :=
| SWord (w : text)
| SSpace (n : nat)
| SPunct (c : N).

Definition item_text (it : sitem) : text :=
  match it with SWord w => w | SSpace n => repeat 32%N n | SPunct c => [c] end.
Definition sent_text (its : list sitem) : text := flat_map item_text its.

(* the punctuation kinds no pass of Document::parse looks at *)
Definition sep_kind (p : punct) : bool :=
  match p with PPeriod | PApostrophe | PQuote _ => false | _ => true end.
Definition sep_punct (c : N) : bool :=
  match punct_from_char c with
  | Some p => sep_kind p && negb (ceq c 46) && negb (ceq c 58) && negb (ceq c 64) && negb (ceq c 91)
              && negb (mem_n c quote_chars)
  | None => false
  end.

(* letter, then letters or ASCII digits — the same function as C06AlnumProofs.word_body (proved equal there) *)
Definition sword_ok (u : uni) (w : text) : bool :=
  match w with c0 :: r => u_lingual u c0 && forallb (fun c => u_lingual u c || is_ascii_digit c) r | [] => false end.

Definition item_ok (u : uni) (it : sitem) : bool :=
  match it with SWord w => sword_ok u w | SSpace n => 0 <? n | SPunct c => sep_punct c end.

Definition adjacent_ok (it : sitem) (r : list sitem) : bool :=
  match it, r with
  | SWord _, SWord _ :: _ => false
  | SSpace _, SSpace _ :: _ => false
  | _, _ => true
  end.

Fixpoint sent_ok (u : uni) (its : list sitem) : bool :=
  match its with
  | [] => true
  | it :: r => item_ok u it && adjacent_ok it r && sent_ok u r
  end.

Definition item_kind (it : sitem) : tkind :=
  match it with
  | SWord _ => KWord
  | SSpace n => KSpace n
  | SPunct c => match punct_from_char c with Some p => KPunct p | None => KUnlintable end
  end.

(* one token per item *)
Fixpoint sent_tokens (pos : nat) (its : list sitem) : list token :=
  match its with
  | [] => []
  | it :: r => let n := length (item_text it) in
               mktok (mkspan pos (pos + n)) (item_kind it) :: sent_tokens (pos + n) r
  end.

(* the spans of the word items *)
Fixpoint sent_words (pos : nat) (its : list sitem) : list span :=
  match its with
  | [] => []
  | it :: r => let n := length (item_text it) in
               match it with
               | SWord _ => mkspan pos (pos + n) :: sent_words (pos + n) r
               | _ => sent_words (pos + n) r
               end
  end.

(* ---------- entry point for the extracted driver: None = not a sentence of the class ---------- *)
Definition run_sentence (u : uni) (its : list sitem) : option (text * list span * list span) :=
  if sent_ok u its then Some (sent_text its, map tspan (sent_tokens 0 its), sent_words 0 its) else None.
