(* C04Wrappers.v — the '+ie' / '+ci' wrappers of harper-ls composed with a masked front-end (C04, phase 3).
   No proofs here.

   harper-ls builds   IsolateEnglish::new(Box::new(parser), dict)   and   CollapseIdentifiers::new(Box::new(parser), dict)
   where `parser` is a masked front-end  parsers::Mask<masker, inner>  (CommentParser, HtmlParser, LiterateHaskellParser …).
   The wrappers (Model/C02Wrappers.v, frozen) work on C02's typed tokens (Lexer.token), Mask.v on (span, kind code):
   `mask_parse_t` is parsers::Mask::parse once more, over typed tokens; Proofs/C04WrappersProofs.v shows that erasing the
   kinds turns it into Mask.mask_parse — the function that is extracted and run against the implementation. *)
Require Import Base Overlap Tables_lexer Lexer Condense C02Wrappers.

Definition tpush_t (by_ : nat) (t : token) : token := mktok (push_by (tspan t) by_) (tkind_of t).

Section MaskParseT.
  Variable inner : text -> list token.

  Fixpoint mask_parse_loop_t (src : text) (last : option span) (allowed : list span) : res (list token) :=
    match allowed with
    | [] => Ok []
    | sp :: t =>
        do content <- get_content sp src;
        do brk <- match last with
                  | None => Ok []
                  | Some la =>
                      do iv <- span_new (send la) (sstart sp);
                      do c <- get_content iv src;
                      Ok (if existsb (fun x => (x =? 10)%N) c then [mktok iv KParagraphBreak] else [])
                  end;
        let new_tokens := map (tpush_t (sstart sp)) (inner content) in
        do rest <- mask_parse_loop_t src (Some sp) t;
        Ok (brk ++ new_tokens ++ rest)
    end.

  Definition mask_parse_t (src : text) (allowed : list span) : res (list token) :=
    mask_parse_loop_t src None allowed.

  Variable dict : text -> bool.

  (* IsolateEnglish::parse / CollapseIdentifiers::parse: `self.inner.parse(source)` is the masked parser on the WHOLE
     file; the wrappers then work in file coordinates *)
  Definition masked_ie (src : text) (allowed : list span) : res (list token) :=
    do toks <- mask_parse_t src allowed; isolate_english dict src toks.
  Definition masked_ci (src : text) (allowed : list span) : res (list token) :=
    do toks <- mask_parse_t src allowed; collapse_identifiers dict src toks.
End MaskParseT.
