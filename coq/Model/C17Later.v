(* C17Later.v — C17: the passes of Document::parse AFTER condense_dotted_initialisms, over the tokens of Number.v.
   No proofs here.

     document.rs : condense_pattern (generic: any matcher, any `edit`), condense_ellipsis
                   (RepeatingPattern(period, 2), edit = kind := Punctuation(Ellipsis)), condense_latin
                   (EitherPattern [WordSet{etc,vs} period ; aco(et) whitespace aco(al) period], edit = nothing),
                   the metadata loop at the end of Document::parse (`token.span.get_content(&self.source)` for
                   every Word token: a checked operation)
     patterns/*  : PatternExt::find_all_matches (generic), RepeatingPattern, SequencePattern, EitherPattern,
                   WordSet, AnyCapitalization, WhitespacePattern as these two patterns evaluate them
   match_quotes and articles_imply_nouns write Quote::twin_loc and Word metadata only — members the token
   abstraction of Number.v does not carry (quotes are `KPunct POther`, `KWord` has no metadata) — and index only
   positions they have just found; they are the identity here, their bodies are pinned verbatim by the translator
   (tools/tables/number.py), like the bodies of condense_pattern / condense_ellipsis / condense_latin /
   find_all_matches.  Punctuation::Ellipsis is `KPunct POther` (the rule never reads it).
   The pattern constants (latin_wordset, latin_first, latin_second, ellipsis_min_repetitions) are generated. *)
Require Import Base Overlap Suggestion Tables_number Number C17Tails.
From Coq Require Import List Arith NArith Bool.
Import ListNotations.

(* TokenKind::is_whitespace: Space | Newline (a ParagraphBreak is not) *)
Definition is_whitespace_tok (t : token) : bool := is_space t || is_newline t.

(* char::eq_ignore_ascii_case *)
Definition eq_ignore_case (a b : N) : bool := N.eqb (lower_ascii a) (lower_ascii b).
(* tok_chars.iter().zip(word).all(|(a, b)| a.eq_ignore_ascii_case(b)) *)
Fixpoint zip_all_eq_ic (a b : text) : bool :=
  match a, b with
  | x :: a', y :: b' => eq_ignore_case x y && zip_all_eq_ic a' b'
  | _, _ => true
  end.

Section Later.
  Variable src : text.

  (* Pattern::matches on tokens[i..]; reads `source` through Span::get_content (checked) *)
  Definition matcher := list token -> res nat.

  (* the closure pattern |tok, _| tok.kind.is_period() *)
  Definition period_at (l : list token) : nat :=
    match l with t :: _ => if is_period t then 1 else 0 | [] => 0 end.

  (* RepeatingPattern::new(SequencePattern [period], ellipsis_min_repetitions) *)
  Definition ellipsis_at (l : list token) : res nat :=
    let k := count_while is_period l in Ok (if ellipsis_min_repetitions <=? k then k else 0).

  (* WordSet::matches *)
  Definition wordset_at (words : list text) (l : list token) : res nat :=
    match l with
    | [] => Ok 0
    | t :: _ =>
        if negb (is_word t) then Ok 0 else
        do cs <- get_content (tspan t) src;
        Ok (if existsb (fun w => (length cs =? length w) && zip_all_eq_ic cs w) words then 1 else 0)
    end.
  (* AnyCapitalization::matches: `tok.span.len() != self.word.len()` first *)
  Definition anycap_at (w : text) (l : list token) : res nat :=
    match l with
    | [] => Ok 0
    | t :: _ =>
        if negb (is_word t) then Ok 0 else
        do n <- span_len (tspan t);
        if negb (n =? length w) then Ok 0 else
        do cs <- get_content (tspan t) src;
        Ok (if zip_all_eq_ic cs w then 1 else 0)
    end.
  (* SequencePattern [WordSet{etc, vs}; period] *)
  Definition latin_alt1 (l : list token) : res nat :=
    do n <- wordset_at latin_wordset l;
    if n =? 0 then Ok 0 else if period_at (skipn 1 l) =? 0 then Ok 0 else Ok 2.
  (* SequencePattern [aco "et"; WhitespacePattern; aco "al"; period] *)
  Definition latin_alt2 (l : list token) : res nat :=
    do n <- anycap_at latin_first l;
    if n =? 0 then Ok 0 else
    let w := count_while is_whitespace_tok (skipn 1 l) in
    if w =? 0 then Ok 0 else
    do m <- anycap_at latin_second (skipn (1 + w) l);
    if m =? 0 then Ok 0 else
    if period_at (skipn (2 + w) l) =? 0 then Ok 0 else Ok (3 + w).
  (* EitherPattern: every alternative is evaluated, the longest match wins *)
  Definition latin_at (l : list token) : res nat :=
    do a <- latin_alt1 l; do b <- latin_alt2 l; Ok (Nat.max a b).
  (* SequencePattern [any_word; apostrophe; any_word] as a matcher (= Number.contraction_at) *)
  Definition contraction_m (l : list token) : res nat := Ok (contraction_at l).

  (* PatternExt::find_all_matches for any matcher *)
  Fixpoint matches_from_g (m : matcher) (i : nat) (l : list token) : res (list span) :=
    match l with
    | [] => Ok []
    | _ :: tl => do n <- m l;
                 do r <- matches_from_g m (S i) tl;
                 Ok ((if 0 <? n then [span_new_with_len i n] else []) ++ r)
    end.
  Definition find_all_matches_g (m : matcher) (l : list token) : res (list span) :=
    do found <- matches_from_g m 0 l;
    Ok (if length found <? 2 then found else remove_indices 0 (overlap_queue 0 found) found).

  (* Document::condense_pattern for any matcher and any edit *)
  Fixpoint cp_apply_g (edit : token -> token) (ms : list span) (toks : list token) (rm : list nat)
    : res (list token * list nat) :=
    match ms with
    | [] => Ok (toks, rm)
    | m :: ms' =>
        do sl <- slice_chk toks (sstart m) (send m);
        match hull sl with
        | None => Panic PUnwrap
        | Some h =>
            do t <- nth_chk toks (sstart m);
            do toks' <- set_nth toks (sstart m) (edit (mktok h (tkind t)));
            cp_apply_g edit ms' toks' (rm ++ seq (S (sstart m)) (send m - S (sstart m)))
        end
    end.
  Definition condense_pattern_g (m : matcher) (edit : token -> token) (toks : list token) : res (list token) :=
    do ms <- find_all_matches_g m toks;
    do r <- cp_apply_g edit ms toks [];
    Ok (remove_indices 0 (snd r) (fst r)).

  Definition to_ellipsis (t : token) : token := mktok (tspan t) (KPunct POther).
  Definition condense_ellipsis (toks : list token) : res (list token) := condense_pattern_g ellipsis_at to_ellipsis toks.
  Definition condense_latin (toks : list token) : res (list token) := condense_pattern_g latin_at (fun t => t) toks.
  (* the same generic function is what Number.condense_contractions is an instance of (proved: C17LaterProofs) *)
  Definition condense_contractions_g (toks : list token) : res (list token) := condense_pattern_g contraction_m (fun t => t) toks.

  (* the loop at the end of Document::parse: get_content of every Word token (the metadata itself is not modelled) *)
  Fixpoint meta_loop (toks : list token) : res unit :=
    match toks with
    | [] => Ok tt
    | t :: r => do _ <- (if is_word t then (do _ <- get_content (tspan t) src; Ok tt) else Ok tt); meta_loop r
    end.

  (* condense_ellipsis; condense_latin; match_quotes (identity here); articles_imply_nouns (identity here); metadata *)
  Definition later_passes (toks : list token) : res (list token) :=
    do t1 <- condense_ellipsis toks;
    do t2 <- condense_latin t1;
    do _ <- meta_loop t2;
    Ok t2.
End Later.

(* Document::new_plain_english as far as this model goes: lexer, the six passes of Number.doc_tokens, the later passes *)
Definition doc_final (U : uni) (ut : text -> nat) (et : text -> nat -> option nat) (src : text) : res (list token) :=
  do t <- doc_tokens U ut et src; later_passes src t.
(* what the rule reports on that document *)
Definition lint_doc (U : uni) (ut : text -> nat) (et : text -> nat -> option nat) (src : text)
  : res (option (list mlint)) :=
  do t <- doc_final U ut et src; Ok (rule t).

(* driver entry point (extracted): EVERY token of the final document, and the lints; None = panic *)
Definition run_final (U : uni) (ut : text -> nat) (et : text -> nat -> option nat) (src : text)
  : option (list (nat * nat * (nat * nat)) * option (list (nat * nat * list text))) :=
  match doc_final U ut et src with
  | Ok l => Some (map tok_code l, match rule l with Some ls => Some (map lint_code ls) | None => None end)
  | Panic _ => None
  end.
(* ... with the URL / e-mail tails of Model/C17Tails.v: nothing open but the Unicode predicates *)
Definition run_final_full (U : uni) (src : text) := run_final U (url_tail U) email_tail src.
