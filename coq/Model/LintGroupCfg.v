(* LintGroupCfg.v — model of harper-core/src/linting/lint_group.rs:
     LintGroupConfig  (set_rule_enabled, unset_rule_enabled, set_rule_enabled_if_unset, is_rule_enabled,
                       clear, merge_from, fill_with_curated, impl Hash, serde(transparent) JSON shape)
     LintGroup        (contains_key, add, add_pattern_linter, merge_from, iter_keys, set_all_rules_to,
                       with_lint_config, Linter::lint — the dispatch, on the cache-MISS path)
   and of the save / fill_with_curated / lint / restore sequence of harper-ls
   (document_state.rs: generate_diagnostics, generate_code_actions) and harper-wasm (lib.rs: Linter::lint).
   No proofs here.

   Conventions.  A key (rule name, Rust `String`) is the list of its UTF-8 bytes; `BTreeMap<String,_>`
   orders keys byte-wise (`str: Ord`), which is `kcmp`.  A BTreeMap is a list of (key, value) pairs
   strictly ascending in `kcmp` (`wf`).  Every operation is written so that it is the BTreeMap operation
   on such lists.

   What is NOT modelled here: the LRU chunk cache of LintGroup::lint (a hit returns the stored relative
   lints of an earlier chunk with the same characters and the same config hash).  `lint_group` below is the
   miss path; that a hit returns the same value is the cache-transparency theorem of C05 (C05_refinement,
   under its hypothesis H_chunk_fun).  The cache KEY's config component is modelled (`hash_calls`,
   `hash_bytes`). *)
Require Import Base Tables_rules.
From Coq Require Import List NArith Bool.
Import ListNotations.

(* ------------------------------------------------------------------------------------------- *)
(* keys and sorted association lists (BTreeMap<String, V>)                                      *)
(* ------------------------------------------------------------------------------------------- *)
Definition key := list N.

Fixpoint kcmp (a b : key) : comparison :=
  match a, b with
  | [], [] => Eq
  | [], _ :: _ => Lt
  | _ :: _, [] => Gt
  | x :: a', y :: b' => match N.compare x y with Eq => kcmp a' b' | Lt => Lt | Gt => Gt end
  end.
Definition keqb (a b : key) : bool := match kcmp a b with Eq => true | _ => false end.

Section Map.
  Context {V : Type}.
  Definition bmap := list (key * V).

  (* BTreeMap::insert *)
  Fixpoint insert (k : key) (v : V) (c : bmap) : bmap :=
    match c with
    | [] => [(k, v)]
    | (k', v') :: t =>
        match kcmp k k' with
        | Lt => (k, v) :: c
        | Eq => (k', v) :: t            (* an occupied entry keeps its key object; only the value changes *)
        | Gt => (k', v') :: insert k v t
        end
    end.

  (* BTreeMap::remove *)
  Fixpoint remove (k : key) (c : bmap) : bmap :=
    match c with
    | [] => []
    | (k', v') :: t =>
        match kcmp k k' with
        | Lt => c
        | Eq => t
        | Gt => (k', v') :: remove k t
        end
    end.

  (* BTreeMap::get *)
  Fixpoint get (k : key) (c : bmap) : option V :=
    match c with
    | [] => None
    | (k', v') :: t => if keqb k k' then Some v' else get k t
    end.

  Definition contains_key (k : key) (c : bmap) : bool :=
    match get k c with Some _ => true | None => false end.

  (* BTreeMap::extend(other): insert every entry of `other`, in order *)
  Definition extend (self other : bmap) : bmap :=
    fold_left (fun acc e => insert (fst e) (snd e) acc) other self.

  (* strictly ascending keys *)
  Fixpoint wf (c : bmap) : Prop :=
    match c with
    | [] => True
    | (k, _) :: t => match t with [] => True | (k', _) :: _ => kcmp k k' = Lt end /\ wf t
    end.
  Fixpoint wfb (c : bmap) : bool :=
    match c with
    | [] => true
    | (k, _) :: t => match t with [] => true | (k', _) :: _ => match kcmp k k' with Lt => true | _ => false end end && wfb t
    end.
End Map.
Arguments bmap V : clear implicits.

(* ------------------------------------------------------------------------------------------- *)
(* LintGroupConfig                                                                              *)
(* ------------------------------------------------------------------------------------------- *)
Definition config := bmap (option bool).
Definition empty_cfg : config := [].                         (* LintGroupConfig::default() *)

Definition set_rule_enabled (k : key) (b : bool) (c : config) : config := insert k (Some b) c.
Definition unset_rule_enabled (k : key) (c : config) : config := remove k c.
Definition set_rule_enabled_if_unset (k : key) (b : bool) (c : config) : config :=
  if contains_key k c then c else set_rule_enabled k b c.
(* self.inner.get(key).cloned().flatten().unwrap_or(false) *)
Definition is_rule_enabled (c : config) (k : key) : bool :=
  match get k c with Some (Some b) => b | _ => false end.
(* every value becomes None; the keys stay *)
Definition clear (c : config) : config := map (fun e => (fst e, None)) c.

(* merge_from(&mut self, other): for (key,val) in other { if val.is_none() {continue}; self.insert(key,val) };
   other.clear().  Returns (self', other'). *)
Definition merge_into (self other : config) : config :=
  fold_left (fun acc e => match snd e with None => acc | Some _ => insert (fst e) (snd e) acc end) other self.
Definition merge_from (self other : config) : config * config := (merge_into self other, clear other).

(* fill_with_curated(&mut self): let mut temp = new_curated(); swap(self, &mut temp); self.merge_from(&mut temp).
   After the swap `self` holds the curated config and `temp` the user's; temp is dropped. *)
Definition fill_with_curated (curated self : config) : config := fst (merge_from curated self).

(* harper-wasm Linter::set_lint_config_from_json / set_lint_config_from_object (harper-wasm/src/lib.rs, since
   b67a243 "setting the lint configuration resets rules the new configuration leaves unset"):
     let mut new_config = <parse>?;  self.lint_group.config.clear();  self.lint_group.config.merge_from(&mut new_config);
   Returns (stored', new_config').  Linter::new starts from new_curated_empty_config = clear(curated). *)
Definition wasm_set_config (stored new : config) : config * config := merge_from (clear stored) new.
(* as it WAS before b67a243 (finding FC11a; kept for the regression witness in History/C11History.v only) *)
Definition wasm_set_config_old (stored new : config) : config * config := merge_from stored new.

(* impl Hash: per entry  hasher.write(key.as_bytes()); then write_u8(1); write_u8(value as u8)
   or write_u8(0); write_u8(0).  `hash_calls` is the sequence of write calls (write_u8(b) = write(&[b])),
   `hash_bytes` the byte stream a hasher sees if it ignores call boundaries. *)
Definition hash_entry_calls (e : key * option bool) : list (list N) :=
  match snd e with
  | Some b => [fst e; [1%N]; [if b then 1%N else 0%N]]
  | None => [fst e; [0%N]; [0%N]]
  end.
Definition hash_calls (c : config) : list (list N) := flat_map hash_entry_calls c.
Definition hash_bytes (c : config) : list N := concat (hash_calls c).
(* keys on which the byte stream is uniquely decodable: no byte 0x00 / 0x01, i.e. no U+0000 / U+0001 *)
Definition key_clean (k : key) : bool := forallb (fun b => (2 <=? b)%N) k.
Definition cfg_clean (c : config) : bool := forallb (fun e => key_clean (fst e)) c.

(* ------------------------------------------------------------------------------------------- *)
(* JSON:  #[serde(transparent)] BTreeMap<String, Option<bool>>  through serde_json 1.0.140       *)
(* ------------------------------------------------------------------------------------------- *)
(* printer = serde_json::to_string (CompactFormatter, format_escaped_str_contents) *)
Definition hexd (n : N) : N := if (n <? 10)%N then (48 + n)%N else (87 + n)%N.     (* "0123456789abcdef" *)
Definition esc_byte (b : N) : list N :=
  if (b =? 34)%N then [92; 34]%N                 (* backslash, quote *)
  else if (b =? 92)%N then [92; 92]%N            (* \\ *)
  else if (b =? 8)%N then [92; 98]%N             (* \b *)
  else if (b =? 12)%N then [92; 102]%N           (* \f *)
  else if (b =? 10)%N then [92; 110]%N           (* \n *)
  else if (b =? 13)%N then [92; 114]%N           (* \r *)
  else if (b =? 9)%N then [92; 116]%N            (* \t *)
  else if (b <? 32)%N then [92; 117; 48; 48; hexd (b / 16); hexd (b mod 16)]%N   (* \u00XY *)
  else [b].
Definition print_string (k : key) : list N := (34%N :: flat_map esc_byte k) ++ [34%N].
Definition print_value (v : option bool) : list N :=
  match v with
  | Some true => [116; 114; 117; 101]%N          (* true *)
  | Some false => [102; 97; 108; 115; 101]%N     (* false *)
  | None => [110; 117; 108; 108]%N               (* null *)
  end.
Definition print_entry (e : key * option bool) : list N := print_string (fst e) ++ 58%N :: print_value (snd e).
Fixpoint print_entries (c : config) : list N :=
  match c with
  | [] => []
  | e :: t => print_entry e ++ match t with [] => [] | _ :: _ => 44%N :: print_entries t end
  end.
Definition print_cfg (c : config) : list N := (123%N :: print_entries c) ++ [125%N].

(* parser = serde_json::from_str::<LintGroupConfig> *)
Definition is_ws (b : N) : bool := ((b =? 32) || (b =? 10) || (b =? 13) || (b =? 9))%N.
Fixpoint skip_ws (s : list N) : list N :=
  match s with
  | b :: t => if is_ws b then skip_ws t else s
  | [] => []
  end.
Definition hexval (b : N) : option N :=
  if ((48 <=? b) && (b <=? 57))%N then Some (b - 48)%N
  else if ((97 <=? b) && (b <=? 102))%N then Some (b - 87)%N
  else if ((65 <=? b) && (b <=? 70))%N then Some (b - 55)%N
  else None.
Definition hex4 (a b c d : N) : option N :=
  match hexval a, hexval b, hexval c, hexval d with
  | Some a, Some b, Some c, Some d => Some (((a * 16 + b) * 16 + c) * 16 + d)%N
  | _, _, _, _ => None
  end.
(* push_wtf8_codepoint *)
Definition utf8_encode (n : N) : list N :=
  if (n <? 128)%N then [n]
  else if (n <? 2048)%N then [192 + n / 64; 128 + n mod 64]%N
  else if (n <? 65536)%N then [224 + n / 4096; 128 + (n / 64) mod 64; 128 + n mod 64]%N
  else [240 + n / 262144; 128 + (n / 4096) mod 64; 128 + (n / 64) mod 64; 128 + n mod 64]%N.

(* the contents of a string literal after its opening quote: (decoded bytes, rest after the closing quote).
   validate = true (from_str): raw control characters, unknown escapes, lone surrogates are errors. *)
Fixpoint parse_str (s : list N) : option (key * list N) :=
  match s with
  | [] => None
  | b :: rest =>
      if (b =? 34)%N then Some ([], rest)
      else if (b =? 92)%N then
        match rest with
        | [] => None
        | e :: rest2 =>
            let simple (x : N) := match parse_str rest2 with Some (k, r) => Some (x :: k, r) | None => None end in
            if (e =? 34)%N then simple 34%N
            else if (e =? 92)%N then simple 92%N
            else if (e =? 47)%N then simple 47%N
            else if (e =? 98)%N then simple 8%N
            else if (e =? 102)%N then simple 12%N
            else if (e =? 110)%N then simple 10%N
            else if (e =? 114)%N then simple 13%N
            else if (e =? 116)%N then simple 9%N
            else if (e =? 117)%N then
              match rest2 with
              | h1 :: h2 :: h3 :: h4 :: rest3 =>
                  match hex4 h1 h2 h3 h4 with
                  | None => None
                  | Some n =>
                      if ((56320 <=? n) && (n <=? 57343))%N then None           (* lone trailing surrogate *)
                      else if ((n <? 55296) || (56319 <? n))%N then
                        match parse_str rest3 with Some (k, r) => Some (utf8_encode n ++ k, r) | None => None end
                      else                                                         (* leading surrogate: needs \uDC00..DFFF *)
                        match rest3 with
                        | b1 :: b2 :: g1 :: g2 :: g3 :: g4 :: rest4 =>
                            if ((b1 =? 92) && (b2 =? 117))%N then
                              match hex4 g1 g2 g3 g4 with
                              | None => None
                              | Some n2 =>
                                  if ((56320 <=? n2) && (n2 <=? 57343))%N then
                                    match parse_str rest4 with
                                    | Some (k, r) => Some (utf8_encode ((n - 55296) * 1024 + (n2 - 56320) + 65536)%N ++ k, r)
                                    | None => None
                                    end
                                  else None
                              end
                            else None
                        | _ => None
                        end
                  end
              | _ => None
              end
            else None
        end
      else if (b <? 32)%N then None
      else match parse_str rest with Some (k, r) => Some (b :: k, r) | None => None end
  end.

(* parse_ident *)
Fixpoint expect (lit s : list N) : option (list N) :=
  match lit with
  | [] => Some s
  | c :: lit' => match s with x :: s' => if (x =? c)%N then expect lit' s' else None | [] => None end
  end.
(* Option<bool>: deserialize_option then deserialize_bool, both after parse_whitespace *)
Definition parse_value (s : list N) : option (option bool * list N) :=
  match skip_ws s with
  | b :: rest =>
      if (b =? 110)%N then match expect [117; 108; 108]%N rest with Some r => Some (None, r) | None => None end
      else if (b =? 116)%N then match expect [114; 117; 101]%N rest with Some r => Some (Some true, r) | None => None end
      else if (b =? 102)%N then match expect [97; 108; 115; 101]%N rest with Some r => Some (Some false, r) | None => None end
      else None
  | [] => None
  end.

(* one  "key" : value  (next_key_seed, the colon of next_value_seed, the value) *)
Definition parse_entry (s1 : list N) : option (key * option bool * list N) :=
  match s1 with
  | q :: s2 =>
      if (q =? 34)%N then
        match parse_str s2 with
        | None => None
        | Some (k, s3) =>
            match skip_ws s3 with
            | c :: s4 =>
                if (c =? 58)%N then
                  match parse_value s4 with
                  | None => None
                  | Some (v, s5) => Some (k, v, s5)
                  end
                else None
            | [] => None
            end
        end
      else None                     (* key must be a string / trailing comma *)
  | [] => None
  end.

(* MapAccess::next_key_seed / next_value_seed loop; `first` = no entry read yet.  Entries are inserted in
   reading order (a later duplicate key overrides).  After the closing brace only whitespace may follow
   (Deserializer::end). *)
Fixpoint parse_entries (fuel : nat) (first : bool) (s : list N) (acc : config) : option config :=
  match fuel with
  | O => None
  | S fuel' =>
      match skip_ws s with
      | [] => None
      | b :: rest =>
          if (b =? 125)%N then match skip_ws rest with [] => Some acc | _ :: _ => None end
          else
            let after_sep :=
              if first then Some (b :: rest)
              else if (b =? 44)%N then Some (skip_ws rest) else None in
            match after_sep with
            | None => None
            | Some s1 =>
                match parse_entry s1 with
                | None => None
                | Some (k, v, s5) => parse_entries fuel' false s5 (insert k v acc)
                end
            end
      end
  end.
Definition parse_cfg (s : list N) : option config :=
  match skip_ws s with
  | b :: rest => if (b =? 123)%N then parse_entries (S (length rest)) true rest [] else None
  | [] => None
  end.

(* ------------------------------------------------------------------------------------------- *)
(* LintGroup: the two rule maps, and Linter::lint                                               *)
(* ------------------------------------------------------------------------------------------- *)
Section Dispatch.
  Variables body doc chunk srule prule : Type.
  (* a lint is its span plus everything else (kind, message, suggestions, priority), which the
     dispatch never looks at *)
  Record glint := mkglint { gl_span : span; gl_body : body }.

  Variable chunks : doc -> list chunk.                       (* document.iter_chunks() *)
  Variable chunk_start : chunk -> option nat.                (* chunk.span().map(|s| s.start); None = empty chunk *)
  Variable run_struct : srule -> doc -> list glint.          (* linter.lint(document) *)
  Variable run_pat : prule -> doc -> chunk -> list glint.    (* run_on_chunk(linter, chunk, document.get_source()) *)

  Record group := mkgroup { g_cfg : config; g_linters : bmap srule; g_patterns : bmap prule }.

  Definition g_empty : group := mkgroup empty_cfg [] [].
  Definition g_contains_key (g : group) (k : key) : bool :=
    contains_key k (g_linters g) || contains_key k (g_patterns g).
  (* add / add_pattern_linter: refused (false) when the name is in either map *)
  Definition g_add (g : group) (k : key) (r : srule) : group * bool :=
    if g_contains_key g k then (g, false)
    else (mkgroup (g_cfg g) (insert k r (g_linters g)) (g_patterns g), true).
  Definition g_add_pattern (g : group) (k : key) (r : prule) : group * bool :=
    if g_contains_key g k then (g, false)
    else (mkgroup (g_cfg g) (g_linters g) (insert k r (g_patterns g)), true).
  (* LintGroup::merge_from: config merge, then BTreeMap::extend on both maps — no contains_key test,
     so one name can end up in both maps.  Returns (self', other'). *)
  Definition g_merge_from (g o : group) : group * group :=
    (mkgroup (merge_into (g_cfg g) (g_cfg o)) (extend (g_linters g) (g_linters o)) (extend (g_patterns g) (g_patterns o)),
     mkgroup (clear (g_cfg o)) [] []).
  Definition g_iter_keys (g : group) : list key := map fst (g_linters g) ++ map fst (g_patterns g).
  Definition g_set_all_rules_to (g : group) (v : option bool) : group :=
    mkgroup (fold_left (fun c k => match v with Some b => set_rule_enabled k b c | None => unset_rule_enabled k c end)
                       (g_iter_keys g) (g_cfg g))
            (g_linters g) (g_patterns g).
  Definition g_with_cfg (g : group) (c : config) : group := mkgroup c (g_linters g) (g_patterns g).

  Definition pull_lint (by_ : nat) (l : glint) : res glint :=
    do s <- pull_by (gl_span l) by_; Ok (mkglint s (gl_body l)).
  Definition push_lint (by_ : nat) (l : glint) : glint := mkglint (push_by (gl_span l) by_) (gl_body l).
  Fixpoint mapM {A B} (f : A -> res B) (l : list A) : res (list B) :=
    match l with
    | [] => Ok []
    | x :: t => do y <- f x; do t' <- mapM f t; Ok (y :: t')
    end.

  (* for (key, linter) in &mut self.linters { if enabled { results.extend(linter.lint(document)) } } *)
  Definition struct_part (g : group) (d : doc) : list glint :=
    flat_map (fun e => if is_rule_enabled (g_cfg g) (fst e) then run_struct (snd e) d else []) (g_linters g).
  (* the miss branch: the enabled pattern rules in key order on this chunk *)
  Definition chunk_pattern_lints (g : group) (d : doc) (ch : chunk) : list glint :=
    flat_map (fun e => if is_rule_enabled (g_cfg g) (fst e) then run_pat (snd e) d ch else []) (g_patterns g).
  (* one iteration of `for chunk in document.iter_chunks()` *)
  Definition lint_chunk (g : group) (d : doc) (ch : chunk) : res (list glint) :=
    match chunk_start ch with
    | None => Ok []                                                  (* let Some(chunk_span) = .. else continue *)
    | Some st =>
        do rel <- mapM (pull_lint st) (chunk_pattern_lints g d ch);  (* lint.span.pull_by(chunk_span.start) *)
        Ok (map (push_lint st) rel)                                  (* lint.span.push_by(chunk_span.start) *)
    end.
  Fixpoint lint_chunks (g : group) (d : doc) (chs : list chunk) : res (list glint) :=
    match chs with
    | [] => Ok []
    | ch :: t => do a <- lint_chunk g d ch; do b <- lint_chunks g d t; Ok (a ++ b)
    end.
  Definition lint_group (g : group) (d : doc) : res (list glint) :=
    do p <- lint_chunks g d (chunks d); Ok (struct_part g d ++ p).

  (* ---- specification-level companions (ghost rule tags; used by the theorems only) ---- *)
  Definition tagged_struct (g : group) (d : doc) : list (key * glint) :=
    flat_map (fun e => if is_rule_enabled (g_cfg g) (fst e) then map (pair (fst e)) (run_struct (snd e) d) else [])
             (g_linters g).
  Definition tagged_chunk (g : group) (d : doc) (ch : chunk) : list (key * glint) :=
    match chunk_start ch with
    | None => []
    | Some _ => flat_map (fun e => if is_rule_enabled (g_cfg g) (fst e) then map (pair (fst e)) (run_pat (snd e) d ch) else [])
                         (g_patterns g)
    end.
  Definition lint_tagged (g : group) (d : doc) : list (key * glint) :=
    tagged_struct g d ++ flat_map (tagged_chunk g d) (chunks d).
  Definition lint_spec (g : group) (d : doc) : list glint := map snd (lint_tagged g d).

  (* the configuration in which exactly the switch r is on *)
  Definition only (r : key) : config := [(r, Some true)].
  (* the distinct switches of a group, and those that are on *)
  Fixpoint kdedup (l : list key) : list key :=
    match l with
    | [] => []
    | k :: t => if existsb (keqb k) t then kdedup t else k :: kdedup t
    end.
  Definition switches (g : group) : list key := kdedup (g_iter_keys g).
  Definition enabled_switches (g : group) : list key := filter (is_rule_enabled (g_cfg g)) (switches g).

  (* every pattern lint lies at or after the start of its chunk (C03_rebase_in_bounds gives this from the
     token invariant); otherwise pull_by underflows: a panic in debug builds *)
  Definition rel_ok (g : group) (d : doc) : Prop :=
    forall e ch st l, In e (g_patterns g) -> In ch (chunks d) -> chunk_start ch = Some st ->
      In l (run_pat (snd e) d ch) -> st <= sstart (gl_span l) /\ st <= send (gl_span l).

  (* harper-ls DocumentState::generate_diagnostics / generate_code_actions and harper-wasm Linter::lint:
       let temp = self.linter.config.clone(); self.linter.config.fill_with_curated();
       let lints = self.linter.lint(&doc);    self.linter.config = temp;
     returns (group afterwards, result of lint) *)
  Definition lint_with_curated_overlay (curated : config) (g : group) (d : doc) : group * res (list glint) :=
    let temp := g_cfg g in
    let g1 := g_with_cfg g (fill_with_curated curated (g_cfg g)) in
    let lints := lint_group g1 d in
    (g_with_cfg g1 temp, lints).
End Dispatch.

Arguments mkglint {body} _ _.
Arguments gl_span {body} _.
Arguments gl_body {body} _.
Arguments mkgroup {srule prule} _ _ _.
Arguments g_cfg {srule prule} _.
Arguments g_linters {srule prule} _.
Arguments g_patterns {srule prule} _.
Arguments g_contains_key {srule prule} g k.
Arguments g_add {srule prule} g k r.
Arguments g_add_pattern {srule prule} g k r.
Arguments g_merge_from {srule prule} g o.
Arguments g_iter_keys {srule prule} g.
Arguments g_set_all_rules_to {srule prule} g v.
Arguments g_with_cfg {srule prule} g c.
Arguments pull_lint {body} by_ l.
Arguments push_lint {body} by_ l.
Arguments struct_part {body doc srule prule} run_struct g d.
Arguments chunk_pattern_lints {body doc chunk srule prule} run_pat g d ch.
Arguments lint_chunk {body doc chunk srule prule} chunk_start run_pat g d ch.
Arguments lint_chunks {body doc chunk srule prule} chunk_start run_pat g d chs.
Arguments lint_group {body doc chunk srule prule} chunks chunk_start run_struct run_pat g d.
Arguments tagged_struct {body doc srule prule} run_struct g d.
Arguments tagged_chunk {body doc chunk srule prule} chunk_start run_pat g d ch.
Arguments lint_tagged {body doc chunk srule prule} chunks chunk_start run_struct run_pat g d.
Arguments lint_spec {body doc chunk srule prule} chunks chunk_start run_struct run_pat g d.
Arguments switches {srule prule} g.
Arguments enabled_switches {srule prule} g.
Arguments rel_ok {body doc chunk srule prule} chunks chunk_start run_pat g d.
Arguments lint_with_curated_overlay {body doc chunk srule prule} chunks chunk_start run_struct run_pat curated g d.

(* ------------------------------------------------------------------------------------------- *)
(* the curated configuration, from the GENERATED table (Tables_rules.v)                         *)
(* ------------------------------------------------------------------------------------------- *)
(* new_curated().config: every registered name is set to its default; (a name present in both maps has one
   switch — the table carries the same default in both lists, checked by C11_curated_table_ok) *)
Definition curated_cfg : config :=
  fold_left (fun c e => set_rule_enabled (fst e) (snd e) c) (curated_struct_rules ++ curated_pattern_rules) empty_cfg.
Definition curated_names : list key := map fst curated_struct_rules ++ map fst curated_pattern_rules.

(* ------------------------------------------------------------------------------------------- *)
(* executable entry points for the correspondence (extracted)                                   *)
(* ------------------------------------------------------------------------------------------- *)
(* configuration operations on a bank of registers *)
Inductive cop :=
| CSet (i : nat) (k : key) (b : bool)
| CUnset (i : nat) (k : key)
| CSetIfUnset (i : nat) (k : key) (b : bool)
| CClear (i : nat)
| CMerge (i j : nat)           (* regs[i].merge_from(&mut regs[j]), i <> j *)
| CWasmSet (i j : nat)         (* harper_wasm::Linter::set_lint_config_*: regs[i] the stored config, regs[j] the parsed one, i <> j *)
| CFill (i : nat)              (* regs[i].fill_with_curated() *)
| CCurated (i : nat)           (* regs[i] = LintGroupConfig::new_curated() *)
| CDefault (i : nat)           (* regs[i] = LintGroupConfig::default() *)
| CCopy (i j : nat)            (* regs[i] = regs[j].clone() *)
| CJson (i : nat).             (* regs[i] = from_str(to_string(regs[i])) ; a parse failure leaves the register empty *)

Fixpoint set_reg (rs : list config) (i : nat) (c : config) : list config :=
  match rs, i with
  | [], _ => []
  | _ :: t, O => c :: t
  | h :: t, S i' => h :: set_reg t i' c
  end.
Definition reg (rs : list config) (i : nat) : config := nth i rs [].
Definition exec_cop (rs : list config) (o : cop) : list config :=
  match o with
  | CSet i k b => set_reg rs i (set_rule_enabled k b (reg rs i))
  | CUnset i k => set_reg rs i (unset_rule_enabled k (reg rs i))
  | CSetIfUnset i k b => set_reg rs i (set_rule_enabled_if_unset k b (reg rs i))
  | CClear i => set_reg rs i (clear (reg rs i))
  | CMerge i j =>
      if Nat.eqb i j then rs
      else let p := merge_from (reg rs i) (reg rs j) in set_reg (set_reg rs i (fst p)) j (snd p)
  | CWasmSet i j =>
      if Nat.eqb i j then rs
      else let p := wasm_set_config (reg rs i) (reg rs j) in set_reg (set_reg rs i (fst p)) j (snd p)
  | CFill i => set_reg rs i (fill_with_curated curated_cfg (reg rs i))
  | CCurated i => set_reg rs i curated_cfg
  | CDefault i => set_reg rs i empty_cfg
  | CCopy i j => set_reg rs i (reg rs j)
  | CJson i => set_reg rs i (match parse_cfg (print_cfg (reg rs i)) with Some c => c | None => [] end)
  end.
Definition run_cops (n : nat) (ops : list cop) : list config := fold_left exec_cop ops (repeat empty_cfg n).

(* dispatch on data: a struct rule is the lints it returns for the (fixed) document, a pattern rule the
   lints it returns per chunk index; a chunk is (index, start) *)
Definition drule := list (glint nat).
Definition dprule := list (list (glint nat)).
Definition dchunk := (nat * option nat)%type.
Definition dgroup := group drule dprule.
Definition d_run_struct (r : drule) (_ : list dchunk) : list (glint nat) := r.
Definition d_run_pat (r : dprule) (_ : list dchunk) (ch : dchunk) : list (glint nat) := nth (fst ch) r [].

(* group-building operations, as the harness performs them on real LintGroups *)
Inductive gop :=
| GAdd (i : nat) (k : key) (r : drule)
| GAddPattern (i : nat) (k : key) (r : dprule)
| GMerge (i j : nat)                              (* groups[i].merge_from(&mut groups[j]) *)
| GSetAll (i : nat) (v : option bool)
| GCfg (i : nat) (o : cop).                       (* a config operation on groups[i].config (register index ignored) *)

Fixpoint set_greg (gs : list dgroup) (i : nat) (g : dgroup) : list dgroup :=
  match gs, i with
  | [], _ => []
  | _ :: t, O => g :: t
  | h :: t, S i' => h :: set_greg t i' g
  end.
Definition greg (gs : list dgroup) (i : nat) : dgroup := nth i gs (g_empty drule dprule).
Definition retarget (o : cop) : cop :=
  match o with
  | CSet _ k b => CSet 0 k b | CUnset _ k => CUnset 0 k | CSetIfUnset _ k b => CSetIfUnset 0 k b
  | CClear _ => CClear 0 | CMerge _ _ => CClear 1 | CWasmSet _ _ => CClear 1 | CFill _ => CFill 0 | CCurated _ => CCurated 0
  | CDefault _ => CDefault 0 | CCopy _ _ => CClear 1 | CJson _ => CJson 0
  end.
Definition exec_gop (gs : list dgroup) (o : gop) : list dgroup :=
  match o with
  | GAdd i k r => set_greg gs i (fst (g_add (greg gs i) k r))
  | GAddPattern i k r => set_greg gs i (fst (g_add_pattern (greg gs i) k r))
  | GMerge i j =>
      if Nat.eqb i j then gs
      else let p := g_merge_from (greg gs i) (greg gs j) in set_greg (set_greg gs i (fst p)) j (snd p)
  | GSetAll i v => set_greg gs i (g_set_all_rules_to (greg gs i) v)
  | GCfg i o => let g := greg gs i in
                set_greg gs i (g_with_cfg g (reg (exec_cop [g_cfg g] (retarget o)) 0))
  end.
(* build groups, then groups[0].lint(doc): (config, iter_keys, lints) *)
Definition run_dispatch (n : nat) (ops : list gop) (chs : list dchunk)
  : config * list key * res (list (glint nat)) :=
  let g := greg (fold_left exec_gop ops (repeat (g_empty drule dprule) n)) 0 in
  (g_cfg g, g_iter_keys g,
   lint_group (fun d : list dchunk => d) snd d_run_struct d_run_pat g chs).
