(* C19Record.v — harper_stats::Record as serde_json writes and reads it, concretely.

   What is modelled (read from the derives and serde attributes, line by line):
     Record          { kind, when: i64, uuid }                              struct  -> {"kind":..,"when":..,"uuid":".."}
     RecordKind      Lint { kind, context } | LintConfigUpdate(cfg)         externally tagged -> {"Lint":{..}} / {"LintConfigUpdate":{..}}
     LintKind        10 unit variants                                        -> "Spelling" ...
     LintGroupConfig #[serde(transparent)] BTreeMap<String, Option<bool>>   -> {"key":true|false|null,...} keys in byte order
     FatStringToken  { content: String, kind: TokenKind }
     TokenKind       #[serde(tag = "kind", content = "value")]              adjacently tagged -> {"kind":"Word","value":..} / {"kind":"Decade"}
     Punctuation     #[serde(tag = "kind")]                                 internally tagged -> {"kind":"Period"} /
                     Quote(Quote { twin_loc })  -> {"kind":"Quote","twin_loc":..} /
                     Currency(Currency)         -> {"kind":"Currency","Dollar":null}   (serde's TaggedSerializer::serialize_unit_variant)
     Number          { value: f64, suffix, radix: u32, precision: usize }
     WordMetadata    12 fields; NounData / PronounData / VerbData (tense: Option<Tense>, Tense has NO variant: always null)
                     / AdjectiveData / AdverbData {} / ConjunctionData {} / Dialect / WordId { hash: u64 }
   Structs are nested pairs in field order (the field names are in the codecs below); enums with unit variants are the
   index into their table of names.  uuid = its hyphenated lower-case text (36 characters).

   A value of each type has a `codec`: `enc` = what serde_json's compact formatter writes, `dec` = a reader for exactly
   that canonical form (fields in order, no whitespace) returning the value and the unread rest.  The ONLY part that
   is not modelled is serde_json's f64 printer / parser: Section variables `print_f64` / `parse_f64` over an abstract
   type F of floats (contract stated in Proofs/C19RecordProofs.v, monitored by the harness).
   No proofs here. *)
From Coq Require Import String Ascii.
From Coq Require Import List ZArith DecimalN.
Require Import Base JsonEscape Stats.
Local Open Scope N_scope.

Definition jb (s : String.string) : bytes := map Ascii.N_of_ascii (String.list_ascii_of_string s).
Arguments jb s%string.

(* ---------- codecs ---------- *)
Record codec (A : Type) := mkcodec {
  enc : A -> bytes;
  dec : bytes -> option (A * bytes);
  wf : A -> Prop }.
Arguments mkcodec {A}. Arguments enc {A}. Arguments dec {A}. Arguments wf {A}.

(* expect the literal p *)
Fixpoint strip (p s : bytes) : option bytes :=
  match p with
  | [] => Some s
  | a :: p' => match s with c :: s' => if a =? c then strip p' s' else None | [] => None end
  end.

(* what may follow a JSON value inside a record: `,` `}` `]` or the end of the line *)
Definition delimb (s : bytes) : bool :=
  match s with [] => true | c :: _ => (c =? 44) || (c =? 125) || (c =? 93) end.

Definition c_pre {A} (p : bytes) (c : codec A) : codec A :=
  mkcodec (fun x => p ++ enc c x)
          (fun s => match strip p s with Some r => dec c r | None => None end)
          (wf c).
Definition c_post {A} (c : codec A) (q : bytes) : codec A :=
  mkcodec (fun x => enc c x ++ q)
          (fun s => match dec c s with
                    | Some (x, r) => match strip q r with Some r' => Some (x, r') | None => None end
                    | None => None end)
          (wf c).
(* two members of a struct, `sep` = `,"name":` of the second *)
Definition c_sep {A B} (ca : codec A) (sep : bytes) (cb : codec B) : codec (A * B) :=
  mkcodec (fun x => enc ca (fst x) ++ sep ++ enc cb (snd x))
          (fun s => match dec ca s with
                    | Some (a, r) => match strip sep r with
                                     | Some r1 => match dec cb r1 with Some (y, r2) => Some ((a, y), r2) | None => None end
                                     | None => None end
                    | None => None end)
          (fun x => wf ca (fst x) /\ wf cb (snd x)).
(* Option<T>: null / the value *)
Definition c_opt {A} (c : codec A) : codec (option A) :=
  mkcodec (fun x => match x with None => jb "null" | Some a => enc c a end)
          (fun s => match strip (jb "null") s with
                    | Some r => Some (None, r)
                    | None => match dec c s with Some (a, r) => Some (Some a, r) | None => None end
                    end)
          (fun x => match x with None => True | Some a => wf c a end).
(* reading through a partial conversion (a table lookup, a range check, BTreeMap::from_iter) *)
Definition c_conv {A B} (c : codec A) (f : A -> option B) (g : B -> A) (wfb : B -> Prop) : codec B :=
  mkcodec (fun y => enc c (g y))
          (fun s => match dec c s with
                    | Some (x, r) => match f x with Some y => Some (y, r) | None => None end
                    | None => None end)
          wfb.
(* a fixed text: null (Option of an empty enum), {} (a struct without fields) *)
Definition c_lit (l : bytes) : codec unit :=
  mkcodec (fun _ => l) (fun s => match strip l s with Some r => Some (tt, r) | None => None end) (fun _ => True).

Definition c_bool : codec bool :=
  mkcodec (fun x : bool => if x then jb "true" else jb "false")
          (fun s => match strip (jb "true") s with
                    | Some r => Some (true, r)
                    | None => match strip (jb "false") s with Some r => Some (false, r) | None => None end
                    end)
          (fun _ => True).

(* a JSON string (String, map keys, variant names) *)
Definition dec_str (s : bytes) : option (text * bytes) :=
  match s with
  | q :: t => if q =? 34 then
                match unescape_body t with
                | Some (body, rest) => match utf8_dec body with Some txt => Some (txt, rest) | None => None end
                | None => None end
              else None
  | [] => None
  end.
Definition c_str : codec text := mkcodec ser_str dec_str (fun s => Forall scalar s).

(* sequences: `[a,b]` (Vec) and `{k:v,k:v}` (map) — op / cl = the brackets *)
Section Seq.
  Context {A : Type} (c : codec A) (op cl : byte).
  Fixpoint enc_items (l : list A) : bytes :=
    match l with
    | [] => []
    | x :: t => enc c x ++ match t with [] => [] | _ :: _ => 44 :: enc_items t end
    end.
  Fixpoint dec_items (fuel : nat) (s : bytes) : option (list A * bytes) :=
    match fuel with
    | O => None
    | S f =>
      match dec c s with
      | None => None
      | Some (x, r) =>
        match r with
        | d :: r' =>
          if d =? 44 then match dec_items f r' with Some (xs, r2) => Some (x :: xs, r2) | None => None end
          else if d =? cl then Some ([x], r') else None
        | [] => None
        end
      end
    end.
  Definition dec_seq (s : bytes) : option (list A * bytes) :=
    match s with
    | o :: r => if o =? op then
                  match r with
                  | c0 :: r' => if c0 =? cl then Some ([], r') else dec_items (length r) r
                  | [] => None
                  end
                else None
    | [] => None
    end.
  Definition c_seq : codec (list A) :=
    mkcodec (fun l => op :: enc_items l ++ [cl]) dec_seq (fun l => Forall (wf c) l).
End Seq.

(* ---------- integers (itoa / serde_json's integer parser, canonical decimal) ---------- *)
Fixpoint uint_bytes (d : Decimal.uint) : bytes :=
  match d with
  | Decimal.Nil => []
  | Decimal.D0 r => 48 :: uint_bytes r | Decimal.D1 r => 49 :: uint_bytes r | Decimal.D2 r => 50 :: uint_bytes r
  | Decimal.D3 r => 51 :: uint_bytes r | Decimal.D4 r => 52 :: uint_bytes r | Decimal.D5 r => 53 :: uint_bytes r
  | Decimal.D6 r => 54 :: uint_bytes r | Decimal.D7 r => 55 :: uint_bytes r | Decimal.D8 r => 56 :: uint_bytes r
  | Decimal.D9 r => 57 :: uint_bytes r
  end.
Definition is_digit (c : byte) : bool := (48 <=? c) && (c <=? 57).
(* the maximal run of digits, as a Decimal.uint, and the rest *)
Fixpoint bytes_uint (s : bytes) : Decimal.uint * bytes :=
  match s with
  | [] => (Decimal.Nil, [])
  | c :: t =>
    if is_digit c then
      let (d, r) := bytes_uint t in
      ((if c =? 48 then Decimal.D0 else if c =? 49 then Decimal.D1 else if c =? 50 then Decimal.D2
        else if c =? 51 then Decimal.D3 else if c =? 52 then Decimal.D4 else if c =? 53 then Decimal.D5
        else if c =? 54 then Decimal.D6 else if c =? 55 then Decimal.D7 else if c =? 56 then Decimal.D8
        else Decimal.D9) d, r)
    else (Decimal.Nil, s)
  end.
Definition enc_N (n : N) : bytes := uint_bytes (N.to_uint n).
Definition dec_N (s : bytes) : option (N * bytes) :=
  match bytes_uint s with
  | (Decimal.Nil, _) => None
  | (d, r) => Some (N.of_uint d, r)
  end.
Definition c_N : codec N := mkcodec enc_N dec_N (fun _ => True).
(* u32 / u64 / usize (64-bit targets): out of range is an error *)
Definition c_below (bound : N) : codec N :=
  c_conv c_N (fun n => if n <? bound then Some n else None) (fun n => n) (fun n => n < bound).
Definition two64 : N := 18446744073709551616.
Definition c_u64 : codec N := c_below two64.
Definition c_u32 : codec N := c_below 4294967296.
(* i64 *)
Definition enc_Z (z : Z) : bytes :=
  match z with Z0 => [48] | Zpos p => enc_N (Npos p) | Zneg p => 45 :: enc_N (Npos p) end.
Definition i64_okb (z : Z) : bool := ((-9223372036854775808 <=? z) && (z <=? 9223372036854775807))%Z.
Definition dec_Z (s : bytes) : option (Z * bytes) :=
  match s with
  | c :: t =>
    if c =? 45 then
      match dec_N t with
      | Some (n, r) => let z := (- Z.of_N n)%Z in if i64_okb z then Some (z, r) else None
      | None => None end
    else
      match dec_N s with
      | Some (n, r) => let z := Z.of_N n in if i64_okb z then Some (z, r) else None
      | None => None end
  | [] => None
  end.
Definition c_i64 : codec Z := mkcodec enc_Z dec_Z (fun z => i64_okb z = true).

(* ---------- enums with unit variants: the index into the table of variant names ---------- *)
Fixpoint index_of (n : text) (names : list text) : option nat :=
  match names with
  | [] => None
  | x :: t => if bytes_eqb n x then Some O else match index_of n t with Some i => Some (S i) | None => None end
  end.
Definition c_enum (names : list text) : codec nat :=
  c_conv c_str (fun n => index_of n names) (fun i => nth i names []) (fun i => (i < length names)%nat).

Definition lintkind_names : list text :=
  [jb "Spelling"; jb "Capitalization"; jb "Style"; jb "Formatting"; jb "Repetition"; jb "Enhancement"; jb "Readability";
   jb "WordChoice"; jb "Miscellaneous"; jb "Punctuation"].
Definition suffix_names : list text := [jb "Th"; jb "St"; jb "Nd"; jb "Rd"].
Definition dialect_names : list text := [jb "American"; jb "Canadian"; jb "Australian"; jb "British"].
Definition person_names : list text := [jb "First"; jb "Second"; jb "Third"].
Definition case_names : list text := [jb "Subject"; jb "Object"].
Definition degree_names : list text := [jb "Positive"; jb "Comparative"; jb "Superlative"].
Definition currency_names : list text :=
  [jb "Dollar"; jb "Cent"; jb "Euro"; jb "Ruble"; jb "Lira"; jb "Pound"; jb "Yen"; jb "Baht"; jb "Won"; jb "Kip"].
(* Punctuation without Quote(..) and Currency(..), TokenKind's variants without a payload: in declaration order *)
Definition punct_unit_names : list text :=
  [jb "Ellipsis"; jb "EnDash"; jb "EmDash"; jb "Ampersand"; jb "Period"; jb "Bang"; jb "Question"; jb "Colon"; jb "Semicolon";
   jb "Comma"; jb "Hyphen"; jb "OpenSquare"; jb "CloseSquare"; jb "OpenRound"; jb "CloseRound"; jb "OpenCurly"; jb "CloseCurly";
   jb "Hash"; jb "Apostrophe"; jb "Percent"; jb "ForwardSlash"; jb "Backslash"; jb "LessThan"; jb "GreaterThan"; jb "Equal";
   jb "Star"; jb "Tilde"; jb "At"; jb "Caret"; jb "Plus"; jb "Pipe"; jb "Underscore"].
Definition tk_unit_names : list text :=
  [jb "Decade"; jb "EmailAddress"; jb "Url"; jb "Hostname"; jb "Unlintable"; jb "ParagraphBreak"; jb "Regexish"].

(* ---------- alternatives (the variants of an enum that carry data are told apart by their fixed prefix) ---------- *)
Definition alt {A} (d1 d2 : bytes -> option (A * bytes)) (s : bytes) : option (A * bytes) :=
  match d1 s with Some r => Some r | None => d2 s end.
Definition dmap {A B} (f : A -> B) (d : bytes -> option (A * bytes)) (s : bytes) : option (B * bytes) :=
  match d s with Some (x, r) => Some (f x, r) | None => None end.

(* ---------- WordMetadata ---------- *)
Definition c_ob : codec (option bool) := c_opt c_bool.
Definition noundata := (option bool * (option bool * option bool))%type.
Definition c_noun : codec noundata :=
  c_post (c_pre (jb "{""is_proper"":") (c_sep c_ob (jb ",""is_plural"":") (c_sep c_ob (jb ",""is_possessive"":") c_ob))) (jb "}").
Definition pronoundata := (option bool * (option bool * (option nat * option nat)))%type.
Definition c_pronoun : codec pronoundata :=
  c_post (c_pre (jb "{""is_plural"":") (c_sep c_ob (jb ",""is_possessive"":") (c_sep c_ob (jb ",""person"":")
         (c_sep (c_opt (c_enum person_names)) (jb ",""case"":") (c_opt (c_enum case_names)))))) (jb "}").
(* tense : Option<Tense>, and Tense has no variant: the member is always null *)
Definition verbdata := (option bool * (option bool * unit))%type.
Definition c_verb : codec verbdata :=
  c_post (c_pre (jb "{""is_linking"":") (c_sep c_ob (jb ",""is_auxiliary"":") (c_sep c_ob (jb ",""tense"":") (c_lit (jb "null"))))) (jb "}").
Definition adjdata := option nat.
Definition c_adj : codec adjdata := c_post (c_pre (jb "{""degree"":") (c_opt (c_enum degree_names))) (jb "}").
Definition c_empty_struct : codec unit := c_lit (jb "{}").       (* AdverbData {}, ConjunctionData {} *)
Definition c_wordid : codec N := c_post (c_pre (jb "{""hash"":") c_u64) (jb "}").

Definition wordmeta :=
  (option noundata * (option pronoundata * (option verbdata * (option adjdata * (option unit * (option unit *
  (option bool * (option nat * (bool * (bool * (bool * option N)))))))))))%type.
Definition c_wordmeta : codec wordmeta :=
  c_post (c_pre (jb "{""noun"":")
    (c_sep (c_opt c_noun) (jb ",""pronoun"":")
    (c_sep (c_opt c_pronoun) (jb ",""verb"":")
    (c_sep (c_opt c_verb) (jb ",""adjective"":")
    (c_sep (c_opt c_adj) (jb ",""adverb"":")
    (c_sep (c_opt c_empty_struct) (jb ",""conjunction"":")
    (c_sep (c_opt c_empty_struct) (jb ",""swear"":")
    (c_sep c_ob (jb ",""dialect"":")
    (c_sep (c_opt (c_enum dialect_names)) (jb ",""determiner"":")
    (c_sep c_bool (jb ",""preposition"":")
    (c_sep c_bool (jb ",""common"":")
    (c_sep c_bool (jb ",""derived_from"":") (c_opt c_wordid))))))))))))) (jb "}").

(* ---------- Punctuation (internally tagged) ---------- *)
Inductive punct :=
| PUnit (i : nat)                    (* index into punct_unit_names *)
| PQuote (twin_loc : option N)
| PCurrency (i : nat).               (* index into currency_names *)
Definition c_punct_unit : codec nat := c_post (c_pre (jb "{""kind"":") (c_enum punct_unit_names)) (jb "}").
Definition c_punct_quote : codec (option N) := c_post (c_pre (jb "{""kind"":""Quote"",""twin_loc"":") (c_opt c_u64)) (jb "}").
Definition c_punct_currency : codec nat := c_post (c_pre (jb "{""kind"":""Currency"",") (c_enum currency_names)) (jb ":null}").
Definition c_punct : codec punct :=
  mkcodec (fun p => match p with PUnit i => enc c_punct_unit i | PQuote t => enc c_punct_quote t | PCurrency i => enc c_punct_currency i end)
          (alt (dmap PQuote (dec c_punct_quote)) (alt (dmap PCurrency (dec c_punct_currency)) (dmap PUnit (dec c_punct_unit))))
          (fun p => match p with PUnit i => wf c_punct_unit i | PQuote t => wf c_punct_quote t | PCurrency i => wf c_punct_currency i end).

Section Rec.
  (* serde_json's f64 printer (ryu) and parser (float_roundtrip), over an abstract type of floats *)
  Variable F : Type.
  Variable finite : F -> Prop.
  Variable print_f64 : F -> bytes.
  Variable parse_f64 : bytes -> option F.

  (* the characters a JSON number consists of; the reader hands the maximal run of them to parse_f64 *)
  Definition numcharb (c : byte) : bool := is_digit c || (c =? 45) || (c =? 43) || (c =? 46) || (c =? 101) || (c =? 69).
  Fixpoint span_num (s : bytes) : bytes * bytes :=
    match s with
    | [] => ([], [])
    | c :: t => if numcharb c then let (a, r) := span_num t in (c :: a, r) else ([], s)
    end.
  Definition c_f64 : codec F :=
    mkcodec print_f64
            (fun s => let (a, r) := span_num s in match a with [] => None | _ :: _ => match parse_f64 a with Some x => Some (x, r) | None => None end end)
            finite.

  (* ---------- Number ---------- *)
  Definition number := (F * (option nat * (N * N)))%type.
  Definition c_number : codec number :=
    c_post (c_pre (jb "{""value"":") (c_sep c_f64 (jb ",""suffix"":") (c_sep (c_opt (c_enum suffix_names)) (jb ",""radix"":")
           (c_sep c_u32 (jb ",""precision"":") c_u64)))) (jb "}").

  (* ---------- TokenKind (adjacently tagged) ---------- *)
  Inductive tokenkind :=
  | TKWord (m : option wordmeta)
  | TKPunct (p : punct)
  | TKNumber (n : number)
  | TKSpace (n : N)
  | TKNewline (n : N)
  | TKUnit (i : nat).                (* index into tk_unit_names *)
  Definition c_tk_word := c_post (c_pre (jb "{""kind"":""Word"",""value"":") (c_opt c_wordmeta)) (jb "}").
  Definition c_tk_punct := c_post (c_pre (jb "{""kind"":""Punctuation"",""value"":") c_punct) (jb "}").
  Definition c_tk_number := c_post (c_pre (jb "{""kind"":""Number"",""value"":") c_number) (jb "}").
  Definition c_tk_space := c_post (c_pre (jb "{""kind"":""Space"",""value"":") c_u64) (jb "}").
  Definition c_tk_newline := c_post (c_pre (jb "{""kind"":""Newline"",""value"":") c_u64) (jb "}").
  Definition c_tk_unit := c_post (c_pre (jb "{""kind"":") (c_enum tk_unit_names)) (jb "}").
  Definition c_tokenkind : codec tokenkind :=
    mkcodec (fun k => match k with
                      | TKWord m => enc c_tk_word m | TKPunct p => enc c_tk_punct p | TKNumber n => enc c_tk_number n
                      | TKSpace n => enc c_tk_space n | TKNewline n => enc c_tk_newline n | TKUnit i => enc c_tk_unit i end)
            (alt (dmap TKWord (dec c_tk_word)) (alt (dmap TKPunct (dec c_tk_punct)) (alt (dmap TKNumber (dec c_tk_number))
            (alt (dmap TKSpace (dec c_tk_space)) (alt (dmap TKNewline (dec c_tk_newline)) (dmap TKUnit (dec c_tk_unit)))))))
            (fun k => match k with
                      | TKWord m => wf c_tk_word m | TKPunct p => wf c_tk_punct p | TKNumber n => wf c_tk_number n
                      | TKSpace n => wf c_tk_space n | TKNewline n => wf c_tk_newline n | TKUnit i => wf c_tk_unit i end).

  (* ---------- FatStringToken ---------- *)
  Definition fattoken := (text * tokenkind)%type.
  Definition c_fattoken : codec fattoken :=
    c_post (c_pre (jb "{""content"":") (c_sep c_str (jb ",""kind"":") c_tokenkind)) (jb "}").

  (* ---------- LintGroupConfig: BTreeMap<String, Option<bool>> ---------- *)
  Definition config := list (text * option bool).
  (* one entry `"key":value`; Ord for String = byte order of the UTF-8 form *)
  Definition c_entry : codec (text * option bool) :=
    mkcodec (fun e => ser_str (fst e) ++ 58 :: enc c_ob (snd e))
            (fun s => match dec_str s with
                      | Some (k, r) => match r with
                                       | d :: r1 => if d =? 58 then match dec c_ob r1 with Some (v, r2) => Some ((k, v), r2) | None => None end else None
                                       | [] => None end
                      | None => None end)
            (fun e => Forall scalar (fst e)).
  Fixpoint bytes_ltb (x y : bytes) : bool :=
    match x, y with
    | _, [] => false
    | [], _ :: _ => true
    | a :: x', c :: y' => if a <? c then true else if a =? c then bytes_ltb x' y' else false
    end.
  Definition key_ltb (x y : text) : bool := bytes_ltb (utf8_enc x) (utf8_enc y).
  (* BTreeMap::insert into the ordered association list (a later duplicate replaces the value) *)
  Fixpoint bt_insert (k : text) (v : option bool) (m : config) : config :=
    match m with
    | [] => [(k, v)]
    | (k', v') :: t =>
      if key_ltb k k' then (k, v) :: m
      else if key_ltb k' k then (k', v') :: bt_insert k v t
      else (k', v) :: t
    end.
  Definition bt_of_list (l : config) : config := fold_left (fun m e => bt_insert (fst e) (snd e) m) l [].
  (* the keys of a BTreeMap increase strictly: each is smaller than all later ones *)
  Fixpoint keys_increasing (m : config) : Prop :=
    match m with
    | [] => True
    | e :: t => Forall (fun e' => key_ltb (fst e) (fst e') = true) t /\ keys_increasing t
    end.
  Definition c_config : codec config :=
    c_conv (c_seq c_entry 123 125) (fun l => Some (bt_of_list l)) (fun m => m)
           (fun m => Forall (fun e => Forall scalar (fst e)) m /\ keys_increasing m).

  (* ---------- RecordKind (externally tagged), Record ---------- *)
  Inductive recordkind :=
  | RKLint (kind : nat) (context : list fattoken)          (* kind = index into lintkind_names *)
  | RKConfig (c : config).
  Definition c_rk_lint : codec (nat * list fattoken) :=
    c_post (c_pre (jb "{""Lint"":{""kind"":") (c_sep (c_enum lintkind_names) (jb ",""context"":") (c_seq c_fattoken 91 93))) (jb "}}").
  Definition c_rk_config : codec config := c_post (c_pre (jb "{""LintConfigUpdate"":") c_config) (jb "}").
  Definition c_recordkind : codec recordkind :=
    mkcodec (fun k => match k with RKLint kd cx => enc c_rk_lint (kd, cx) | RKConfig c => enc c_rk_config c end)
            (alt (dmap (fun x => RKLint (fst x) (snd x)) (dec c_rk_lint)) (dmap RKConfig (dec c_rk_config)))
            (fun k => match k with RKLint kd cx => wf c_rk_lint (kd, cx) | RKConfig c => wf c_rk_config c end).

  (* Uuid: Serialize for a human-readable format = the hyphenated lower-case form *)
  Definition lower_hexb (c : N) : bool := is_digit c || ((97 <=? c) && (c <=? 102)).
  Fixpoint uuid_groups (gs : list nat) (s : text) : bool :=
    match gs with
    | [] => match s with [] => true | _ :: _ => false end
    | g :: gs' =>
      forallb lower_hexb (firstn g s) && (length (firstn g s) =? g)%nat &&
      match gs' with
      | [] => match skipn g s with [] => true | _ :: _ => false end
      | _ :: _ => match skipn g s with d :: r => (d =? 45) && uuid_groups gs' r | [] => false end
      end
    end.
  Definition uuid_textb (s : text) : bool := uuid_groups [8; 4; 4; 4; 12]%nat s.
  Definition c_uuid : codec text :=
    c_conv c_str (fun s => if uuid_textb s then Some s else None) (fun s => s) (fun s => Forall scalar s /\ uuid_textb s = true).

  Definition record := (recordkind * (Z * text))%type.          (* kind, when, uuid *)
  Definition c_record : codec record :=
    c_post (c_pre (jb "{""kind"":") (c_sep c_recordkind (jb ",""when"":") (c_sep c_i64 (jb ",""uuid"":") c_uuid))) (jb "}").

  (* Serializer::new(w) + record.serialize / serde_json::from_str::<Record> on the canonical form *)
  Definition ser_record (r : record) : bytes := enc c_record r.
  Definition de_record (l : bytes) : option record :=
    match dec c_record l with Some (r, []) => Some r | _ => None end.
  (* a value of the Rust type: strings are Rust strings, integers are in range, variant indices exist, BTreeMap keys
     increase — and every Number's f64 is `finite` *)
  Definition record_wf (r : record) : Prop := wf c_record r.

  (* ---------- what Stats::summarize looks at ---------- *)
  Definition is_word_none (t : fattoken) : bool := match snd t with TKWord None => true | _ => false end.
  Definition rkind_of (r : record) : rkind nat config :=
    match fst r with
    | RKLint k ctx => RLint nat config k (map fst (filter is_word_none ctx))
    | RKConfig c => RConfig nat config c
    end.
  (* the f64 values of the Number tokens of a record's context *)
  Definition tk_numbers (t : fattoken) : list F := match snd t with TKNumber n => [fst n] | _ => [] end.
  Definition numbers (r : record) : list F :=
    match fst r with RKLint _ ctx => flat_map tk_numbers ctx | RKConfig _ => [] end.
End Rec.

(* ---------- the extracted driver: a float is the text serde_json printed for it ---------- *)
Definition drv_finite (t : bytes) : Prop := t <> [].
Definition drv_record := record bytes.
Definition drv_ser : drv_record -> bytes := ser_record bytes drv_finite (fun t => t) (fun t => Some t).
Definition drv_de : bytes -> option drv_record := de_record bytes drv_finite (fun t => t) (fun t => Some t).
(* one real line: Some (does the model print the record it read exactly as that line?, lint kind / 999 for a
   configuration update, the Word(None) contents, the number texts) / None = the model's reader rejects the line *)
Definition run_record_line (l : bytes) : option (bool * (nat * (list text * list bytes))) :=
  match drv_de l with
  | None => None
  | Some r =>
    let same := bytes_eqb (drv_ser r) l in
    match rkind_of bytes r with
    | RLint _ _ k ws => Some (same, (k, (ws, numbers bytes r)))
    | RConfig _ _ _ => Some (same, (999%nat, ([], [])))
    end
  end.
(* a log of real lines through the model's reader, then summarize over the modelled records (lint kinds by index) *)
Definition cfg_eqb (a c : config) : bool :=
  (fix go (x y : config) : bool :=
     match x, y with
     | [], [] => true
     | (k, v) :: x', (k', v') :: y' =>
       bytes_eqb k k' && (match v, v' with None, None => true | Some p, Some q => Bool.eqb p q | _, _ => false end) && go x' y'
     | _, _ => false
     end) a c.
Definition run_log_summary (ls : list bytes) : option (summary nat config) :=
  match read drv_record drv_de (flat_map (fun l => l ++ [10]) ls) with
  | None => None
  | Some rs => Some (summarize nat Nat.eqb config [] (map (rkind_of bytes) rs))
  end.
