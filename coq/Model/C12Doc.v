(* C12Doc.v — Document::new_plain_english(text).tokens as the kind classes of Model/ParaSplit.v (what the
   iterators, the rule schemas and the quote pairing look at), over C02's frozen Lexer.v / Condense.v.
   No proofs here.  `run_doc` / `run_raw` are the driver entry points of the C12 correspondence (cases T / L):
   the whole pipeline PlainEnglish::parse + the nine passes of Document::parse on an ASCII text, with the
   ASCII restriction of the Unicode predicates (on an ASCII text the lexer consults them on ASCII characters
   only; C02 checks the restriction against Rust's char methods over all scalar values). *)
Require Import Base Overlap Tables_lexer Lexer Condense.
Require ParaSplit.

(* the kind class of a lexer token *)
Definition classify (k : Lexer.tkind) : ParaSplit.kind :=
  match k with
  | Lexer.KParagraphBreak => ParaSplit.KBreak
  | Lexer.KNewline _ => ParaSplit.KNewline
  | Lexer.KSpace _ => ParaSplit.KSpace
  | Lexer.KWord => ParaSplit.KWord
  | Lexer.KNumber _ => ParaSplit.KNumber
  | Lexer.KPunct PPeriod => ParaSplit.KPeriod
  | Lexer.KPunct PBang => ParaSplit.KBang
  | Lexer.KPunct PQuestion => ParaSplit.KQuestion
  | Lexer.KPunct PComma => ParaSplit.KComma
  | Lexer.KPunct PColon => ParaSplit.KColon
  | Lexer.KPunct (PQuote tw) => ParaSplit.KQuote tw
  | Lexer.KPunct _ => ParaSplit.KPunct
  | _ => ParaSplit.KOther
  end.
Definition to_ps (t : Lexer.token) : ParaSplit.tok := ParaSplit.mktok (Lexer.tspan t) (classify (tkind_of t)).

(* Document::new_plain_english(s).tokens as kind classes ([] if the model panics: excluded by C01/C02) *)
Definition doc_tokens (u : uni) (s : text) : list ParaSplit.tok :=
  match document_plain u s with Ok ts => map to_ps ts | Panic _ => [] end.

(* ---------- driver entry points ---------- *)
Definition c12_ascii_uni : uni :=
  mkuni (fun c => mem_n c [9; 10; 11; 12; 13; 32]%N) is_ascii_digit is_ascii_alphabetic is_ascii_alphabetic.

(* the class codes of harness/src/bin/c12.rs (CLASSES), and twin_loc + 1 (0 = none / not a quote) *)
Definition class_code (k : ParaSplit.kind) : nat * nat :=
  match k with
  | ParaSplit.KBreak => (0, 0) | ParaSplit.KNewline => (1, 0) | ParaSplit.KSpace => (2, 0)
  | ParaSplit.KWord => (3, 0) | ParaSplit.KNumber => (4, 0) | ParaSplit.KPeriod => (5, 0)
  | ParaSplit.KBang => (6, 0) | ParaSplit.KQuestion => (7, 0) | ParaSplit.KComma => (8, 0)
  | ParaSplit.KColon => (9, 0)
  | ParaSplit.KQuote tw => (10, match tw with Some j => S j | None => 0 end)
  | ParaSplit.KPunct => (11, 0) | ParaSplit.KOther => (12, 0)
  end.
Definition encode_tok (t : ParaSplit.tok) : nat * (nat * (nat * nat)) :=
  let (c, w) := class_code (ParaSplit.tkind t) in (c, (sstart (ParaSplit.tspan t), (send (ParaSplit.tspan t), w))).

Definition run_doc (s : text) : option (list (nat * (nat * (nat * nat)))) :=
  match document_plain c12_ascii_uni s with
  | Ok ts => Some (map (fun t => encode_tok (to_ps t)) ts)
  | Panic _ => None
  end.
Definition run_raw (s : text) : option (list (nat * (nat * (nat * nat)))) :=
  match plain_parse c12_ascii_uni s with
  | Ok ts => Some (map (fun t => encode_tok (to_ps t)) ts)
  | Panic _ => None
  end.
