(* ParaSplit.v — model of the paragraph-local framework every rule runs in (property C12).
   Mirrors, as written:
     harper-core/src/token_string_ext.rs   iter_chunks / iter_sentences / iter_paragraphs, span() (hull)
     harper-core/src/token_kind.rs         is_sentence_terminator / is_chunk_terminator / is_paragraph_break
     harper-core/src/linting/lint_group.rs LintGroup::lint (struct rules on the whole document, then the
                                           pattern rules per chunk through the chunk cache)
   No proofs here.  Tokens are abstract: a span and a kind class (the iterators look at nothing else).
   The lexer and the condense passes are Model/Lexer.v + Model/Condense.v (property C02). *)
Require Import Base Overlap.

(* ---------- tokens ---------- *)
(* kind classes: exactly the distinctions the three iterators and the quote pairing make *)
Inductive kind :=
| KBreak                      (* TokenKind::ParagraphBreak *)
| KNewline                    (* TokenKind::Newline(_) (a single newline after newlines_to_breaks) *)
| KSpace                      (* TokenKind::Space(_) *)
| KWord                       (* TokenKind::Word(_) *)
| KNumber                     (* TokenKind::Number(_) *)
| KPeriod | KBang | KQuestion (* sentence terminators *)
| KComma | KColon             (* chunk terminators *)
| KQuote (twin : option nat)  (* Punctuation::Quote { twin_loc }: twin_loc is a TOKEN INDEX in the document *)
| KPunct                      (* every other Punctuation *)
| KOther.                     (* Unlintable, Url, EmailAddress, Hostname, Decade, Regexish *)

Record tok := mktok { tspan : span; tkind : kind }.

(* token_kind.rs:139  is_sentence_terminator *)
Definition is_sentence_terminator (k : kind) : bool :=
  match k with KPeriod | KBang | KQuestion => true | KBreak => true | _ => false end.
(* token_kind.rs:123  is_chunk_terminator *)
Definition is_chunk_terminator (k : kind) : bool :=
  if is_sentence_terminator k then true
  else match k with KComma | KQuote _ | KColon => true | _ => false end.
Definition is_paragraph_break (k : kind) : bool :=
  match k with KBreak => true | _ => false end.

(* moving a token list that was produced for a text D to its place behind a text P of n characters and
   k tokens: spans move by n characters, quote twins (token indices) by k tokens *)
Definition shift_kind (k : nat) (kd : kind) : kind :=
  match kd with KQuote (Some j) => KQuote (Some (j + k)) | other => other end.
Definition shift_tok (n k : nat) (t : tok) : tok :=
  mktok (push_by (tspan t) n) (shift_kind k (tkind t)).
Definition shift_lint (n : nat) (l : lint) : lint := mklint (push_by (lspan l) n) (lid l).

(* ---------- the iterators, as written (index lists and slices) ---------- *)
(* iter_X_indices: enumerate().filter(is_X).map(index) *)
Fixpoint term_indices (p : kind -> bool) (i : nat) (ts : list tok) : list nat :=
  match ts with
  | [] => []
  | t :: r => if p (tkind t) then i :: term_indices p (S i) r else term_indices p (S i) r
  end.

(* itertools tuple_windows::<(a, b)> *)
Definition windows2 {A} (l : list A) : list (A * A) :=
  match l with [] => [] | _ :: t => combine l t end.

(* last_X_index: rev().position(is_X).map(|i| len - i - 1) = the last element of the index list *)
Fixpoint last_opt {A} (l : list A) : option A :=
  match l with [] => None | [x] => Some x | _ :: t => last_opt t end.

Fixpoint map_res {A B} (f : A -> res B) (l : list A) : res (list B) :=
  match l with
  | [] => Ok []
  | x :: t => do y <- f x; do ys <- map_res f t; Ok (y :: ys)
  end.

(* the common body of iter_chunks / iter_paragraphs / iter_sentences (token_string_ext.rs:169-239):
     first = indices.next().map(|f| &self[0..=f])
     rest  = indices.tuple_windows().map(|(a, b)| &self[a + 1..=b])
     last  = match last_index { Some(l) => if l + 1 < len { Some(&self[l + 1..]) } else { None }, None => Some(self) }
   every slice is a checked operation *)
Definition iter_by_chk (p : kind -> bool) (ts : list tok) : res (list (list tok)) :=
  let idx := term_indices p 0 ts in
  do first <- match idx with
              | [] => Ok []
              | f :: _ => do s <- slice_chk ts 0 (S f); Ok [s]
              end;
  do rest <- map_res (fun ab => slice_chk ts (S (fst ab)) (S (snd ab))) (windows2 idx);
  do last <- match last_opt idx with
             | Some l => if S l <? length ts
                         then (do s <- slice_chk ts (S l) (length ts); Ok [s])
                         else Ok []
             | None => Ok [ts]
             end;
  Ok (first ++ rest ++ last).

(* the same with unchecked slices (equal to the checked one: ParaSplitProofs.iter_by_chk_ok) *)
Definition iter_by (p : kind -> bool) (ts : list tok) : list (list tok) :=
  let idx := term_indices p 0 ts in
  let first := match idx with [] => [] | f :: _ => [slice ts 0 (S f)] end in
  let rest := map (fun ab => slice ts (S (fst ab)) (S (snd ab))) (windows2 idx) in
  let last := match last_opt idx with
              | Some l => if S l <? length ts then [skipn (S l) ts] else []
              | None => [ts]
              end in
  first ++ rest ++ last.

Definition iter_chunks := iter_by is_chunk_terminator.
Definition iter_sentences := iter_by is_sentence_terminator.
Definition iter_paragraphs := iter_by is_paragraph_break.

(* the structural reading: cut after every terminator (what the index arithmetic computes, proved) *)
Fixpoint split_after (p : kind -> bool) (ts : list tok) : list (list tok) :=
  match ts with
  | [] => []
  | t :: r =>
      if p (tkind t) then [t] :: split_after p r
      else match split_after p r with
           | [] => [[t]]
           | c :: cs => (t :: c) :: cs
           end
  end.

(* ---------- [Token]::span(): the hull ---------- *)
(* flat_map(|v| [v.span.start, v.span.end]).minmax(); Span::new(min, max) is a checked operation *)
Definition endpoints (c : list tok) : list nat :=
  flat_map (fun t => [sstart (tspan t); send (tspan t)]) c.
Definition hull_chk (c : list tok) : res (option span) :=
  match endpoints c with
  | [] => Ok None
  | x :: xs => do s <- span_new (fold_left Nat.min xs x) (fold_left Nat.max xs x); Ok (Some s)
  end.
Definition hull (c : list tok) : option span :=
  match endpoints c with
  | [] => None
  | x :: xs => Some (mkspan (fold_left Nat.min xs x) (fold_left Nat.max xs x))
  end.

(* ---------- what a chunk function may read: the chunk's own data ---------- *)
(* spans relative to the chunk start; of a quote's twin_loc only whether it is set (it is a document-wide
   token index, no rule interprets its value: UnclosedQuotes tests is_none()) *)
Definition rel_kind (kd : kind) : kind :=
  match kd with KQuote (Some _) => KQuote (Some 0) | other => other end.
Definition rel_tok (s : nat) (t : tok) : tok :=
  mktok (mkspan (sstart (tspan t) - s) (send (tspan t) - s)) (rel_kind (tkind t)).
Definition rel_chunk (s : nat) (c : list tok) : list tok := map (rel_tok s) c.

(* a function of a token slice and the document source that only reads the slice's own data:
   result = (what g0 says about the relativised slice and its characters) moved to the slice's place *)
Definition lift (g0 : list tok -> text -> list lint) (c : list tok) (src : text) : list lint :=
  match hull c with
  | None => []
  | Some sp => map (shift_lint (sstart sp)) (g0 (rel_chunk (sstart sp) c) (slice src (sstart sp) (send sp)))
  end.

(* struct-rule schemas: `for x in document.iter_X() { lints.extend(f(x, source)) }` *)
Definition schema_rule (p : kind -> bool) (g0 : list tok -> text -> list lint)
           (ts : list tok) (src : text) : list lint :=
  flat_map (fun c => lift g0 c src) (iter_by p ts).

(* adjacent-token windows of width w: `tokens.windows(w)` / tuple_windows *)
Fixpoint windows (w : nat) (ts : list tok) : list (list tok) :=
  match ts with
  | [] => []
  | _ :: r => if w <=? length ts then firstn w ts :: windows w r else []
  end.
Definition has_break (c : list tok) : bool := existsb (fun t => is_paragraph_break (tkind t)) c.
(* a window rule that yields nothing for a window containing a ParagraphBreak *)
Definition window_rule (w : nat) (g0 : list tok -> text -> list lint) (ts : list tok) (src : text) : list lint :=
  flat_map (fun c => if has_break c then [] else lift g0 c src) (windows w ts).

(* ---------- the pattern-rule half of LintGroup::lint (lint_group.rs:401-437) ---------- *)
Fixpoint text_eqb (a b : text) : bool :=
  match a, b with
  | [], [] => true
  | x :: a', y :: b' => N.eqb x y && text_eqb a' b'
  | _, _ => false
  end.

Definition pull_lint (l : lint) (by_ : nat) : res lint :=
  do s <- pull_by (lspan l) by_; Ok (mklint s (lid l)).

(* the chunk cache: key = the chunk's characters (the configuration hash is constant during a run and
   omitted); an LruCache that is never full is an association list (eviction only turns hits into misses) *)
Definition cache := list (text * list lint).
Fixpoint lookup (k : text) (c : cache) : option (list lint) :=
  match c with
  | [] => None
  | (k', v) :: r => if text_eqb k k' then Some v else lookup k r
  end.

Section PatternHalf.
  (* everything the enabled pattern rules report for one chunk (run_on_chunk of each, concatenated), as a
     function of the chunk's own data: C12_pattern_rules_local holds for ANY such function *)
  Variable chunk_fn : list tok -> text -> list lint.

  (* run_on_chunk(linter, chunk, document.get_source()) in document coordinates *)
  Definition run_chunk_abs (c : list tok) (sp : span) (chars : text) : list lint :=
    map (shift_lint (sstart sp)) (chunk_fn (rel_chunk (sstart sp) c) chars).

  (* the loop body, cache included: pull_by / push_by are usize arithmetic (pull_by is checked) *)
  Fixpoint pat_loop (cch : cache) (chunks : list (list tok)) (src : text) : res (list lint * cache) :=
    match chunks with
    | [] => Ok ([], cch)
    | c :: rest =>
        do h <- hull_chk c;
        match h with
        | None => pat_loop cch rest src                                  (* `continue` *)
        | Some sp =>
            do chars <- get_content sp src;                              (* document.get_span_content *)
            do oc <- match lookup chars cch with
                     | Some hit => Ok (hit, cch)
                     | None =>
                         do relative <- map_res (fun l => pull_lint l (sstart sp)) (run_chunk_abs c sp chars);
                         Ok (relative, (chars, relative) :: cch)
                     end;
            do mr <- pat_loop (snd oc) rest src;
            Ok (map (shift_lint (sstart sp)) (fst oc) ++ fst mr, snd mr)
        end
    end.

  (* the cache-free reading *)
  Definition pat_spec (chunks : list (list tok)) (src : text) : list lint :=
    flat_map (fun c => lift chunk_fn c src) chunks.

  (* LintGroup::lint: struct rules (in BTreeMap order) on the whole document, then the pattern half *)
  Definition lint_group_chk (rules : list (list tok -> text -> list lint)) (cch : cache)
             (ts : list tok) (src : text) : res (list lint * cache) :=
    let structural := flat_map (fun r => r ts src) rules in
    do chunks <- iter_by_chk is_chunk_terminator ts;
    do pr <- pat_loop cch chunks src;
    Ok (structural ++ fst pr, snd pr).

  Definition lint_group (rules : list (list tok -> text -> list lint)) (ts : list tok) (src : text) : list lint :=
    flat_map (fun r => r ts src) rules ++ pat_spec (iter_chunks ts) src.
End PatternHalf.

(* ---------- linting/long_sentences.rs (as repaired by 1bab09f) ---------- *)
(* TokenKind::is_whitespace: Space(_) | Newline(_) *)
Definition is_ws_kind (k : kind) : bool := match k with KSpace | KNewline => true | _ => false end.
Definition is_word_kind (k : kind) : bool := match k with KWord => true | _ => false end.
(* sentence.iter_words().count() *)
Definition count_words (s : list tok) : nat := length (filter (fun t => is_word_kind (tkind t)) s).
(* sentence.iter().position(|t| !t.kind.is_whitespace()).unwrap_or(0) *)
Fixpoint first_visible_opt (s : list tok) : option nat :=
  match s with
  | [] => None
  | t :: r => if negb (is_ws_kind (tkind t)) then Some 0
              else match first_visible_opt r with Some i => Some (S i) | None => None end
  end.
Definition first_visible (s : list tok) : nat := match first_visible_opt s with Some i => i | None => 0 end.
Definition long_sentence_limit : nat := 40.
(* one sentence: `sentence[first..].span().unwrap()` when it has more than 40 words
   (the slice is a checked operation, `unwrap` panics on None, Span::new inside span() is checked) *)
Definition long_sentence (s : list tok) : res (list span) :=
  if long_sentence_limit <? count_words s then
    do sl <- slice_chk s (first_visible s) (length s);
    do h <- hull_chk sl;
    match h with Some sp => Ok [sp] | None => Panic PUnwrap end
  else Ok [].
(* the code before 1bab09f: the hull of the WHOLE sentence, leading whitespace included *)
Definition long_sentence_old (s : list tok) : res (list span) :=
  if long_sentence_limit <? count_words s then
    do h <- hull_chk s;
    match h with Some sp => Ok [sp] | None => Panic PUnwrap end
  else Ok [].
(* LongSentences::lint: for sentence in document.iter_sentences() *)
Definition long_sentences (ts : list tok) : res (list span) :=
  do ss <- iter_by_chk is_sentence_terminator ts;
  do ls <- map_res long_sentence ss;
  Ok (concat ls).

(* ---------- executable instances for the correspondence (extracted) ---------- *)
Definition kind_of_code (c : nat) : kind :=
  match c with
  | 0 => KBreak | 1 => KNewline | 2 => KSpace | 3 => KWord | 4 => KNumber
  | 5 => KPeriod | 6 => KBang | 7 => KQuestion | 8 => KComma | 9 => KColon
  | 10 => KQuote None | 11 => KPunct | _ => KOther
  end.
Definition toks_of (l : list (nat * (nat * nat))) : list tok :=
  map (fun x => mktok (mkspan (fst (snd x)) (snd (snd x))) (kind_of_code (fst x))) l.

Definition opt_span_pair (o : option span) : option (nat * nat) :=
  match o with Some s => Some (sstart s, send s) | None => None end.

(* result of one correspondence case: None = the model panics; otherwise chunk lengths of the three
   iterators, the hull of every chunk, the hull of the whole list *)
Definition run_iter (l : list (nat * (nat * nat)))
  : option (list nat * (list nat * (list nat * (list (option (nat * nat)) * option (nat * nat))))) :=
  let ts := toks_of l in
  match iter_by_chk is_chunk_terminator ts, iter_by_chk is_sentence_terminator ts,
        iter_by_chk is_paragraph_break ts, hull_chk ts with
  | Ok cs, Ok ss, Ok ps, Ok h =>
      match map_res hull_chk cs with
      | Ok hs => Some (map (@length tok) cs, (map (@length tok) ss, (map (@length tok) ps,
                        (map opt_span_pair hs, opt_span_pair h))))
      | Panic _ => None
      end
  | _, _, _, _ => None
  end.

(* a concrete pattern rule for the correspondence with the real LintGroup: one lint per Word token of
   the chunk (span = the word, id = its length) — harness: SequencePattern::default().then_any_word() *)
Definition word_chunk_fn (c : list tok) (_ : text) : list lint :=
  flat_map (fun t => match tkind t with
                     | KWord => [mklint (tspan t) (send (tspan t) - sstart (tspan t))]
                     | _ => []
                     end) c.
(* a concrete struct rule of the sentence schema: one lint per sentence with a hull (span = the hull,
   id = number of tokens) — harness: a Linter iterating document.iter_sentences() *)
Definition sentence_g0 (c : list tok) (chars : text) : list lint :=
  [mklint (mkspan 0 (length chars)) (length c)].

(* one LintGroup::lint call on (tokens, source) with the cache carried over from earlier calls *)
Definition run_group (cch : cache) (l : list (nat * (nat * nat))) (src : text)
  : option (list (nat * (nat * nat)) * cache) :=
  match lint_group_chk word_chunk_fn [schema_rule is_sentence_terminator sentence_g0] cch (toks_of l) src with
  | Ok (ls, c') => Some (map (fun x => (lstart x, (lend x, lid x))) ls, c')
  | Panic _ => None
  end.

(* LongSentences on a token list given as (class code, start, end): the spans of its lints, None = panic *)
Definition run_long (l : list (nat * (nat * nat))) : option (list (nat * nat)) :=
  match long_sentences (toks_of l) with
  | Ok ls => Some (map (fun sp => (sstart sp, send sp)) ls)
  | Panic _ => None
  end.
