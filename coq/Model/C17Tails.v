(* C17Tails.v — the two lexer tails that Number.v leaves as parameters, as executable models (no proofs here):
     url_tail   U rest         = lexing/url.rs, lex_ip_schemepart after its `//` test: the `cursor` it ends with
                                 (Number.lex_url adds the 2 and `sep + 1`); `rest` is the text behind "//"
     email_tail U src at_loc   = lexing/email_address.rs, lex_email_address after the `@` was found at `at_loc`:
                                 validate_local_part, lex_hostname on the domain, `domain_part_len == 0 -> None`
   written line by line from the Rust, quirks included:
     * lex_hostport: when the host name is followed by ':' the result is the index of the first NON-DIGIT counted
       from the START of the host/port text (so `example.com:80` yields 0), not the end of the port;
     * lex_login checks the user name on source[0..cred_end], i.e. INCLUDING ':' and the password, and ':' is not a
       uchar: every login with a password is rejected (login_end = 0);
     * the path loop steps over a '/' before it looks at what follows, and keeps that step when nothing follows.
   Index safety (these functions are total here; the Rust cannot panic): lex_xchar / lex_uchar read source[0] only
   under `cursor != source.len()`; lex_escaped tests `source.len() < 3` first; validate_local_part unwraps
   first()/last() only after the emptiness test; every slice bound is a position found inside the slice or its length. *)
Require Import Base Overlap Suggestion Tables_number Number.
From Coq Require Import List Arith NArith Bool.
Import ListNotations.

Section Tails.
  Variable U : uni.

  (* ---- url.rs: character classes ---- *)
  Definition is_reserved (c : N) : bool := memN c [59; 47; 63; 58; 64; 38; 61; 35]%N.      (* ; / ? : @ & = # *)
  Definition is_safe (c : N) : bool := memN c [36; 45; 95; 46; 43]%N.                     (* $ - _ . + *)
  Definition is_extra (c : N) : bool := memN c [33; 42; 39; 40; 41; 44]%N.                (* ! * ' ( ) , *)
  Definition is_unreserved (c : N) : bool := is_ascii_alpha c || is_ascii_digit c || is_safe c || is_extra c.

  (* lex_escaped *)
  Definition lex_escaped (t : text) : option nat :=
    match t with
    | c0 :: c1 :: c2 :: _ => if (c0 =? 37)%N && is_ascii_hexdigit c1 && is_ascii_hexdigit c2 then Some 3 else None
    | _ => None                                                       (* source.len() < 3 *)
    end.
  (* lex_uchar / lex_xchar on a non-empty slice *)
  Definition lex_uchar (t : text) : option nat :=
    match t with c :: _ => if is_unreserved c then Some 1 else lex_escaped t | [] => None end.
  Definition lex_xchar (t : text) : option nat :=
    match t with c :: _ => if is_reserved c then Some 1 else lex_uchar t | [] => None end.

  (* lex_xchar_string: `while cursor != len { let Some(next) = lex_xchar(..) else break; cursor += next }` *)
  Fixpoint lex_xchar_string (fuel : nat) (t : text) : nat :=
    match fuel with
    | 0 => 0
    | S f => match t with
             | [] => 0
             | _ :: _ => match lex_xchar t with
                         | Some k => k + lex_xchar_string f (skipn k t)
                         | None => 0
                         end
             end
    end.
  (* is_uchar_plus_string *)
  Fixpoint is_uchar_plus_string (fuel : nat) (t : text) : bool :=
    match fuel with
    | 0 => true
    | S f => match t with
             | [] => true
             | c :: r => if memN c [59; 63; 38; 61]%N then is_uchar_plus_string f r           (* ; ? & = *)
                         else match lex_uchar t with
                              | Some k => is_uchar_plus_string f (skipn k t)
                              | None => false
                              end
             end
    end.

  (* lex_hostport *)
  Definition lex_hostport (t : text) : option nat :=
    match lex_hostname t with
    | None => None
    | Some hostname_end =>
        match nth_error t hostname_end with
        | Some c => if (c =? 58)%N
                    then Some (match position (fun c => negb (is_ascii_digit c)) t with Some i => i | None => length t end)
                    else Some hostname_end
        | None => Some hostname_end
        end
    end.

  (* lex_login *)
  Definition lex_login (t : text) : option nat :=
    let limit := match position (u_white U) t with Some i => i | None => length t end in
    let start :=
      match position (N.eqb 64) (firstn limit t) with
      | Some cred_end =>
          let cred := firstn cred_end t in
          let pass_ok := match position (N.eqb 58) cred with
                         | Some pass_beg => is_uchar_plus_string (S (length t)) (skipn (S pass_beg) cred)
                         | None => true
                         end in
          if negb pass_ok then None
          else if negb (is_uchar_plus_string (S (length t)) cred) then None
          else Some (S cred_end)
      | None => Some 0
      end in
    match start with
    | None => None
    | Some hostport_start =>
        match lex_hostport (skipn hostport_start t) with
        | Some e => Some (hostport_start + e)
        | None => None
        end
    end.

  (* the path loop of lex_ip_schemepart: `rest` is the whole text behind "//", `cursor` the current index *)
  Fixpoint path_loop (fuel : nat) (rest : text) (cursor : nat) : nat :=
    match fuel with
    | 0 => cursor
    | S f =>
      match nth_error rest cursor with
      | None => cursor                                               (* cursor == rest.len() *)
      | Some c =>
        if negb (c =? 47)%N then cursor
        else let cursor := S cursor in
             let next_idx := lex_xchar_string (S (length rest)) (skipn cursor rest) in
             if next_idx =? 0 then cursor else path_loop f rest (cursor + next_idx)
      end
    end.

  Definition url_tail (rest : text) : nat :=
    let login_end := match lex_login rest with Some e => e | None => 0 end in
    path_loop (S (length rest)) rest login_end.

  (* ---- email_address.rs ---- *)
  Definition valid_unquoted_character (c : N) : bool :=
    is_ascii_alnum c || (127 <? c)%N
    || memN c [33; 35; 36; 37; 38; 39; 42; 43; 45; 47; 61; 63; 94; 95; 96; 123; 124; 125; 126; 46]%N.
  Fixpoint no_double_dot (t : text) : bool :=
    match t with
    | c :: ((n :: _) as r) => negb ((c =? 46)%N && (n =? 46)%N) && no_double_dot r
    | _ => true
    end.
  (* the `while let Some(c) = iter.next()` loop over a quoted local part *)
  Fixpoint quoted_ok (fuel : nat) (t : text) : bool :=
    match fuel with
    | 0 => true
    | S f => match t with
             | [] => true
             | c :: r =>
                 if (c =? 92)%N then quoted_ok f (tl r)                                      (* '\\': iter.next() *)
                 else if negb (valid_unquoted_character c)
                         && negb (memN c [40; 41; 44; 58; 59; 60; 62; 64; 91; 93; 32]%N) then false
                 else quoted_ok f r
             end
    end.
  Definition validate_local_part (lp : text) : bool :=
    if (64 <? length lp) || (length lp =? 0) then false else
    let is_quoted := match lp, last_error lp with
                     | f :: _, Some l => (f =? 34)%N && (l =? 34)%N
                     | _, _ => false
                     end in
    if is_quoted && (length lp <? 2) then false else
    if is_quoted then quoted_ok (S (length lp)) (firstn (length lp - 1 - 1) (skipn 1 lp))
    else forallb valid_unquoted_character lp
         && negb (match lp with c :: _ => (c =? 46)%N | [] => false end
                  || match last_error lp with Some c => (c =? 46)%N | None => false end)
         && no_double_dot lp.

  Definition email_tail (src : text) (at_loc : nat) : option nat :=
    if negb (validate_local_part (firstn at_loc src)) then None else
    match lex_hostname (skipn (S at_loc) src) with
    | None => None
    | Some d => if d =? 0 then None else Some (at_loc + 1 + d)
    end.
End Tails.

(* the model with nothing left open but the Unicode predicates: raw lexing and document + rule *)
Definition run_lex_full (U : uni) (src : text) := run_lex U (url_tail U) email_tail src.
Definition run_doc_full (U : uni) (src : text) := run_doc U (url_tail U) email_tail src.
