(* Lexer.v — executable model of harper-core/src/lexing/{mod,url,email_address,hostname}.rs and of
   parsers/plain_english.rs (PlainEnglish::parse).  No proofs here.

   Conventions (DESIGN §3): char = N (code point), text = list N, usize = nat.
   * Unicode class predicates are NOT modelled: they are the fields of a record `uni` that every model
     function takes as its first argument.  For extraction the driver builds the record from range tables
     the harness dumps from Rust's own `char` methods (so model and implementation use the same Unicode
     data); the proofs only use the few laws stated as Section hypotheses in Proofs/LexerProofs.v, and the
     harness checks those laws over all code points.
   * A sub-lexer receives the REMAINING text `&source[cursor..]` and answers `Some (next_index, kind)` /
     `None`, exactly like `Option<FoundToken>`.  All indexing inside the Rust sub-lexers is guarded by a
     preceding length test in the same expression (`i >= l || src[i] ..`, `source.len() < 3 || ..`,
     `source.get(5)`, `first()?`); the model merges each guard with its index by pattern matching, so the
     sub-lexers are total functions.  The operations that are NOT locally guarded — `Span::new` and the
     `panic!()` of the parse loop — are checked operations in the `res` monad (plain_parse).
   * lex_number: the candidate string only contains ASCII digits and `. e E + -`, so `s.len()` (bytes)
     equals the number of chars, and `str::parse::<f64>` is modelled by the grammar Rust's dec2flt accepts
     restricted to that alphabet (`inf`/`nan` are unreachable):
        Float ::= Sign? ( Digit+ | Digit+ '.' Digit* | Digit* '.' Digit+ ) ( [eE] Sign? Digit+ )?
     The VALUE is kept exact as sign, decimal mantissa and decimal exponent (n_neg, n_mant, n_exp10): the
     f64 the implementation stores is `round_to_nearest_even (mant * 10^exp10)`, and that rounding function
     is abstract here (the driver realises it with strtod only to compare bit patterns).
     Since b5c1992 a candidate is only accepted when the parsed f64 `is_finite()`.  dec2flt rounds correctly
     (nearest, ties to even), f64::MAX = (2^53-1)*2^971 has an odd significand, so the rounded value is
     finite exactly when  mant * 10^exp10 < 2^1024 - 2^970  (the midpoint between f64::MAX and 2^1024 already
     rounds to infinity): `f64_finite`, decided exactly on the exact value. *)
Require Import Base Tables_lexer.
From Coq Require Import ZArith.

(* ---------- Unicode predicates: parameters of the model ---------- *)
Record uni := mkuni {
  u_whitespace : N -> bool;     (* char::is_whitespace *)
  u_numeric    : N -> bool;     (* char::is_numeric *)
  u_alphabetic : N -> bool;     (* char::is_alphabetic *)
  u_lingual    : N -> bool      (* CharExt::is_english_lingual (char_ext.rs) *)
}.
(* char::is_alphanumeric is defined as is_alphabetic() || is_numeric() *)
Definition u_alphanumeric (u : uni) (c : N) : bool := u_alphabetic u c || u_numeric u c.

(* ---------- ASCII predicates: concrete ---------- *)
Definition in_range (lo hi c : N) : bool := (lo <=? c)%N && (c <=? hi)%N.
Definition is_ascii_digit (c : N) : bool := in_range 48 57 c.
Definition is_ascii_upper (c : N) : bool := in_range 65 90 c.
Definition is_ascii_lower (c : N) : bool := in_range 97 122 c.
Definition is_ascii_alphabetic (c : N) : bool := is_ascii_upper c || is_ascii_lower c.
Definition is_ascii_alphanumeric (c : N) : bool := is_ascii_alphabetic c || is_ascii_digit c.
Definition is_ascii_hexdigit (c : N) : bool := is_ascii_digit c || in_range 65 70 c || in_range 97 102 c.
Definition mem_n (c : N) (l : list N) : bool := existsb (N.eqb c) l.
Definition ceq (a b : N) : bool := N.eqb a b.

(* ---------- tokens ---------- *)
Record number := mknumber {
  n_neg : bool; n_mant : N; n_exp10 : Z;      (* exact value  (-1)^neg * mant * 10^exp10  (hex: exp10 = 0) *)
  n_suffix : option num_suffix;
  n_radix : nat;                              (* 10 or 16 *)
  n_precision : nat }.

(* TokenKind.  Word carries dictionary metadata in Rust (filled at the end of Document::parse); it does
   not influence any span and is not modelled. *)
Inductive tkind :=
| KWord
| KPunct (p : punct)
| KDecade
| KNumber (n : number)
| KSpace (n : nat)
| KNewline (n : nat)
| KEmail
| KUrl
| KHostname
| KUnlintable
| KParagraphBreak
| KRegexish.

Record token := mktok { tspan : span; tkind_of : tkind }.
Definition tstart (t : token) : nat := sstart (tspan t).
Definition tend (t : token) : nat := send (tspan t).

(* ---------- iterator helpers ---------- *)
Section Iter.
  Context {A : Type}.
  (* Iterator::position *)
  Fixpoint position (p : A -> bool) (l : list A) : option nat :=
    match l with
    | [] => None
    | x :: t => if p x then Some 0 else match position p t with Some i => Some (S i) | None => None end
    end.
  (* take_while(p).count()  ==  position(|c| !p(c)).unwrap_or(len) *)
  Fixpoint count_while (p : A -> bool) (l : list A) : nat :=
    match l with
    | [] => 0
    | x :: t => if p x then S (count_while p t) else 0
    end.
  (* .iter().enumerate().rev().find(p) : index of the LAST element satisfying p *)
  Fixpoint rposition (p : A -> bool) (l : list A) : option nat :=
    match l with
    | [] => None
    | x :: t => match rposition p t with
                | Some i => Some (S i)
                | None => if p x then Some 0 else None
                end
    end.
End Iter.

(* ---------- lex_word ---------- *)
Definition lex_word (u : uni) (src : text) : option (nat * tkind) :=
  let e := count_while (fun c => u_lingual u c || is_ascii_digit c) src in
  if e =? 0 then None else Some (e, KWord).

(* ---------- lex_number ---------- *)
Fixpoint span_digits (l : text) : text * text :=
  match l with
  | [] => ([], [])
  | c :: t => if is_ascii_digit c then let (d, r) := span_digits t in (c :: d, r) else ([], l)
  end.
Definition digit_val (c : N) : N := (c - 48)%N.
Definition digits_val (ds : text) : N := fold_left (fun acc c => (acc * 10 + digit_val c)%N) ds 0%N.

Definition split_sign (l : text) : bool * text :=
  match l with
  | c :: t => if ceq c 43 then (false, t) else if ceq c 45 then (true, t) else (false, l)
  | [] => (false, [])
  end.

(* the exponent after [eE]: Sign? Digit+ and nothing else *)
Definition parse_exp (l : text) : option Z :=
  let (neg, l1) := split_sign l in
  let (ds, r) := span_digits l1 in
  match ds, r with
  | _ :: _, [] => Some (if neg then (- Z.of_N (digits_val ds))%Z else Z.of_N (digits_val ds))
  | _, _ => None
  end.

(* str::parse::<f64> on a string over { 0-9 . e E + - } : (neg, mantissa, exponent) *)
Definition parse_f64 (s : text) : option (bool * N * Z) :=
  let (neg, s1) := split_sign s in
  let (ip, r1) := span_digits s1 in
  let '(fp, r2) := match r1 with
                   | c :: t => if ceq c 46 then span_digits t else ([], r1)
                   | [] => ([], [])
                   end in
  match ip, fp with
  | [], [] => None
  | _, _ =>
      let mant := digits_val (ip ++ fp) in
      let e0 := (- Z.of_nat (length fp))%Z in
      match r2 with
      | [] => Some (neg, mant, e0)
      | c :: t => if ceq c 101 || ceq c 69 then
                    match parse_exp t with Some e => Some (neg, mant, (e + e0)%Z) | None => None end
                  else None
      end
  end.

(* f64::is_finite of the correctly rounded value of mant * 10^ex  (see the header) *)
Definition f64_overflow_bound : N := (2 ^ 1024 - 2 ^ 970)%N.
Definition f64_finite (mant : N) (ex : Z) : bool :=
  if (mant =? 0)%N then true else
  match ex with
  | Z0 => (mant <? f64_overflow_bound)%N
  | Zpos e =>
      (* 10^309 > bound and mant >= 1: no need to compute huge powers *)
      if (309 <=? Npos e)%N then false else (mant * 10 ^ Npos e <? f64_overflow_bound)%N
  | Zneg e =>
      if (mant <? f64_overflow_bound)%N then true
      else if (N.size mant <=? Npos e)%N then true            (* 10^e >= 2^e > mant *)
      else (mant <? f64_overflow_bound * 10 ^ Npos e)%N
  end.

(* s.parse::<f64>().ok().filter(|n| n.is_finite()) *)
Definition parse_finite (s : text) : option (bool * N * Z) :=
  match parse_f64 s with
  | Some (neg, mant, ex) => if f64_finite mant ex then Some (neg, mant, ex) else None
  | None => None
  end.

(* s.chars().rev().position(|c| c == '.').unwrap_or_default() *)
Definition precision_of (s : text) : nat :=
  match position (ceq 46) (rev s) with Some i => i | None => 0 end.

(* while !s.is_empty() { if parse ok and finite return; s.pop() } : n = current length of s *)
Fixpoint longest_float (n : nat) (s : text) : option (nat * tkind) :=
  match n with
  | 0 => None
  | S m =>
      let p := firstn n s in
      match parse_finite p with
      | Some (neg, mant, ex) => Some (n, KNumber (mknumber neg mant ex None 10 (precision_of p)))
      | None => longest_float m s
      end
  end.

Definition is_float_char (c : N) : bool := is_ascii_digit c || mem_n c float_extra_chars.

Definition lex_number (u : uni) (src : text) : option (nat * tkind) :=
  match src with
  | [] => None
  | c0 :: _ =>
      if negb (u_numeric u c0) then None else
      let limit := count_while is_float_char src in
      match rposition is_ascii_digit (firstn limit src) with
      | None => None
      | Some e => let s := firstn (S e) src in longest_float (length s) s
      end
  end.

(* ---------- lex_regexish ---------- *)
(* the `loop { .. continue .. break }`; `rest` = src[i..] *)
Fixpoint regex_loop (u : uni) (rest : text) (i : nat) : option nat :=
  match rest with
  | [] => None
  | c :: r1 =>
      if negb (u_alphanumeric u c) then None else
      match r1 with
      | [] => None                                   (* i >= l: continue, next round returns None *)
      | d :: r2 =>
          if ceq d 45 then
            match r2 with
            | [] => None
            | e :: r3 =>
                if negb (u_alphanumeric u e) then None else
                match r3 with
                | [] => None
                | x :: _ => if ceq x 93 then Some (i + 3 + 1) else regex_loop u r3 (i + 3)
                end
            end
          else if ceq d 93 then Some (i + 1 + 1) else regex_loop u r1 (i + 1)
      end
  end.

Definition lex_regexish (u : uni) (src : text) : option (nat * tkind) :=
  match src with
  | c :: r => if ceq c 91 then
                match regex_loop u r 1 with Some n => Some (n, KRegexish) | None => None end
              else None
  | [] => None
  end.

(* ---------- lex_hex_number ---------- *)
Definition hex_val (c : N) : N :=
  if is_ascii_digit c then (c - 48)%N else if in_range 65 70 c then (c - 55)%N else (c - 87)%N.
Definition hex_digits_val (ds : text) : N := fold_left (fun acc c => (acc * 16 + hex_val c)%N) ds 0%N.
Definition two_pow_64 : N := 18446744073709551616%N.

Definition lex_hex_number (u : uni) (src : text) : option (nat * tkind) :=
  match src with
  | c0 :: c1 :: c2 :: _ =>
      if negb (ceq c0 48) || negb (ceq c1 120) || negb (is_ascii_hexdigit c2) then None else
      let body := skipn 2 src in
      let k := count_while is_ascii_hexdigit body in
      let stops_ok := match nth_error body k with
                      | Some next => negb (u_alphanumeric u next)     (* break / return None *)
                      | None => true
                      end in
      if negb stops_ok then None else
      let v := hex_digits_val (firstn k body) in
      (* u64::from_str_radix fails only on overflow here *)
      if (v <? two_pow_64)%N then Some (k + 2, KNumber (mknumber false v 0%Z None 16 0)) else None
  | _ => None
  end.

(* ---------- lex_long_decade ---------- *)
Definition lex_long_decade (u : uni) (src : text) : option (nat * tkind) :=
  match src with
  | c0 :: c1 :: c2 :: c3 :: c4 :: rest =>
      if negb (ceq c0 49) && negb (ceq c0 50) then None else
      if negb (is_ascii_digit c1) then None else
      if negb (is_ascii_digit c2) then None else
      if negb (ceq c3 48) then None else
      if negb (ceq c4 115) then None else
      match rest with
      | c5 :: _ => if u_alphanumeric u c5 then None else Some (5, KDecade)
      | [] => Some (5, KDecade)
      end
  | _ => None
  end.

(* ---------- lex_plural_digit ---------- *)
(* since 7202fd4 the look-ahead after the `s` is char::is_alphanumeric (was is_ascii_alphanumeric) *)
Definition lex_plural_digit (u : uni) (src : text) : option (nat * tkind) :=
  match src with
  | [] => None
  | c0 :: r1 =>
      if negb (is_ascii_alphanumeric c0) then None else
      let '(i, r2) := match r1 with
                      | c :: t => if ceq c 39 then (2, t) else (1, r1)
                      | [] => (1, r1)
                      end in
      match r2 with
      | c :: t => if ceq c 115 then
                    match t with
                    | [] => Some (i + 1, KWord)
                    | d :: _ => if negb (u_alphanumeric u d) then Some (i + 1, KWord) else None
                    end
                  else None
      | [] => None
      end
  end.

(* ---------- newlines, tabs, spaces ---------- *)
Definition lex_newlines (src : text) : option (nat * tkind) :=
  let n := count_while (ceq 10) src in if n =? 0 then None else Some (n, KNewline n).
Definition lex_tabs (src : text) : option (nat * tkind) :=
  let n := count_while (ceq 9) src in if n =? 0 then None else Some (n, KSpace (n * 2)).
Definition lex_spaces (src : text) : option (nat * tkind) :=
  let n := count_while (ceq 32) src in if n =? 0 then None else Some (n, KSpace n).

(* ---------- punctuation ---------- *)
Definition lex_quote (src : text) : option (nat * tkind) :=
  match src with
  | c :: _ => if mem_n c quote_chars then Some (1, KPunct (PQuote None)) else None
  | [] => None
  end.
Definition lex_punctuation (src : text) : option (nat * tkind) :=
  match lex_quote src with
  | Some f => Some f
  | None => match src with
            | c :: _ => match punct_from_char c with Some p => Some (1, KPunct p) | None => None end
            | [] => None
            end
  end.

(* ---------- hostname.rs ---------- *)
(* lex_hostname walks `source.split('.')`, counting one per character and one per separator, and returns
   the index of the first character that is neither [A-Za-z0-9-] nor '.', or the length: a scan. *)
Definition host_char (c : N) : bool := is_ascii_alphanumeric c || ceq c 45 || ceq c 46.
Definition lex_hostname (src : text) : option nat :=
  match src with
  | [] => None
  | c :: _ => if is_ascii_alphanumeric c then Some (count_while host_char src) else None
  end.
Definition lex_hostname_token (src : text) : option (nat * tkind) :=
  match lex_hostname src with
  | None => None
  | Some len =>
      if len <=? 1 then None else
      if negb (mem_n 46 (slice src 1 (len - 1))) then None else
      match nth_error src (len - 1) with
      | Some c => if ceq c 46 then None else Some (len, KHostname)
      | None => Some (len, KHostname)
      end
  end.

(* ---------- url.rs ---------- *)
Definition valid_scheme_char (c : N) : bool :=
  is_ascii_alphabetic c || is_ascii_digit c || mem_n c url_scheme_extra_chars.
Definition is_reserved (c : N) : bool := mem_n c url_reserved_chars.
Definition is_unreserved (c : N) : bool :=
  is_ascii_alphabetic c || is_ascii_digit c || mem_n c url_safe_chars || mem_n c url_extra_chars.

(* is_uchar_plus_string: [;?&=] | unreserved | %XX, to the end *)
Fixpoint is_uchar_plus_string (l : text) : bool :=
  match l with
  | [] => true
  | c :: t =>
      if mem_n c url_uchar_plus_chars then is_uchar_plus_string t
      else if is_unreserved c then is_uchar_plus_string t
      else match t with
           | a :: b :: t' => if ceq c 37 && is_ascii_hexdigit a && is_ascii_hexdigit b
                             then is_uchar_plus_string t' else false
           | _ => false
           end
  end.

(* lex_xchar_string: number of leading characters made of reserved | unreserved | %XX *)
Fixpoint lex_xchar_string (l : text) : nat :=
  match l with
  | [] => 0
  | c :: t =>
      if is_reserved c then S (lex_xchar_string t)
      else if is_unreserved c then S (lex_xchar_string t)
      else match t with
           | a :: b :: t' => if ceq c 37 && is_ascii_hexdigit a && is_ascii_hexdigit b
                             then 3 + lex_xchar_string t' else 0
           | _ => 0
           end
  end.

Definition lex_hostport (src : text) : option nat :=
  match lex_hostname src with
  | None => None
  | Some hostname_end =>
      match nth_error src hostname_end with
      | Some c => if ceq c 58 then Some (count_while is_ascii_digit src)   (* sic: scans from 0 *)
                  else Some hostname_end
      | None => Some hostname_end
      end
  end.

Definition lex_login (u : uni) (src : text) : option nat :=
  let limit := count_while (fun c => negb (u_whitespace u c)) src in
  let start :=
    match position (ceq 64) (firstn limit src) with
    | Some cred_end =>
        let pass_ok := match position (ceq 58) (firstn cred_end src) with
                       | Some pass_beg => is_uchar_plus_string (slice src (pass_beg + 1) cred_end)
                       | None => true
                       end in
        if negb pass_ok then None
        else if negb (is_uchar_plus_string (firstn cred_end src)) then None
        else Some (cred_end + 1)
    | None => Some 0
    end in
  match start with
  | None => None
  | Some hostport_start =>
      match lex_hostport (skipn hostport_start src) with
      | Some hostport_end => Some (hostport_start + hostport_end)
      | None => None
      end
  end.

(* the `while cursor != rest.len()` path loop; r = rest[cursor..]; fuel >= |r| always suffices *)
Fixpoint path_loop (fuel : nat) (r : text) (cursor : nat) : nat :=
  match fuel with
  | 0 => cursor
  | S f =>
      match r with
      | [] => cursor
      | c :: t =>
          if negb (ceq c 47) then cursor else
          let n := lex_xchar_string t in
          if n =? 0 then cursor + 1 else path_loop f (skipn n t) (cursor + 1 + n)
      end
  end.

Definition lex_ip_schemepart (u : uni) (src : text) : option nat :=
  match src with
  | a :: b :: rest =>
      if ceq a 47 && ceq b 47 then
        let login_end := match lex_login u rest with Some n => n | None => 0 end in
        Some (path_loop (length rest) (skipn login_end rest) login_end + 2)
      else None
  | _ => None
  end.

Definition lex_url (u : uni) (src : text) : option (nat * tkind) :=
  match position (ceq 58) src with
  | None => None
  | Some sep =>
      if negb (forallb valid_scheme_char (firstn sep src)) then None else
      match lex_ip_schemepart u (skipn (sep + 1) src) with
      | Some url_end => Some (url_end + sep + 1, KUrl)
      | None => None
      end
  end.

(* ---------- email_address.rs ---------- *)
Definition valid_unquoted_character (c : N) : bool :=
  is_ascii_upper c || is_ascii_lower c || is_ascii_digit c || (127 <? c)%N || mem_n c email_other_chars.

Fixpoint no_double_dot (l : text) : bool :=
  match l with
  | a :: ((b :: _) as t) => if ceq a 46 && ceq b 46 then false else no_double_dot t
  | _ => true
  end.

Fixpoint quoted_ok (l : text) : bool :=
  match l with
  | [] => true
  | c :: t =>
      if ceq c 92 then match t with [] => true | _ :: t' => quoted_ok t' end
      else if valid_unquoted_character c || mem_n c email_also_valid_chars then quoted_ok t
      else false
  end.

Definition validate_local_part (lp : text) : bool :=
  if (64 <? length lp) || (length lp =? 0) then false else
  let first_q := match lp with c :: _ => ceq c 34 | [] => false end in
  let last_q := match rev lp with c :: _ => ceq c 34 | [] => false end in
  let is_quoted := first_q && last_q in
  if is_quoted && (length lp <? 2) then false else
  if is_quoted then quoted_ok (slice lp 1 (length lp - 1))
  else
    forallb valid_unquoted_character lp
    && negb (match lp with c :: _ => ceq c 46 | [] => false end)
    && negb (match rev lp with c :: _ => ceq c 46 | [] => false end)
    && no_double_dot lp.

Definition lex_email_address (u : uni) (src : text) : option (nat * tkind) :=
  let limit := match src with
               | c :: _ => if ceq c 34 then length src
                           else count_while (fun c => negb (u_whitespace u c)) src
               | [] => 0
               end in
  match rposition (ceq 64) (firstn limit src) with
  | None => None
  | Some at_loc =>
      if negb (validate_local_part (firstn at_loc src)) then None else
      match lex_hostname (skipn (at_loc + 1) src) with
      | None => None
      | Some dl => if dl =? 0 then None else Some (at_loc + 1 + dl, KEmail)
      end
  end.

(* ---------- lex_catch, lex_token ---------- *)
Definition lex_catch (src : text) : option (nat * tkind) := Some (1, KUnlintable).

Definition or_else {A} (a : option A) (b : option A) : option A :=
  match a with Some _ => a | None => b end.

(* the dispatch order (the translator re-checks it against lex_token's array on every run) *)
Definition lex_token (u : uni) (src : text) : option (nat * tkind) :=
  or_else (lex_regexish u src)
 (or_else (lex_punctuation src)
 (or_else (lex_tabs src)
 (or_else (lex_spaces src)
 (or_else (lex_newlines src)
 (or_else (lex_plural_digit u src)
 (or_else (lex_hex_number u src)
 (or_else (lex_long_decade u src)
 (or_else (lex_number u src)
 (or_else (lex_url u src)
 (or_else (lex_email_address u src)
 (or_else (lex_hostname_token src)
 (or_else (lex_word u src)
          (lex_catch src))))))))))))).

(* ---------- PlainEnglish::parse ---------- *)
(* rest = source[cursor..].  `cursor >= source.len()` ends the loop, also when a lexer overshoots
   (skipn yields []).  lex_token = None is the `panic!()`; Span::new is checked. *)
Fixpoint plain_loop (u : uni) (fuel cursor : nat) (rest : text) : res (list token) :=
  match rest with
  | [] => Ok []
  | _ :: _ =>
      match fuel with
      | 0 => Panic PFuel
      | S f =>
          match lex_token u rest with
          | None => Panic PUnwrap
          | Some (n, k) =>
              do sp <- span_new cursor (cursor + n);
              do tl <- plain_loop u f (cursor + n) (skipn n rest);
              Ok (mktok sp k :: tl)
          end
      end
  end.

Definition plain_parse (u : uni) (s : text) : res (list token) := plain_loop u (length s) 0 s.
