(* C11ChunkKey.v — the chunk component of the cache key of LintGroup::lint made CONCRETE: the cached dispatch of
   Model/C11Cache.v instantiated with C05's chunk / token model (Model/Cache.v, imported, not edited).

     let Some(chunk_span) = chunk.span() else { continue };                         Cache.hull_of / Cache.chunk_of
     let chunk_chars = document.get_span_content(&chunk_span);                      Cache.c_chars
     for token in chunk { token.kind.hash(..); (token.span.start - chunk_span.start).hash(..);
                          (token.span.end - chunk_span.start).hash(..) }            Cache.rel_toks (checked) -> tok_hash
     let key = (chunk_chars.into(), hash_one(&self.config), token_hash);            (k_key d ch, cfg_hash cfg)

   A document is Cache.doc: the chunks of iter_chunks() in order, `None` = a chunk without span (the loop continues).
   A pattern rule is what run_on_chunk computes from what it is handed, up to translation (C05's `pattern_rel`, per
   rule): chunk characters and the chunk's tokens with spans relative to the chunk start |-> lints relative to the
   chunk start; the lints in document space are these pushed by the chunk start.  (That a real rule is such a function
   is C05's rule_fun, monitored there; C03_rebase_in_bounds is why the relative lints exist.)
   No proofs here (Proofs/C11ChunkKeyProofs.v). *)
Require Import Base LintGroupCfg C11Cache.
Require Cache.
From Coq Require Import List NArith Bool Arith.
Import ListNotations.

Section ConcreteKey.
  Variables body kind : Type.
  Notation toks := (list (Cache.tok kind)).
  Definition kchunk := option (Cache.chunk kind).
  Definition kdoc := Cache.doc kind.
  Definition kprule := text -> toks -> list (glint body).
  Variable tok_hash : toks -> N.

  Definition k_chunks (d : kdoc) : list kchunk := Cache.d_chunks d.
  Definition k_start (oc : kchunk) : option nat :=
    match oc with None => None | Some ch => Some (Cache.c_start ch) end.
  Definition k_run_pat (r : kprule) (_ : kdoc) (oc : kchunk) : list (glint body) :=
    match oc with
    | None => []
    | Some ch => map (push_lint (Cache.c_start ch)) (r (Cache.c_chars ch) (Cache.spec_rel ch))
    end.
  (* the chunk component of the key: (chunk characters, hash of the relative tokens) *)
  Definition k_key (_ : kdoc) (oc : kchunk) : text * N :=
    match oc with
    | None => ([], 0%N)
    | Some ch => (Cache.c_chars ch, tok_hash (Cache.spec_rel ch))
    end.
  (* the same as the code computes it: two checked usize subtractions per token *)
  Definition k_key_checked (oc : kchunk) : res (text * N) :=
    match oc with
    | None => Ok ([], 0%N)
    | Some ch => do rt <- Cache.rel_toks (Cache.c_start ch) (Cache.c_toks ch); Ok (Cache.c_chars ch, tok_hash rt)
    end.
  Definition kk_eqb (a b : text * N) : bool := Cache.text_eqb (fst a) (fst b) && N.eqb (snd a) (snd b).
End ConcreteKey.

Arguments k_chunks {kind} d.
Arguments k_start {kind} oc.
Arguments k_run_pat {body kind} r _ oc.
Arguments k_key {kind} tok_hash _ oc.
Arguments k_key_checked {kind} tok_hash oc.

(* the documents a history lints, in order *)
Fixpoint hist_docs {doc CK HK} (h : list (hop doc CK HK)) : list doc :=
  match h with
  | [] => []
  | HSetCfg _ :: t => hist_docs t
  | HLint d _ :: t => d :: hist_docs t
  end.

(* ---- the data instance for the correspondence (stream Q): token kinds are interned by the harness as
   2*id + (1 if TokenKind::is_word() else 0); documents are built by Cache.doc_of from the source and the token
   slices of iter_chunks(); struct rules = their lints per document (d_rest = document number); a pattern rule is the
   harness' test rule `CountPat` + `TPH`: every word token whose characters are `w` is reported with its own span ---- *)
Definition slice (chars : text) (s : span) : text := firstn (send s - sstart s) (skipn (sstart s) chars).
Definition word_rule (w : text) (tag : nat) : kprule nat N := fun chars rt =>
  flat_map (fun t => if N.odd (fst t) && Cache.text_eqb (slice chars (snd t)) w
                     then [mkglint (snd t) tag] else []) rt.

Definition qsrule := list (list (glint nat)).
Definition q_run_struct (r : qsrule) (d : kdoc N) : list (glint nat) := nth (N.to_nat (Cache.d_rest d)) r [].
Inductive qadd :=
| QStruct (k : key) (r : qsrule)
| QPattern (k : key) (w : text) (tag : nat).
Definition qgroup := group qsrule (kprule nat N).
Definition q_build (adds : list qadd) : qgroup :=
  fold_left (fun g a => match a with
                        | QStruct k r => fst (g_add g k r)
                        | QPattern k w tag => fst (g_add_pattern g k (word_rule w tag))
                        end) adds (g_empty qsrule (kprule nat N)).
Definition qcache := cache nat (text * N) (list (list N)).

Fixpoint q_docs (i : nat) (srcs : list (text * list (list (Cache.tok N)))) : res (list (kdoc N)) :=
  match srcs with
  | [] => Ok []
  | (src, chunks) :: t =>
      do d <- Cache.doc_of src chunks [] (N.of_nat i);
      do r <- q_docs (S i) t;
      Ok (d :: r)
  end.

(* per lint step: the lints (or the panic), the chunk keys that MISSED (in order), the number of enabled pattern rules *)
Fixpoint q_run (tok_hash : list (Cache.tok N) -> N) (g : qgroup) (docs : list (kdoc N)) (steps : list hstep)
    (cfg : config) (c : qcache) : list (res (list (glint nat)) * list (text * N) * nat) :=
  match steps with
  | [] => []
  | SCfg o :: t => q_run tok_hash g docs t (reg (exec_cop [cfg] (retarget o)) 0) c
  | SLint i :: t =>
      let d := nth i docs (Cache.mkdoc [] [] 0%N) in
      let r := lint_group_c nat (kdoc N) (kchunk N) qsrule (kprule nat N) k_chunks k_start q_run_struct k_run_pat
                 (text * N) (list (list N)) kk_eqb hk_eqb_calls (k_key tok_hash) hash_calls (g_with_cfg g cfg) d c [] in
      let fresh := firstn (length (fst r) - length c) (fst r) in
      (snd r, rev (map (fun e => fst (fst e)) fresh),
       length (filter (fun e => is_rule_enabled cfg (fst e)) (g_patterns g))) :: q_run tok_hash g docs t cfg (fst r)
  end.
Definition run_token_history (tok_hash : list (Cache.tok N) -> N) (adds : list qadd)
    (srcs : list (text * list (list (Cache.tok N)))) (steps : list hstep)
  : res (list (res (list (glint nat)) * list (text * N) * nat)) :=
  do docs <- q_docs 0 srcs;
  let g := q_build adds in Ok (q_run tok_hash g docs steps (g_cfg g) []).
