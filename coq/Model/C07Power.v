(* C07Power.v — save_dict under a POWER LOSS (DictIO.crash_states is a process kill: what was handed to the kernel
   is in the file, `ESync` is a no-op there).  Here the file system keeps, per inode, the bytes that are DURABLE and
   the bytes processes SEE (page cache), and a journal of name-space operations that are visible but not yet durable:
     write / flush    append to the visible bytes of the open inode
     sync_all         the open inode's durable bytes := its visible bytes           (fsync(fd): data only — the
                      directory is not synced by save_dict)
     create           a fresh inode; the link  name -> inode  is a pending name-space operation (O_TRUNC of an
                      existing file is modelled the same way: old bytes or the new file, depending on what commits)
     rename a b       visible at once; pending in the journal
   A power loss keeps the durable name space plus ANY PREFIX of the pending name-space operations (journals commit in
   order), and of every inode its durable bytes followed by whatever `lossy durable visible` allows.  The positive
   theorem holds for EVERY loss function that keeps fully synced data (synced_safe); the negative one needs only
   that unsynced data may be lost entirely (the classic zero-length file after rename without fsync).
   Bytes still in the BufWriter die with the process.  Directories (EMkdir) carry no data and are ignored.
   No proofs here. *)
Require Import Base DictIO.

Record inode := mkino { i_dur : text; i_vol : text }.
Inductive nsop := NsLink (p : path) (i : nat) | NsRename (a b : path).
Definition nsmap := list (path * nat).

Fixpoint ns_get (p : path) (m : nsmap) : option nat :=
  match m with
  | [] => None
  | (q, i) :: t => if path_eqb p q then Some i else ns_get p t
  end.
Definition ns_del (p : path) (m : nsmap) : nsmap := filter (fun e => negb (path_eqb p (fst e))) m.
Definition ns_set (p : path) (i : nat) (m : nsmap) : nsmap := (p, i) :: ns_del p m.
Definition ns_apply (m : nsmap) (o : nsop) : nsmap :=
  match o with
  | NsLink p i => ns_set p i m
  | NsRename a b => match ns_get a m with Some i => ns_set b i (ns_del a m) | None => m end
  end.

Record pfs := mkpfs {
  p_inodes : list inode;      (* inode number = index *)
  p_vis : nsmap;              (* the name space processes see *)
  p_durns : nsmap;            (* the name space on the platter *)
  p_pend : list nsop          (* visible but not yet durable, oldest first *)
}.
Definition ino_at (i : nat) (s : pfs) : inode := nth i (p_inodes s) (mkino [] []).
Fixpoint ino_upd (i : nat) (f : inode -> inode) (l : list inode) : list inode :=
  match l, i with
  | [], _ => []
  | x :: r, O => f x :: r
  | x :: r, S j => x :: ino_upd j f r
  end.

(* a file system at rest: every file durable *)
Definition pfs_of (files : list (path * text)) : pfs :=
  let ns := combine (map fst files) (seq 0 (length files)) in
  mkpfs (map (fun f => mkino (snd f) (snd f)) files) ns ns [].

(* (file system, inode of the open file, bytes in the BufWriter) *)
Definition pstate := (pfs * option nat * text)%type.

Definition pstep (st : pstate) (e : effect) : option pstate :=
  let '(s, fd, buf) := st in
  match e with
  | EMkdir _ => Some st
  | ECreate p =>
      let i := length (p_inodes s) in
      Some (mkpfs (p_inodes s ++ [mkino [] []]) (ns_set p i (p_vis s)) (p_durns s) (p_pend s ++ [NsLink p i]), Some i, [])
  | EWrite _ b => Some (s, fd, buf ++ b)
  | EFlush _ =>
      match fd with
      | Some i => Some (mkpfs (ino_upd i (fun n => mkino (i_dur n) (i_vol n ++ buf)) (p_inodes s))
                          (p_vis s) (p_durns s) (p_pend s), fd, [])
      | None => None
      end
  | ESync _ =>
      match fd with
      | Some i => Some (mkpfs (ino_upd i (fun n => mkino (i_vol n) (i_vol n)) (p_inodes s))
                          (p_vis s) (p_durns s) (p_pend s), fd, buf)
      | None => None
      end
  | ERename a b =>
      match ns_get a (p_vis s) with
      | Some i => Some (mkpfs (p_inodes s) (ns_set b i (ns_del a (p_vis s))) (p_durns s) (p_pend s ++ [NsRename a b]), fd, buf)
      | None => None
      end
  end.

(* the file systems a power loss can hit: before the first effect and after each one *)
Fixpoint preach (st : pstate) (effs : list effect) : list pfs :=
  fst (fst st) ::
  match effs with
  | [] => []
  | e :: r => match pstep st e with Some st' => preach st' r | None => [] end
  end.
Fixpoint prun (st : pstate) (effs : list effect) : pstate :=
  match effs with
  | [] => st
  | e :: r => match pstep st e with Some st' => prun st' r | None => st end
  end.

Definition ns_after (k : nat) (s : pfs) : nsmap := fold_left ns_apply (firstn k (p_pend s)) (p_durns s).

Section Power.
  (* what can be read from an inode after the power came back, given its durable and its visible bytes *)
  Variable lossy : text -> text -> list content.

  (* `c` can be found under the name q after a power loss in state s *)
  Definition pcrash_obs (s : pfs) (q : path) (c : option content) : Prop :=
    exists k, k <= length (p_pend s) /\
      match ns_get q (ns_after k s) with
      | None => c = None
      | Some i => exists x, In x (lossy (i_dur (ino_at i s)) (i_vol (ino_at i s))) /\ c = Some x
      end.

  (* fully synced data survives *)
  Definition synced_safe : Prop := forall d c, In c (lossy d d) -> c = Clean d.
  (* unsynced data may be lost altogether *)
  Definition may_lose_all : Prop := forall d v, In (Clean d) (lossy d v).
End Power.

(* a concrete loss function: the durable bytes followed by any prefix of the unsynced ones (whole characters, or
   whole characters and a cut one) *)
Definition lossy_prefix (d v : text) : list content :=
  match strip_prefix d v with
  | Some rest => prefix_variants d rest
  | None => [Clean d]
  end.

(* save_dict WITHOUT the sync_all (what the protocol would be without `write.get_ref().sync_all().await?`) *)
Definition save_effects_nosync (p : path) (ws : list word) : list effect :=
  EMkdir (parent p) :: ECreate (TmpP p) :: write_effects (TmpP p) ws ++ [EFlush (TmpP p); ERename (TmpP p) p].

(* the order of the system calls of one save as strace shows them, checked by the harness against save_effects:
   o = openat(<name>.tmp, O_CREAT|O_TRUNC), w = write(fd), s = fsync(fd), r = rename(<name>.tmp, name) *)
Inductive sysc := SOpen | SWrite | SFsync | SRename.
Definition sysc_of (e : effect) : list sysc :=
  match e with
  | ECreate _ => [SOpen]
  | EFlush _ => [SWrite]          (* the BufWriter hands its bytes over in one or more write calls, the last at flush *)
  | ESync _ => [SFsync]
  | ERename _ _ => [SRename]
  | _ => []
  end.
(* open, one or more writes, ONE fsync, then the rename, nothing after it *)
Fixpoint order_okb (phase : nat) (l : list sysc) : bool :=
  match l with
  | [] => Nat.eqb phase 4
  | SOpen :: r => Nat.eqb phase 0 && order_okb 1 r
  | SWrite :: r => (Nat.eqb phase 1 || Nat.eqb phase 2) && order_okb 2 r
  | SFsync :: r => Nat.eqb phase 2 && order_okb 3 r
  | SRename :: r => Nat.eqb phase 3 && order_okb 4 r
  end.
Definition x_order_ok (l : list sysc) : bool := order_okb 0 l.
