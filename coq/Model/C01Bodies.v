(* C01Bodies.v (phase 4) — the two `impl PatternLinter for` rule bodies the literal-use table of C01Len.v cannot
   speak about, written after the Rust line by line, every index / slice / unwrap / get_content a checked
   operation of Base.v:

     ModalOf::match_to_lint                          harper-core/src/linting/modal_of.rs  (as of 7a5ed39)
     ProperNounCapitalizationLinter::match_to_lint   harper-core/src/linting/proper_noun_capitalization_linters.rs
       with PatternMap::lookup                       harper-core/src/patterns/pattern_map.rs

   and the slice arithmetic of one struct rule (`impl Linter`, not PatternLinter), RepeatedWords::lint:
   `&chunk[idx_a + 1..*idx_b]` for neighbouring word indices.
   tools/tables/bodyshapes.py pins the Rust text of these bodies (normalised) and raises when it changes.
   No proofs here. *)
Require Import Base Overlap TokenSeq Pattern.

Definition w_of : text := ch [111; 102].

(* slice.first().unwrap() / slice.last().unwrap() *)
Definition first_chk {A} (l : list A) : res A := match l with [] => Panic PUnwrap | x :: _ => Ok x end.
Definition last_chk {A} (l : list A) : res A := match l with [] => Panic PUnwrap | x :: r => Ok (last r x) end.

(* iter_word_indices(): self.iter().enumerate().filter(|(_, t)| t.kind.is_word()).map(|(i, _)| i) *)
Definition word_indices (mt : list tok) : list nat := term_indices (flag F_WORD) mt.

(* ---------- ModalOf::match_to_lint: None = `return None`, Some sp = the span of the lint ---------- *)
Definition modal_of_select (mt : list tok) (src : text) (nwords : nat) : res (option nat) :=
  match nwords with
  | 2 => Ok (Some 0)                                              (* 2 => 0 *)
  | 3 =>
      do lt <- last_chk mt;                                       (* matched_toks.last().unwrap() *)
      do c <- get_content (tspan lt) src;                         (* .span.get_content(source_chars) *)
      if negb (text_eqb c w_of) then Ok None                      (* if w3_text.as_str() != "of" { return None } *)
      else
        do ft <- first_chk mt;                                    (* matched_toks.first().unwrap() *)
        if flag F_ADJ ft || flag F_DET ft then Ok None            (* is_adjective() || is_determiner() *)
        else Ok (Some 1)
  | _ => Ok None                                                  (* _ => return None *)
  end.

Definition modal_of_body (mt : list tok) (src : text) : res (option span) :=
  let words := word_indices mt in                                 (* let words: Vec<usize> = … .collect() *)
  do sel <- modal_of_select mt src (length words);
  match sel with
  | None => Ok None
  | Some modal_word =>
      do modal_index <- nth_chk words modal_word;                 (* words[modal_word] *)
      do of_index <- nth_chk words (modal_word + 1);              (* words[modal_word + 1] *)
      do sl <- slice_chk mt modal_index (S of_index);             (* matched_toks[modal_index..=of_index] *)
      do sp <- hull_unwrap sl;                                    (* .span().unwrap() *)
      do t <- nth_chk mt modal_index;                             (* matched_toks[modal_index] *)
      do _c <- get_content (tspan t) src;                         (* .span.get_content_string(source_chars) *)
      do _d <- get_content sp src;                                (* span_modal_of.get_content(source_chars) *)
      Ok (Some sp)
  end.

(* ---------- PatternMap::lookup: the index of the first row whose key matches non-zero ---------- *)
Section Lookup.
  Variable leaf : nat -> tok -> text -> res bool.
  Variable oracle : nat -> list tok -> text -> res bool.

  Fixpoint lookup_go (rows : list pat) (toks : list tok) (src : text) (i : nat) : res (option nat) :=
    match rows with
    | [] => Ok None
    | q :: r =>
        do len <- matches leaf oracle q toks src;                 (* row.key.matches(tokens, source) *)
        if negb (len =? 0) then Ok (Some i) else lookup_go r toks src (S i)
    end.
  Definition pattern_map_lookup (rows : list pat) (toks : list tok) (src : text) : res (option nat) :=
    lookup_go rows toks src 0.

  (* for (err_token, correct_token) in matched_tokens.iter().zip(canonical_case.fat_tokens()) {
       let err_chars = err_token.span.get_content(source);
       if err_chars != correct_token.content { broken = true; break; } } *)
  Fixpoint zip_broken (mt : list tok) (canon : list text) (src : text) : res bool :=
    match mt, canon with
    | t :: mr, c :: cr =>
        do e <- get_content (tspan t) src;
        if negb (text_eqb e c) then Ok true else zip_broken mr cr src
    | _, _ => Ok false
    end.

  (* ProperNounCapitalizationLinter::match_to_lint; `canon`: the token contents of the canonical documents, one
     list per row of the map *)
  Definition proper_noun_body (rows : list pat) (canon : list (list text)) (mt : list tok) (src : text)
    : res (option span) :=
    do row <- pattern_map_lookup rows mt src;
    match row with
    | None => Panic PUnwrap                                       (* .lookup(matched_tokens, source).unwrap() *)
    | Some i =>
        do broken <- zip_broken mt (nth i canon []) src;
        if negb broken then Ok None                               (* if !broken { return None } *)
        else match hull mt with                                   (* span: matched_tokens.span()? *)
             | None => Ok None
             | Some r => do sp <- r; Ok (Some sp)
             end
    end.
End Lookup.

(* the patterns ExactPhrase::from_document builds: a flat SequencePattern whose parts look at the tokens they
   consume only (AnyCapitalization / then_whitespace / a closure on one token) *)
Definition leaf_local (p : pat) : bool :=
  match p with
  | PPred _ | PFlag _ | PExactWord _ | PAny | PWhitespace | PAnyCap _ | PWordSet _ => true
  | _ => false
  end.
Definition row_local (p : pat) : bool :=
  match p with
  | PExactPhrase ps | PSeq ps => forallb leaf_local ps
  | _ => leaf_local p
  end.

(* ---------- a struct rule (`impl Linter`, not PatternLinter): RepeatedWords::lint, the slice between neighbours ----------
   let mut iter = chunk.iter_word_indices().zip(chunk.iter_words()).peekable();
   while let (Some((idx_a, tok_a)), Some((idx_b, tok_b))) = (iter.next(), iter.peek()) {
       … let intervening_tokens = &chunk[idx_a + 1..*idx_b]; … }
   i.e. every pair of NEIGHBOURS of the word-index sequence (the pairs `tuple_windows()` yields). *)
Fixpoint pairs_adjacent (l : list nat) : list (nat * nat) :=
  match l with
  | a :: ((b :: _) as r) => (a, b) :: pairs_adjacent r
  | _ => []
  end.
Definition between_words_use (chunk : list tok) (ab : nat * nat) : res unit :=
  do _x <- nth_chk chunk (fst ab);                                (* tok_a = chunk[idx_a]  (iter_words) *)
  do _y <- nth_chk chunk (snd ab);                                (* tok_b *)
  do _s <- slice_chk chunk (fst ab + 1) (snd ab);                 (* &chunk[idx_a + 1..*idx_b] *)
  Ok tt.
Fixpoint all_uses (chunk : list tok) (l : list (nat * nat)) : res unit :=
  match l with
  | [] => Ok tt
  | ab :: r => do _u <- between_words_use chunk ab; all_uses chunk r
  end.
Definition repeated_words_uses (chunk : list tok) : res unit :=
  all_uses chunk (pairs_adjacent (word_indices chunk)).

(* ---------- ExactPhrase::from_document: one part per fat token of the canonical document ---------- *)
Inductive fkind :=
| FWord (w : text)        (* TokenKind::Word(_)        => then(AnyCapitalization::new(content)) *)
| FSpace                  (* TokenKind::Space(_)       => then_whitespace() *)
| FPunct (i : nat)        (* TokenKind::Punctuation(p) => then(closure on ONE token), closure number i *)
| FParaBreak              (* TokenKind::ParagraphBreak => then_whitespace() *)
| FNumber (i : nat)       (* TokenKind::Number(n)      => then(closure on ONE token) *)
| FOther.                 (* _ => panic!("Fell out of expected document formats.") *)
Fixpoint exact_phrase_parts (l : list fkind) : res (list pat) :=
  match l with
  | [] => Ok []
  | k :: r =>
      do p <- match k with
              | FWord w => Ok (PAnyCap w)
              | FSpace | FParaBreak => Ok PWhitespace
              | FPunct i | FNumber i => Ok (PPred i)
              | FOther => Panic PUnwrap
              end;
      do ps <- exact_phrase_parts r; Ok (p :: ps)
  end.
Definition exact_phrase_of (l : list fkind) : res pat := do ps <- exact_phrase_parts l; Ok (PExactPhrase ps).

(* ---------- a PatternLinter rule with a modelled body, through `impl Linter for PatternLinter` ----------
   for chunk in document.iter_chunks() { run_on_chunk: for every match, match_to_lint(&chunk[a..b], source) } *)
Section RuleLint.
  Variable leaf : nat -> tok -> text -> res bool.
  Variable oracle : nat -> list tok -> text -> res bool.
  Variable body : list tok -> text -> res (option span).
  Fixpoint bodies_on (chunk : list tok) (src : text) (rs : list (nat * nat)) : res (list (option span)) :=
    match rs with
    | [] => Ok []
    | (a, b) :: r =>
        do sl <- slice_chk chunk a b;
        do x <- body sl src;
        do tl <- bodies_on chunk src r;
        Ok (x :: tl)
    end.
  Fixpoint rule_lint_chunks (p : pat) (cs : list (list tok)) (src : text) : res (list (option span)) :=
    match cs with
    | [] => Ok []
    | c :: r =>
        do rs <- run_on_chunk leaf oracle p c src;
        do x <- bodies_on c src rs;
        do tl <- rule_lint_chunks p r src;
        Ok (x ++ tl)
    end.
  Definition rule_lint (p : pat) (toks : list tok) (src : text) : res (list (option span)) :=
    do cs <- iter_chunks toks; rule_lint_chunks p cs src.
End RuleLint.
