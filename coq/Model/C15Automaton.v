(* C15Automaton.v — an executable model of what FstDictionary::fuzzy_match asks of its two third-party crates:
   `fst::Map::search_with_state(&dfa).into_stream()` with a `levenshtein_automata` DFA.  No proofs here.

   The Levenshtein automaton of a query x, as a deterministic automaton over characters, has as its state after
   reading a prefix p the Wagner–Fischer row  [lev (firstn i x) p | i = 0..|x|]  (levenshtein_automata's parametric
   DFA stores this row relative to the bound: cells beyond the bound are indistinguishable).  `la_step` is the row
   recurrence (EditDistance.next_row), `la_distance` is DFA::distance (Exact(e) for e <= bound, AtLeast(bound+1)
   otherwise, here None), `la_can_match` is fst::Automaton::can_match (some cell is still within the bound).
   fst's stream walks the keys in order and abandons a key at the first prefix whose state cannot match any more
   (`la_walk`: None = abandoned); a key that is walked to its end is emitted with its value (= index) and state iff
   the state is a match.  Proofs/C15AutomatonProofs.v proves `la_search = spec_stream lev`, i.e. this product
   automaton SATISFIES the stream contract the FST theorems were stated under; what remains assumed about the
   crates is that their stream is this one (monitored line by line: the `A` cases of the correspondence). *)
Require Import Base EditDistance DictModel Fuzzy.

Definition la_start (x : text) : list nat := seq 0 (S (length x)).

(* the first cell of a row is the number of characters read so far *)
Definition la_step (x : text) (row : list nat) (c : char) : list nat := next_row x row (S (hd 0 row)) c.

Definition la_can_match (d : nat) (row : list nat) : bool := existsb (fun v => v <=? d) row.

Definition la_distance (d : nat) (row : list nat) : option nat :=
  let e := last row 0 in if e <=? d then Some e else None.

Fixpoint la_walk (x : text) (d : nat) (row : list nat) (w : text) : option (list nat) :=
  match w with
  | [] => Some row
  | c :: w' => let row' := la_step x row c in
               if la_can_match d row' then la_walk x d row' w' else None
  end.

(* the automaton run without pruning (DFA::eval) *)
Definition la_run (x w : text) : list nat := fold_left (la_step x) w (la_start x).

Definition la_search (words : list (text * meta)) (x : text) (d : nat) : list (nat * nat) :=
  flat_map (fun iw => match la_walk x d (la_start x) (fst (snd iw)) with
                      | Some row => match la_distance d row with Some e => [(fst iw, e)] | None => [] end
                      | None => []
                      end)
           (enum_from 0 words).
