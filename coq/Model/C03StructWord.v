(* C03StructWord.v (phase 7) — the last struct rule with a premise, SentenceCapitalization:
       if let Some(first_word) = sentence.first_non_whitespace() {
           if !first_word.kind.is_word() { continue; }
           ..  Lint { span: first_word.span.with_len(1), .. }
   `T.span.with_len(1)` (C03StructRoots.DWithLen1) lies inside the document iff T.span.start < |source|, which holds when T is a
   NON-EMPTY token inside the source.  Two readings of the source are modelled here:
     (a) every token of the document is non-empty (Document::new_plain_english: the tokens TILE the text — C02) — then every parsed
         source (all but DUnknown) is classified: `dsrc_classified_ne`; `plain_dtoks` = document.tokens of a plain-English document,
         i.e. Condense.document_plain (the C02 model of Document::new_plain_english) under ANY encoding of the token kinds;
     (b) only WORD tokens are known to be non-empty (the other front-ends: C02's TokInv allows zero-width Newline / ParagraphBreak
         tokens): `eval_dsrc_w` evaluates DWithLen1 only on a token the predicate `isw` accepts — the guard
         `if !first_word.kind.is_word() { continue; }`, pinned by tools/tables/c03structroots.py in `struct_word_guards`.
   No proofs here. *)
Require Import Base Cache C03LintGroup C03Roots C03StructRoots.
Require Lexer Condense.
From Coq Require Import List Arith NArith Bool String.
Import ListNotations.

(* ---------- (a) classification when every token the rule can reach is non-empty ---------- *)
Definition dsrc_classified_ne (a : dsrc) : bool := match a with DUnknown => false | _ => true end.
Definition dsite_classified_ne (s : dsite) : bool := dsrc_classified_ne (d_src s) && droot_classified (d_root s).
Definition drow_classified_ne (r : drow) : bool :=
  forallb dsite_classified_ne (d_sites r) && negb (match d_sites r with [] => true | _ => false end).

(* document.tokens of Document::new_plain_english(l_src d): the C02 model of the lexer and the condensing passes; `enc` = how the
   kind, flags and identity of a token are encoded (arbitrary: the span sources never read them) *)
Definition plain_ctoks (enc : Lexer.token -> pkind) (ts : list Lexer.token) : list (Cache.tok pkind) :=
  map (fun t => (enc t, Lexer.tspan t)) ts.
Definition plain_dtoks (u : Lexer.uni) (enc : Lexer.token -> pkind) : ldoc pkind -> list (Cache.tok pkind) :=
  fun d => match Condense.document_plain u (l_src d) with Ok ts => plain_ctoks enc ts | Panic _ => [] end.

(* ---------- (b) the guarded source: with_len(1) only on a token that `isw` accepts ---------- *)
Section Guarded.
  Variable kind : Type.
  Variable isw : kind -> bool.               (* first_word.kind.is_word() *)
  Notation toks := (list (Cache.tok kind)).

  Definition eval_dsrc_w (ts : toks) (dyn : nat -> nat) (a : dsrc) : option span :=
    match a with
    | DWithLen1 =>
        match nth_error ts (dyn 0) with
        | Some t => if isw (fst t) then Some (with_len (snd t) 1) else None     (* `continue` *)
        | None => None
        end
    | _ => eval_dsrc ts dyn a
    end.

  Definition struct_wrule_w (dtoks : ldoc kind -> toks) (srcs : list dsrc) (sel : dsel kind) : wrule kind :=
    fun t d =>
      flat_map (fun c : nat * (nat -> nat) * N =>
                  let '(i, dyn, payload) := c in
                  match nth_error srcs i with
                  | None => []
                  | Some a => match eval_dsrc_w (dtoks d) dyn a with Some s => [mkclint s payload] | None => [] end
                  end) (sel t d).
End Guarded.
Arguments eval_dsrc_w {kind}.
Arguments struct_wrule_w {kind}.

(* a row whose every with_len(1) site is recorded as guarded by is_word() in the generated list of (rule, expression) *)
Definition drow_guarded (guards : list (string * string)) (r : drow) : bool :=
  forallb (fun s => match d_src s with
                    | DWithLen1 => existsb (fun g => String.eqb (fst g) (d_name r) && String.eqb (snd g) (d_expr s)) guards
                    | _ => true
                    end) (d_sites r).
