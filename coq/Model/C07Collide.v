(* C07Collide.v — the two open collision findings as decidable classes.
     F20  file_dict_name: the components of the path, each followed by '%', are concatenated without escaping '%'.
          pct_split cuts every component at its '%' characters: two paths get the same dictionary file exactly when
          their pct_split is the same (C07_f20_class).
     F15  WordId is the hash of the lower-cased, apostrophe-normalised spelling: a dictionary keeps ONE spelling per id,
          the one added last.  last_same_id finds it (C07_f15_reload_class).
   No proofs here. *)
Require Import Base DictIO.

(* the pieces of the components between '%' characters (a component without '%' is one piece) *)
Definition pct_split (segs : list (list N)) : list (list N) := flat_map (split_on PCT []) segs.

Fixpoint lweqb (a b : list (list N)) : bool :=
  match a, b with
  | [], [] => true
  | x :: a', y :: b' => weqb x y && lweqb a' b'
  | _, _ => false
  end.
(* do two (decoded, absolute) paths share their file dictionary?  the harness's classifier of F20 *)
Definition x_f20_collide (p q : list N) : bool := lweqb (pct_split (components p)) (pct_split (components q)).

Section Collide.
  Variable is_lower : N -> bool.
  Variable lower : N -> list N.
  (* the spelling of id k that a dictionary holds after the words `ws` were added in this order on top of it:
     the LAST one with that id *)
  Definition last_same_id (k : word) (ws : list word) : option word :=
    find (fun x => weqb (word_id is_lower lower x) k) (rev ws).
End Collide.
