(* C03Blanket.v (phase 7) — the whole-document rules LintGroup registers that are NOT `impl Linter for X` rows of the struct table:
   (1) pattern rules registered through `LintGroup::add` (the `linters` map, not the chunk cache): they are whole-document
       rules by the blanket impl of pattern_linter.rs
           impl<L: PatternLinter> Linter for L { fn lint(&mut self, document) {
               for chunk in document.iter_chunks() { lints.extend(run_on_chunk(self, chunk, source)); } lints } }
       — in new_curated: insert_struct_rule!(TheHowWhy), insert_struct_rule!(WidelyAccepted), and every
       `group.add(name, Box::new(MapPhraseLinter::new_closed_compound(..)))` of closed_compounds.rs;
   (2) merge_linters!(X => A, B, ..): `lints.extend(self.a.lint(document)); ..; remove_overlaps(&mut lints); lints` where A, B are
       pattern rules (blanket impl again) — HopHope, CompoundNouns, PronounContraction, LetsConfusion.
   `l_chunks d` is document.iter_chunks() (the same list LintGroup::lint's own chunk loop walks: C03LintGroup.lg_lint).
   run_on_chunk on an empty chunk returns at once (`tok_cursor >= chunk.len()`): no lint.  No proofs here. *)
Require Import Base Cache C03LintGroup.
From Coq Require Import List Arith NArith.
Import ListNotations.

Section Blanket.
  Variable kind : Type.

  Definition blanket_wrule (p : prule kind) : wrule kind :=
    fun t d => flat_map (fun ts : list (Cache.tok kind) => match ts with [] => [] | _ => p t (l_src d) ts end) (l_chunks d).

  (* `keep` = remove_overlaps on the collected lints (C13 models and decides it; here: any function that only drops lints) *)
  Definition merged_wrule (keep : list clint -> list clint) (rs : list (wrule kind)) : wrule kind :=
    fun t d => keep (flat_map (fun r : wrule kind => r t d) rs).
End Blanket.
Arguments blanket_wrule {kind}.
Arguments merged_wrule {kind}.
