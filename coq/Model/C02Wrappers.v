(* C02Wrappers.v — executable models of the two wrapper parsers (no proofs here):
     IsolateEnglish::parse      harper-core/src/parsers/isolate_english.rs
        + TokenStringExt::iter_chunks (token_string_ext.rs) + TokenKind::is_chunk_terminator (token_kind.rs)
        + language_detection::is_likely_english (language_detection.rs)
     CollapseIdentifiers::parse harper-core/src/parsers/collapse_identifiers.rs
        + the pattern WORD_OR_NUMBER = Seq [any_word; Repeating (Seq [case_separator; any_word]) 0]
        + PatternExt::find_all_matches (= Condense.find_all_matches)
        + VecExt::remove_indices (= Overlap.remove_indices) after `.sorted().unique()`
   Both wrap an inner parser: the model takes the inner parser's token vector.  The dictionary is the
   parameter `dict : text -> bool` (= Dictionary::contains_word).  Index, slice, `- 1`, Span::new and
   get_content are the checked operations of Base.v.
   The float comparisons of is_likely_english are modelled by the exact rational comparisons
     (punctuation as f32 * 1.25) > valid as f32     as   5 * punctuation > 4 * valid
     (valid as f64 / total as f64) < 0.7            as   total <> 0 /\ 10 * valid < 7 * total
   (0/0 is NaN and NaN < 0.7 is false); they agree with the f32 / f64 evaluation as long as the counts stay
   below 2^22 tokens (every product then is exact in f32, and a quotient v/t <> 7/10 differs from it by at
   least 1/(10 t), far above the f64 rounding error) — trusted base, compared on every I case. *)
Require Import Base Overlap Tables_lexer Lexer Condense.

(* ---------- token_kind.rs ---------- *)
Definition is_sentence_terminator (k : tkind) : bool :=
  match k with
  | KPunct PPeriod | KPunct PBang | KPunct PQuestion => true
  | KParagraphBreak => true
  | _ => false
  end.
Definition is_chunk_terminator (k : tkind) : bool :=
  if is_sentence_terminator k then true else
  match k with
  | KPunct PComma | KPunct (PQuote _) | KPunct PColon => true
  | _ => false
  end.
Definition is_case_separator (k : tkind) : bool :=
  match k with KPunct PUnderscore | KPunct PHyphen => true | _ => false end.
Definition is_punctuation (k : tkind) : bool := match k with KPunct _ => true | _ => false end.
Definition is_unlintable (k : tkind) : bool := match k with KUnlintable => true | _ => false end.

(* ---------- iter_<thing>_indices / last_<thing>_index / iter_chunks, for any element type ---------- *)
Section IterBy.
  Context {A : Type}.
  Variable f : A -> bool.

  (* self.iter().enumerate().filter(|(_, t)| f(t)).map(|(i, _)| i) *)
  Fixpoint indices_from (i : nat) (ts : list A) : list nat :=
    match ts with
    | [] => []
    | t :: r => if f t then i :: indices_from (S i) r else indices_from (S i) r
    end.

  (* &l[a..] : panics when a > len *)
  Definition slice_from (l : list A) (a : nat) : res (list A) :=
    if length l <? a then Panic PIndex else Ok (skipn a l).

  (* self.iter().rev().position(f).map(|i| self.len() - i - 1) *)
  Definition last_index (ts : list A) : res (option nat) :=
    match position f (rev ts) with
    | None => Ok None
    | Some i => do a <- sub_chk (length ts) i; do b <- sub_chk a 1; Ok (Some b)
    end.

  (* tuple_windows over the terminator indices: &self[a + 1..=b] *)
  Fixpoint windows (ts : list A) (idx : list nat) : res (list (list A)) :=
    match idx with
    | a :: ((b :: _) as r) =>
        do s <- slice_chk ts (S a) (S b);
        do rest <- windows ts r;
        Ok (s :: rest)
    | _ => Ok []
    end.

  Definition iter_by (ts : list A) : res (list (list A)) :=
    let idx := indices_from 0 ts in
    do first <- match idx with
                | [] => Ok []
                | t :: _ => do s <- slice_chk ts 0 (S t); Ok [s]       (* &self[0..=first_term] *)
                end;
    do rest <- windows ts idx;
    do li <- last_index ts;
    do lst <- match li with
              | Some last_i =>
                  if S last_i <? length ts
                  then (do s <- slice_from ts (S last_i); Ok [s])      (* &self[last_i + 1..] *)
                  else Ok []
              | None => Ok [ts]                                          (* Some(self), even when empty *)
              end;
    Ok (first ++ rest ++ lst).
End IterBy.

Definition iter_chunks (ts : list token) : res (list (list token)) :=
  iter_by (fun t => is_chunk_terminator (tkind_of t)) ts.

(* ---------- language_detection::is_likely_english ---------- *)
(* the counting loop: (total_words, valid_words, punctuation, unlintable) *)
Fixpoint le_count (dict : text -> bool) (src : text) (toks : list token) (acc : nat * nat * nat * nat)
  : res (nat * nat * nat * nat) :=
  match toks with
  | [] => Ok acc
  | t :: r =>
      let '(total, valid, punc, unl) := acc in
      match tkind_of t with
      | KWord =>
          do content <- get_content (tspan t) src;
          le_count dict src r (total + 1, (if dict content then valid + 1 else valid), punc, unl)
      | KPunct _ => le_count dict src r (total, valid, punc + 1, unl)
      | KUnlintable => le_count dict src r (total, valid, punc, unl + 1)
      | _ => le_count dict src r acc
      end
  end.

Definition is_likely_english (dict : text -> bool) (src : text) (toks : list token) : res bool :=
  do '(total, valid, punc, unl) <- le_count dict src toks (0, 0, 0, 0);
  do invalid <- sub_chk total valid;                              (* total_words - valid_words *)
  if (total <=? 7) && (0 <? invalid) then Ok false else
  if valid <? unl then Ok false else
  if 4 * valid <? 5 * punc then Ok false else
  if negb (total =? 0) && (10 * valid <? 7 * total) then Ok false else
  Ok true.

(* ---------- IsolateEnglish::parse ---------- *)
Fixpoint ie_chunks (dict : text -> bool) (src : text) (chunks : list (list token)) : res (list token) :=
  match chunks with
  | [] => Ok []
  | c :: r =>
      do keep <- (if length c <? 4 then Ok true else is_likely_english dict src c);
      do rest <- ie_chunks dict src r;
      Ok (if keep then c ++ rest else rest)
  end.

Definition isolate_english (dict : text -> bool) (src : text) (inner : list token) : res (list token) :=
  do chunks <- iter_chunks inner;
  ie_chunks dict src chunks.

(* ---------- the pattern of CollapseIdentifiers ---------- *)
(* RepeatingPattern (Seq [is_case_separator; is_word]) 0 : tokens consumed by the repetitions *)
Fixpoint sepword_run (ts : list token) : nat :=
  match ts with
  | s :: w :: r =>
      if is_case_separator (tkind_of s) && is_word (tkind_of w) then 2 + sepword_run r else 0
  | _ => 0
  end.
(* Seq [is_word; that]: a sequence answers 0 as soon as one part answers 0 *)
Definition ident_matches (src : text) (ts : list token) : res nat :=
  match ts with
  | w :: r =>
      if is_word (tkind_of w) then
        let k := sepword_run r in Ok (if k =? 0 then 0 else 1 + k)
      else Ok 0
  | [] => Ok 0
  end.

(* ---------- `.sorted().unique()` on the removal queue ---------- *)
Fixpoint insert_sorted (x : nat) (l : list nat) : list nat :=
  match l with
  | [] => [x]
  | y :: r => if x <=? y then x :: l else y :: insert_sorted x r
  end.
Definition sorted (l : list nat) : list nat := fold_right insert_sorted [] l.
(* itertools unique(): keeps the first occurrence of every value *)
Fixpoint unique_from (seen : list nat) (l : list nat) : list nat :=
  match l with
  | [] => []
  | x :: r => if existsb (Nat.eqb x) seen then unique_from seen r else x :: unique_from (x :: seen) r
  end.
Definition sorted_unique (l : list nat) : list nat := unique_from [] (sorted l).

(* ---------- CollapseIdentifiers::parse ---------- *)
(* the `for tok_span in matches` loop; answers the updated vector and to_remove *)
Fixpoint ci_apply (dict : text -> bool) (src : text) (ms : list span) (toks : list token)
  : res (list token * list nat) :=
  match ms with
  | [] => Ok (toks, [])
  | m :: ms' =>
      do start_tok <- nth_chk toks (sstart m);
      do e1 <- sub_chk (send m) 1;
      do end_tok <- nth_chk toks e1;
      do char_span <- span_new (tstart start_tok) (tend end_tok);
      do content <- get_content char_span src;
      if dict content then
        do toks1 <- set_nth toks (sstart m) (mktok char_span KWord);
        do '(toksF, q) <- ci_apply dict src ms' toks1;
        Ok (toksF, seq (sstart m + 1) (send m - (sstart m + 1)) ++ q)
      else ci_apply dict src ms' toks
  end.

Definition collapse_identifiers (dict : text -> bool) (src : text) (inner : list token) : res (list token) :=
  do ms <- find_all_matches (ident_matches src) inner;
  do '(upd, q) <- ci_apply dict src ms inner;
  Ok (remove_indices 0 (sorted_unique q) upd).

(* ---------- the dictionary of a correspondence case: the words the real dictionary answered `true` for ---------- *)
Fixpoint text_eqb (a b : text) : bool :=
  match a, b with
  | [], [] => true
  | x :: a', y :: b' => N.eqb x y && text_eqb a' b'
  | _, _ => false
  end.
Definition dict_of (known : list text) (w : text) : bool := existsb (text_eqb w) known.

(* ---------- Document::new(text, &IsolateEnglish::new(Box::new(PlainEnglish), dict), ..) and the same with
   CollapseIdentifiers: the wrapped parser, then the passes of Document::parse ---------- *)
Definition document_plain_ie (u : uni) (dict : text -> bool) (s : text) : res (list token) :=
  do raw <- plain_parse u s;
  do kept <- isolate_english dict s raw;
  document_passes s kept.
Definition document_plain_ci (u : uni) (dict : text -> bool) (s : text) : res (list token) :=
  do raw <- plain_parse u s;
  do coll <- collapse_identifiers dict s raw;
  document_passes s coll.
