(* Base.v — shared vocabulary of every model: spans, the panic monad, checked list operations.
   Mirrors harper-core/src/span.rs.  No proofs here (models must run even when a proof breaks). *)
From Coq Require Export List Arith NArith Bool Lia.
Export ListNotations.

(* ---------- the panic monad: Rust operations that can panic are checked ---------- *)
Inductive panic_kind :=
| PIndex        (* slice / index out of range *)
| PSpanOrder    (* Span::new(start,end) with start > end *)
| PUnderflow    (* usize subtraction below zero *)
| POverflow     (* u8 / usize addition overflow (debug build) *)
| PUnwrap       (* Option::unwrap on None / expect *)
| PFuel.        (* model ran out of fuel: excluded by the totality theorems, never a normal value *)

Inductive res (A : Type) :=
| Ok (a : A)
| Panic (why : panic_kind).
Arguments Ok {A} a.
Arguments Panic {A} why.

Definition bind {A B} (r : res A) (f : A -> res B) : res B :=
  match r with Ok a => f a | Panic w => Panic w end.
Definition ret {A} (a : A) : res A := Ok a.
Notation "'do' x <- r ; k" := (bind r (fun x => k)) (at level 200, x name, r at level 100, k at level 200).
Notation "'do' ' p <- r ; k" := (bind r (fun p => k)) (at level 200, p pattern, r at level 100, k at level 200).

Definition is_ok {A} (r : res A) : bool := match r with Ok _ => true | Panic _ => false end.

(* ---------- Span ---------- *)
Record span := mkspan { sstart : nat; send : nat }.

Definition span_wf (s : span) : Prop := sstart s <= send s.
Definition span_wfb (s : span) : bool := sstart s <=? send s.

(* Span::new panics when start > end *)
Definition span_new (a b : nat) : res span :=
  if b <? a then Panic PSpanOrder else Ok (mkspan a b).
Definition span_new_with_len (a len : nat) : span := mkspan a (a + len).

(* usize subtraction: panics (debug) on underflow *)
Definition sub_chk (a b : nat) : res nat := if a <? b then Panic PUnderflow else Ok (a - b).

Definition span_len (s : span) : res nat := sub_chk (send s) (sstart s).
Definition span_len_wf (s : span) : nat := send s - sstart s.   (* for well-formed spans *)

Definition overlaps (a b : span) : bool := (sstart a <? send b) && (sstart b <? send a).

Definition span_in (n : nat) (s : span) : Prop := sstart s <= send s /\ send s <= n.
Definition span_inb (n : nat) (s : span) : bool := (sstart s <=? send s) && (send s <=? n).

Definition push_by (s : span) (by_ : nat) : span := mkspan (sstart s + by_) (send s + by_).
Definition pull_by (s : span) (by_ : nat) : res span :=
  do a <- sub_chk (sstart s) by_; do b <- sub_chk (send s) by_; Ok (mkspan a b).
Definition pulled_by (s : span) (by_ : nat) : option span :=
  if sstart s <? by_ then None else Some (mkspan (sstart s - by_) (send s - by_)).
Definition with_len (s : span) (len : nat) : span := mkspan (sstart s) (sstart s + len).

(* ---------- checked list operations ---------- *)
Section ListOps.
  Context {A : Type}.

  Definition nth_chk (l : list A) (i : nat) : res A :=
    match nth_error l i with Some x => Ok x | None => Panic PIndex end.

  (* &l[a..b] : panics unless a <= b <= len *)
  Definition slice_chk (l : list A) (a b : nat) : res (list A) :=
    if (b <? a) || (length l <? b) then Panic PIndex else Ok (firstn (b - a) (skipn a l)).

  Definition slice (l : list A) (a b : nat) : list A := firstn (b - a) (skipn a l).

  (* l[i] = x : panics when i >= len *)
  Fixpoint set_nth (l : list A) (i : nat) (x : A) : res (list A) :=
    match l, i with
    | [], _ => Panic PIndex
    | _ :: t, 0 => Ok (x :: t)
    | h :: t, S i' => do t' <- set_nth t i' x; Ok (h :: t')
    end.

  (* Vec::split_off(at) : panics when at > len; returns (kept prefix, popped suffix) *)
  Definition split_off (l : list A) (at_ : nat) : res (list A * list A) :=
    if length l <? at_ then Panic PIndex else Ok (firstn at_ l, skipn at_ l).

  (* Span::try_get_content as written (span.rs) *)
  Definition try_get_content (s : span) (src : list A) : res (option (list A)) :=
    if (send s <? sstart s) || (length src <=? sstart s) || (length src <? send s) then
      (do len <- span_len s;                         (* is_empty() computes end - start *)
       if len =? 0 then Ok (Some []) else Ok None)
    else Ok (Some (slice src (sstart s) (send s))).

  Definition get_content (s : span) (src : list A) : res (list A) :=
    do r <- try_get_content s src;
    match r with Some v => Ok v | None => Panic PIndex end.
End ListOps.

(* characters are Unicode scalar values *)
Definition char := N.
Definition text := list char.
