(* C04Typst.v — the offset arithmetic of harper-typst/src/typst_translator.rs over an abstract AST (C04, phase 3).
   No proofs here.

   typst-syntax's tree is DATA handed to the model (as tree-sitter's node lists and pulldown-cmark's events are): every
   place where the translator emits tokens or moves its OffsetCursor is one node of `tnode`, carrying what
   `doc.range(span)` answered (None = a detached span) and — for the two arms that lex prose — the text the
   translator hands to PlainEnglish:
     TLeaf r k      an expression arm that ends in token!(a, k) for the expression itself
                    (Space, Linebreak, Parbreak, SmartQuote, Link, and the default arm `a => token!(a, Unlintable)`)
     TText r txt    Expr::Text: parse_english(text.get(), offset.push_to_span(text.span()))        txt = text.get()
     TStr r raw     Expr::Str: PlainEnglish on &string[1..string.len() - 1], shifted by char + 1    raw = the node's raw text (UTF-8 bytes)
     TTok r k       token!(x, k) for a sub-node x that is not visited as an expression: the callee and the ignored
                    arguments of a function call, the field of a field access, the name of a named destructuring item
                    (`doc.range(..).unwrap()`: a detached span panics)
     TNode r cs     any arm that recurses: parse_expr checks `doc.range(expr.span())?`, pushes the cursor to the start of
                    the expression and hands THAT cursor (by value) to every child, in emission order
     TGroup cs      parse_pattern / parse_spread / merge![..]: children at the cursor they were given
   Which Expr variant is which node is the generated table Tables_typst.v (tools/tables/typst.py reads the match arms);
   the harness builds the tree from typst-syntax's AST following the same arms.
   A `None` (from `?`, and_then, filter_map) contributes no tokens: merge! and filter_map flatten it away. *)
Require Import Base Mask.

Inductive tnode :=
| TLeaf (r : option (nat * nat)) (kind : N)
| TText (r : option (nat * nat)) (txt : text)
| TStr (r : option (nat * nat)) (raw : list N)
| TTok (r : option (nat * nat)) (kind : N)
| TNode (r : option (nat * nat)) (children : list tnode)
| TGroup (children : list tnode).

Section Typst.
  Variable lex : text -> list tok.           (* PlainEnglish.parse_str *)
  Variable bs : list N.                      (* the UTF-8 bytes of the Source *)

  Fixpoint tr (n : tnode) (offset : cursor) : res (list tok) :=
    match n with
    | TLeaf None _ => Ok []                                              (* self.doc.range(expr.span())?; *)
    | TLeaf (Some (a, b)) k =>
        do off <- push_to bs offset a;                                   (* offset.push_to_span(expr.span()) *)
        do t <- def_token bs off a b k; Ok [t]
    | TText None _ => Ok []
    | TText (Some (a, _)) txt =>
        do off <- push_to bs offset a;
        do off2 <- push_to bs off a;                                     (* offset.push_to_span(text.span()) *)
        Ok (map (tpush (cchar off2)) (lex txt))
    | TStr None _ => Ok []
    | TStr (Some (a, _)) raw =>
        do off <- push_to bs offset a;
        do off2 <- push_to bs off a;
        do e <- sub_chk (length raw) 1;                                  (* string.len() - 1 *)
        do inner <- str_slice raw 1 e;                                   (* &string[1..string.len() - 1] *)
        Ok (map (tpush (cchar off2 + 1)) (lex (decode inner)))
    | TTok None _ => Panic PUnwrap                                       (* $doc.range($a.span()).unwrap() *)
    | TTok (Some (a, b)) k => do t <- def_token bs offset a b k; Ok [t]
    | TNode None _ => Ok []
    | TNode (Some (a, _)) cs =>
        do off <- push_to bs offset a;
        (fix tr_list (l : list tnode) : res (list tok) :=
           match l with
           | [] => Ok []
           | c :: r => do x <- tr c off; do y <- tr_list r; Ok (x ++ y)
           end) cs
    | TGroup cs =>
        (fix tr_list (l : list tnode) : res (list tok) :=
           match l with
           | [] => Ok []
           | c :: r => do x <- tr c offset; do y <- tr_list r; Ok (x ++ y)
           end) cs
    end.

  (* the translation of all top-level expressions, each from OffsetCursor::new *)
  Definition typst_translate (top : list tnode) : res (list tok) := tr (TGroup top) (mkcur 0 0).
End Typst.

(* b629a93: `let mut covered = 0; tokens.retain(|t| { if t.span.start < covered { return false; }
   covered = covered.max(t.span.end); true })` — one pass, front to back (Vec::retain visits in order) *)
Fixpoint typst_retain (covered : nat) (l : list tok) : list tok :=
  match l with
  | [] => []
  | t :: r =>
      if sstart (tspan t) <? covered then typst_retain covered r
      else t :: typst_retain (Nat.max covered (send (tspan t))) r
  end.

(* Typst::parse = the translation, then the retain filter (pinned by tools/tables/typst.py) *)
Definition typst_parse (lex : text -> list tok) (bs : list N) (top : list tnode) : res (list tok) :=
  do toks <- typst_translate lex bs top; Ok (typst_retain 0 toks).

(* driver entry point: a tree in prefix form
     0 hasr a b kind | 1 hasr a b len cps.. | 2 hasr a b len bytes.. | 3 hasr a b kind | 4 hasr a b n child.. | 5 n child.. *)
Definition rng (h a b : N) : option (nat * nat) := match h with 0%N => None | _ => Some (N.to_nat a, N.to_nat b) end.

(* numbers stay binary (code points and kind codes are large); only ranges and counts become nat *)
Fixpoint take_n (n : nat) (l : list N) : list N * list N :=
  match n, l with
  | S n', x :: r => let '(a, b) := take_n n' r in (x :: a, b)
  | _, _ => ([], l)
  end.

Fixpoint parse_tree (fuel : nat) (l : list N) : option (tnode * list N) :=
  match fuel with
  | 0 => None
  | S f =>
      match l with
      | 0%N :: h :: a :: b :: k :: r => Some (TLeaf (rng h a b) k, r)
      | 1%N :: h :: a :: b :: n :: r => let '(t, r') := take_n (N.to_nat n) r in Some (TText (rng h a b) t, r')
      | 2%N :: h :: a :: b :: n :: r => let '(t, r') := take_n (N.to_nat n) r in Some (TStr (rng h a b) t, r')
      | 3%N :: h :: a :: b :: k :: r => Some (TTok (rng h a b) k, r)
      | 4%N :: h :: a :: b :: n :: r =>
          (fix kids (n : nat) (l : list N) (acc : list tnode) : option (tnode * list N) :=
             match n with
             | 0 => Some (TNode (rng h a b) (rev acc), l)
             | S n' => match parse_tree f l with Some (c, l') => kids n' l' (c :: acc) | None => None end
             end) (N.to_nat n) r []
      | 5%N :: n :: r =>
          (fix kids (n : nat) (l : list N) (acc : list tnode) : option (tnode * list N) :=
             match n with
             | 0 => Some (TGroup (rev acc), l)
             | S n' => match parse_tree f l with Some (c, l') => kids n' l' (c :: acc) | None => None end
             end) (N.to_nat n) r []
      | _ => None
      end
  end.

Definition run_typst (tbl : list (text * list (nat * nat * N))) (t : text) (tree : list N) : option (list (nat * nat * N)) :=
  match parse_tree (S (length tree)) tree with
  | Some (TGroup top, []) => opt triples_of (typst_parse (lookup_inner (tbl_of tbl)) (encode t) top)
  | _ => None
  end.
