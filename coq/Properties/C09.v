(* C09 — The language server's last word on a document reflects the latest text.
   This file pins the statements; it contains nothing but `exact`.
   Model: Model/Server.v (handlers of harper-ls/src/backend.rs split at their awaits, at most four in
   flight, any enabled one may advance).  `lastword w u` is what the client shows for u (the most
   recent publishDiagnostics, by provenance), `expected w u` what the property demands. *)
Require Import Base Server ServerProofs.

(* F17a — two didChange in flight, handled in the opposite order: the server's last word (and its
   doc_state) is the OLDER text.  `reorder_schedule` admits both, then runs the second to completion
   before the first. *)
Theorem C09_reorder_refuted :
  exists y, run reorder_schedule (init reorder_history (world0 0)) = Some y /\ quiescent y /\
    exists a b, lastword (y_world y) uA = PDiag a /\ expected (y_world y) uA = PDiag b /\
                a_text a = tx 1 /\ a_text b = tx 2 /\ pubval (y_world y) uA = PDiag a.
Proof. exact reorder_refuted. Qed.
Check C09_reorder_refuted :
  exists y, run reorder_schedule (init reorder_history (world0 0)) = Some y /\ quiescent y /\
    exists a b, lastword (y_world y) uA = PDiag a /\ expected (y_world y) uA = PDiag b /\
                a_text a = tx 1 /\ a_text b = tx 2 /\ pubval (y_world y) uA = PDiag a.
Print Assumptions C09_reorder_refuted.

(* the same at the granularity the harness executes on the real Backend *)
Theorem C09_reorder_refuted_client_granularity :
  exists y, krun reorder_kschedule (init reorder_history (world0 0)) = Some y /\ quiescent y /\
    freshb (y_world y) uA = false.
Proof. exact reorder_refuted_k. Qed.
Check C09_reorder_refuted_client_granularity :
  exists y, krun reorder_kschedule (init reorder_history (world0 0)) = Some y /\ quiescent y /\
    freshb (y_world y) uA = false.
Print Assumptions C09_reorder_refuted_client_granularity.

(* F17b — HarperAddToUserDict / HarperAddToFileDict / didChangeConfiguration re-read the FILE: with an
   unsaved buffer (text 1) the last word is that of the text on disk (text 9), one handler at a time *)
Theorem C09_disk_refuted :
  shows_disk_text (AddUser 5 uA) /\ shows_disk_text (AddFile 5 uA) /\ shows_disk_text (CfgChange 1 []).
Proof. exact disk_refuted. Qed.
Check C09_disk_refuted :
  shows_disk_text (AddUser 5 uA) /\ shows_disk_text (AddFile 5 uA) /\ shows_disk_text (CfgChange 1 []).
Print Assumptions C09_disk_refuted.

(* F17c — the user dictionary is global, but only the document named in the command is re-checked *)
Theorem C09_other_document_refuted :
  exists w, run_seq [Open uA LPlain (tx 0); Open uB LPlain (tx 1); Save uA; Save uB; AddUser 5 uA] (world0 0) = Some w /\
    freshb w uA = true /\
    exists a b, lastword w uB = PDiag a /\ expected w uB = PDiag b /\
                dv_user (a_dict a) = [] /\ dv_user (a_dict b) = [5].
Proof. exact other_document_stale. Qed.
Check C09_other_document_refuted :
  exists w, run_seq [Open uA LPlain (tx 0); Open uB LPlain (tx 1); Save uA; Save uB; AddUser 5 uA] (world0 0) = Some w /\
    freshb w uA = true /\
    exists a b, lastword w uB = PDiag a /\ expected w uB = PDiag b /\
                dv_user (a_dict a) = [] /\ dv_user (a_dict b) = [5].
Print Assumptions C09_other_document_refuted.

(* F17d — a document that cannot be read from disk (untitled:) is re-published from the old check *)
Theorem C09_untitled_refuted :
  exists w, run_seq [Open (UUntitled 1) LPlain (tx 0); AddUser 5 (UUntitled 1)] (world0 0) = Some w /\
    exists a b, lastword w (UUntitled 1) = PDiag a /\ expected w (UUntitled 1) = PDiag b /\
                dv_user (a_dict a) = [] /\ dv_user (a_dict b) = [5].
Proof. exact untitled_stale. Qed.
Check C09_untitled_refuted :
  exists w, run_seq [Open (UUntitled 1) LPlain (tx 0); AddUser 5 (UUntitled 1)] (world0 0) = Some w /\
    exists a b, lastword w (UUntitled 1) = PDiag a /\ expected w (UUntitled 1) = PDiag b /\
                dv_user (a_dict a) = [] /\ dv_user (a_dict b) = [5].
Print Assumptions C09_untitled_refuted.

(* F17e — the second update of a source-code document drops its identifier dictionary: the same text
   is checked differently after open;change than after open *)
Theorem C09_ident_refuted :
  exists w, run_seq [Open uA LCode code_text; Change uA code_text] (world0 0) = Some w /\
    exists a b, lastword w uA = PDiag a /\ expected w uA = PDiag b /\
                a_text a = a_text b /\ dv_ident (a_dict a) = 0 /\ dv_ident (a_dict b) = 7.
Proof. exact ident_refuted. Qed.
Check C09_ident_refuted :
  exists w, run_seq [Open uA LCode code_text; Change uA code_text] (world0 0) = Some w /\
    exists a b, lastword w uA = PDiag a /\ expected w uA = PDiag b /\
                a_text a = a_text b /\ dv_ident (a_dict a) = 0 /\ dv_ident (a_dict b) = 7.
Print Assumptions C09_ident_refuted.
