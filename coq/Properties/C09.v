(* C09 — The language server's last word on a document reflects the latest text.
   This file pins the statements; it contains nothing but `exact`.
   Model: Model/Server.v (handlers of harper-ls/src/backend.rs split at their awaits, at most four in
   flight, any enabled one may advance; update_document compares document versions and keeps base_dict).
   `lastword w u` is what the client shows for u (the most recent publishDiagnostics, by provenance),
   `expected w u` what the property demands, `pubval w u` what doc_state would publish now. *)
Require Import Base Server ServerProofs ServerSeq ServerConc ServerClose ServerVer C09Batch C09BatchProofs C09Seq C09SeqProofs C09DictLock Tables_c09handlers C09Handlers C09Race C09RaceProofs C09RaceFamA C09RaceFamB C09RaceAll C09RaceGen C09RaceDict C09RaceOnlyIf C09RaceDictEq.

(* ================================================================================================
   What does NOT hold (each with a concrete schedule on the faithful model; replayed on the real
   Backend by the harness).
   ================================================================================================ *)

(* F17a, what remains of it after the version check (1): a didChange overtakes the didOpen of its document.
   It finds no entry, inserts one without language and removes it again - the version is lost with it -
   and the didOpen then installs the OLDER text *)
Theorem C09_reorder_refuted :
  exists y, run open_change_schedule (init open_change_history (world0 0)) = Some y /\ quiescent y /\
    exists a b, lastword (y_world y) uA = PDiag a /\ expected (y_world y) uA = PDiag b /\
                a_text a = tx 0 /\ a_text b = tx 1 /\ pubval (y_world y) uA = PDiag a.
Proof. exact change_overtakes_open. Qed.
Check C09_reorder_refuted :
  exists y, run open_change_schedule (init open_change_history (world0 0)) = Some y /\ quiescent y /\
    exists a b, lastword (y_world y) uA = PDiag a /\ expected (y_world y) uA = PDiag b /\
                a_text a = tx 0 /\ a_text b = tx 1 /\ pubval (y_world y) uA = PDiag a.
Print Assumptions C09_reorder_refuted.

(* F17a (2): a didClose overtakes the didOpen - the closed document ends with diagnostics and stays in doc_state *)
Theorem C09_reorder_close_refuted :
  exists y, run close_open_schedule (init close_open_history (world0 0)) = Some y /\ quiescent y /\
    lookup uA (w_open (y_world y)) = None /\ expected (y_world y) uA = PEmpty /\
    exists a, lastword (y_world y) uA = PDiag a /\ pubval (y_world y) uA = PDiag a.
Proof. exact close_overtakes_open. Qed.
Check C09_reorder_close_refuted :
  exists y, run close_open_schedule (init close_open_history (world0 0)) = Some y /\ quiescent y /\
    lookup uA (w_open (y_world y)) = None /\ expected (y_world y) uA = PEmpty /\
    exists a, lastword (y_world y) uA = PDiag a /\ pubval (y_world y) uA = PDiag a.
Print Assumptions C09_reorder_close_refuted.

(* F17a (3): a didChange overtakes a didSave.  The save re-reads the file (the text of the moment it was
   written) and carries no version: nothing stops it from replacing the newer text *)
Theorem C09_reorder_save_refuted :
  exists y, run save_change_schedule (init save_change_history (world0 0)) = Some y /\ quiescent y /\
    exists a b, lastword (y_world y) uA = PDiag a /\ expected (y_world y) uA = PDiag b /\
                a_text a = tx 0 /\ a_text b = tx 1.
Proof. exact change_overtakes_save. Qed.
Check C09_reorder_save_refuted :
  exists y, run save_change_schedule (init save_change_history (world0 0)) = Some y /\ quiescent y /\
    exists a b, lastword (y_world y) uA = PDiag a /\ expected (y_world y) uA = PDiag b /\
                a_text a = tx 0 /\ a_text b = tx 1.
Print Assumptions C09_reorder_save_refuted.

(* F17a (4): dictionary race.  A didChange has read the dictionary files when HarperAddToUserDict (sent before
   it) writes the new word; it then installs the old dictionary.  One at a time the same messages end well *)
Theorem C09_dictionary_race_refuted :
  exists y, run dict_race_schedule (init dict_race_history (world0 0)) = Some y /\ quiescent y /\
    exists a b, lastword (y_world y) uA = PDiag a /\ expected (y_world y) uA = PDiag b /\
                a_text a = tx 1 /\ a_text b = tx 1 /\ dv_user (a_dict a) = [] /\ dv_user (a_dict b) = [5].
Proof. exact dict_race. Qed.
Check C09_dictionary_race_refuted :
  exists y, run dict_race_schedule (init dict_race_history (world0 0)) = Some y /\ quiescent y /\
    exists a b, lastword (y_world y) uA = PDiag a /\ expected (y_world y) uA = PDiag b /\
                a_text a = tx 1 /\ a_text b = tx 1 /\ dv_user (a_dict a) = [] /\ dv_user (a_dict b) = [5].
Print Assumptions C09_dictionary_race_refuted.

(* F17b - HarperAddToUserDict / HarperAddToFileDict / didChangeConfiguration re-read the FILE: with an
   unsaved buffer (text 1) the last word is that of the text on disk (text 9), one handler at a time *)
Theorem C09_disk_refuted :
  shows_disk_text (AddUser 5 uA) /\ shows_disk_text (AddFile 5 uA) /\ shows_disk_text (CfgChange 1 []).
Proof. exact disk_refuted. Qed.
Check C09_disk_refuted :
  shows_disk_text (AddUser 5 uA) /\ shows_disk_text (AddFile 5 uA) /\ shows_disk_text (CfgChange 1 []).
Print Assumptions C09_disk_refuted.

(* F17c - the user dictionary is global, but only the document named in the command is re-checked *)
Theorem C09_other_document_refuted :
  exists w, run_seq [Open uA LPlain (tx 0) 1; Open uB LPlain (tx 1) 1; Save uA; Save uB; AddUser 5 uA] (world0 0) = Some w /\
    freshb w uA = true /\
    exists a b, lastword w uB = PDiag a /\ expected w uB = PDiag b /\
                dv_user (a_dict a) = [] /\ dv_user (a_dict b) = [5].
Proof. exact other_document_stale. Qed.
Check C09_other_document_refuted :
  exists w, run_seq [Open uA LPlain (tx 0) 1; Open uB LPlain (tx 1) 1; Save uA; Save uB; AddUser 5 uA] (world0 0) = Some w /\
    freshb w uA = true /\
    exists a b, lastword w uB = PDiag a /\ expected w uB = PDiag b /\
                dv_user (a_dict a) = [] /\ dv_user (a_dict b) = [5].
Print Assumptions C09_other_document_refuted.

(* F17d - a document that cannot be read from disk (untitled:) is re-published from the old check *)
Theorem C09_untitled_refuted :
  exists w, run_seq [Open (UUntitled 1) LPlain (tx 0) 1; AddUser 5 (UUntitled 1)] (world0 0) = Some w /\
    exists a b, lastword w (UUntitled 1) = PDiag a /\ expected w (UUntitled 1) = PDiag b /\
                dv_user (a_dict a) = [] /\ dv_user (a_dict b) = [5].
Proof. exact untitled_stale. Qed.
Check C09_untitled_refuted :
  exists w, run_seq [Open (UUntitled 1) LPlain (tx 0) 1; AddUser 5 (UUntitled 1)] (world0 0) = Some w /\
    exists a b, lastword w (UUntitled 1) = PDiag a /\ expected w (UUntitled 1) = PDiag b /\
                dv_user (a_dict a) = [] /\ dv_user (a_dict b) = [5].
Print Assumptions C09_untitled_refuted.

(* ================================================================================================
   What DOES hold.
   ================================================================================================ *)

(* Sequential clause, _partial: one handler at a time (run_seq), from a freshly initialised server.
   For every history whose messages satisfy the side conditions `op_safeb` in the world they are sent
   in (Proofs/ServerSeq.v):
     didOpen of a document that is not open; didChange of one that is, with a version not older than the
       previous one (an older one is ignored by the server); didSave, didClose, didChangeWatchedFiles,
       HarperIgnoreLint, HarperRecordLint: always;
     HarperAddToUserDict x u: u is closed, has no parser, or is saved (file on disk = buffer), AND the word
       is already there or every OTHER open document has no parser;
     HarperAddToFileDict x u: u is closed, has no parser, is saved, or is untitled;
     didChangeConfiguration: every open document with a parser is saved,
   the last publication for every document is computed from the newest client text, the current
   dictionary files (with the identifiers of a source file merged in) and the current settings (linter,
   parser and severity alike) and the client's ignore list; doc_state agrees (pubval); documents that are
   not open end with [].  Source files may define identifiers (F17e is repaired).
   Missing for the full clause: exactly the excluded cases, each refuted above (F17b-d) *)
Theorem C09_sequential_partial :
  forall h c w,
  seq_safeb h (world0 c) = true -> run_seq h (world0 c) = Some w ->
  forall u, lastword w u = expected w u /\ pubval w u = expected w u /\
            (lookup u (w_open w) = None -> lastword w u = PEmpty).
Proof. exact sequential. Qed.
Check C09_sequential_partial :
  forall h c w,
  seq_safeb h (world0 c) = true -> run_seq h (world0 c) = Some w ->
  forall u, lastword w u = expected w u /\ pubval w u = expected w u /\
            (lookup u (w_open w) = None -> lastword w u = PEmpty).
Print Assumptions C09_sequential_partial.

(* the same in the property's words: whatever function `diag` of (text, language, dictionaries,
   configuration, ignore list) the diagnostics are, the diagnostics shown last are diag of the newest *)
Theorem C09_sequential_diag_partial :
  forall (D : Type) (diag : dargs -> D) (none : D) h c w,
  seq_safeb h (world0 c) = true -> run_seq h (world0 c) = Some w ->
  forall u, shown D diag none (lastword w u) = shown D diag none (expected w u).
Proof. exact sequential_diag. Qed.
Check C09_sequential_diag_partial :
  forall (D : Type) (diag : dargs -> D) (none : D) h c w,
  seq_safeb h (world0 c) = true -> run_seq h (world0 c) = Some w ->
  forall u, shown D diag none (lastword w u) = shown D diag none (expected w u).
Print Assumptions C09_sequential_diag_partial.

(* the hypotheses are satisfiable by a history that contains every kind of message, a source file with identifiers included *)
Example C09_sequential_nonvacuous :
  seq_safeb demo_history (world0 0) = true /\
  exists w, run_seq demo_history (world0 0) = Some w /\
    lastword w (UFile 0 0) = PDiag (mkargs (mktext 6 0) LMarkdown (mkdict [3] [4] 0) (mkdict [3] [4] 0) 2 2 2 [1]) /\
    lastword w (UFile 0 1) = PEmpty /\ lastword w (UFile 1 0) = PEmpty.
Proof. exact demo_history_safe. Qed.

(* What the version check guarantees (fix of the two-didChange half of F17a), for EVERY interleaving of
   the handlers' await-to-await segments with up to four in flight: from any up-to-date server (Inv), any
   number of didChange notifications - for any open documents, several per document, all in flight together -
   whose versions increase per document (vrun admits `Change u t v` only when v is larger than the version
   of the last message sent for u), completing in ANY order, end with the last word of every document
   computed from its newest text, and doc_state holding it.  (An outdated handler returns before it
   touches the document; use_ident_dict and its held mutex are covered.)
   Outside this theorem - a didOpen, didClose, didSave, command or configuration change in flight with
   them - the conclusion fails: the refutations above *)
Theorem C09_versioned_changes :
  forall h w0 cs y,
  Inv w0 -> vrun cs (init h w0) = Some y -> quiescent y ->
  forall u, lastword (y_world y) u = expected (y_world y) u /\ pubval (y_world y) u = expected (y_world y) u.
Proof. exact versioned_changes. Qed.
Check C09_versioned_changes :
  forall h w0 cs y,
  Inv w0 -> vrun cs (init h w0) = Some y -> quiescent y ->
  forall u, lastword (y_world y) u = expected (y_world y) u /\ pubval (y_world y) u = expected (y_world y) u.
Print Assumptions C09_versioned_changes.

(* vrun accepts only schedules of the real dispatcher *)
Theorem C09_versioned_is_schedule :
  forall cs y y', vrun cs y = Some y' -> run cs y = Some y'.
Proof. exact versioned_is_schedule. Qed.
Check C09_versioned_is_schedule :
  forall cs y y', vrun cs y = Some y' -> run cs y = Some y'.
Print Assumptions C09_versioned_is_schedule.

(* four didChange in flight together (three for one source file whose identifiers change twice), the newest
   completing before an older one, a handler holding the doc_state mutex inside use_ident_dict meanwhile *)
Example C09_versioned_nonvacuous :
  exists w0 y, run_seq ver_setup (world0 0) = Some w0 /\ Inv w0 /\
    vrun ver_schedule (init ver_history w0) = Some y /\ quiescentb y = true /\
    lastword (y_world y) (UFile 0 0) = PDiag (mkargs (mktext 5 9) LCode (mkdict [] [] 9) (mkdict [] [] 9) 0 0 0 []) /\
    lastword (y_world y) (UFile 0 1) = PDiag (mkargs (mktext 4 0) LPlain (mkdict [] [] 0) (mkdict [] [] 0) 0 0 0 []) /\
    length (s_log (y_world y)) = 6.
Proof. exact ver_schedule_runs. Qed.

(* F17f is repaired (1f0bfb7): the version check is the first thing done under the doc_state lock - an
   outdated update (version lower than the installed one) is a NO-OP on the whole world: doc_state, its
   dictionaries, linter and identifiers, the log *)
Theorem C09_outdated_update_noop :
  forall l w t e,
  s_lock w = false -> l_text l = Some t -> lookup (l_url l) (s_docs w) = Some e -> stale (l_ver l) (e_ver e) = true ->
  exec IUpdate l w = Some ([], l, w).
Proof. exact outdated_update_noop. Qed.
Check C09_outdated_update_noop :
  forall l w t e,
  s_lock w = false -> l_text l = Some t -> lookup (l_url l) (s_docs w) = Some e -> stale (l_ver l) (e_ver e) = true ->
  exec IUpdate l w = Some ([], l, w).
Print Assumptions C09_outdated_update_noop.

(* the old witness of F17f (outdated didChange of a source file arriving after the user dictionary changed):
   the identifiers stay merged, document and linter dictionaries agree *)
Example C09_stale_update_fixed_example :
  exists y, run stale_update_schedule (init stale_update_history (world0 0)) = Some y /\ quiescent y /\
    exists a b, lastword (y_world y) uA = PDiag a /\ expected (y_world y) uA = PDiag b /\
                a_text a = code_text 2 /\ a_text b = code_text 2 /\
                dv_ident (a_dict a) = 7 /\ dv_ident (a_dict b) = 7 /\ a_ddict a = a_dict a.
Proof. exact stale_update_keeps_identifiers. Qed.

(* HISTORY, labelled: with the critical section as it was BEFORE 1f0bfb7 (iupdate_before_1f0bfb7: version check
   after the dictionary refresh) the same state lost the identifiers (the former C09_stale_update_refuted);
   the current code leaves the world unchanged there *)
Example C09_stale_update_old_refuted :
  exists y h, run stale_update_prefix (init stale_update_history (world0 0)) = Some y /\
    find_h 1 (y_flight y) = Some h /\ h_prog h = [IUpdate; IPublish] /\
    (exists w' a, iupdate_before_1f0bfb7 (h_loc h) (y_world y) = Some w' /\ pubval w' uA = PDiag a /\ dv_ident (a_dict a) = 0) /\
    exec IUpdate (h_loc h) (y_world y) = Some ([], h_loc h, y_world y) /\
    (exists a, pubval (y_world y) uA = PDiag a /\ dv_ident (a_dict a) = 7).
Proof. exact stale_update_old_dropped_identifiers. Qed.

(* the OLD witness of F17a (two didChange handled in the opposite order), at both granularities: it now ends well *)
Example C09_reorder_fixed_example :
  (exists y, run reorder_schedule (init reorder_history (world0 0)) = Some y /\ quiescent y /\
     freshb (y_world y) uA = true /\
     exists a, lastword (y_world y) uA = PDiag a /\ a_text a = tx 2 /\ length (s_log (y_world y)) = 3) /\
  (exists y, krun reorder_kschedule (init reorder_history (world0 0)) = Some y /\ quiescent y /\
     freshb (y_world y) uA = true).
Proof. exact (conj reorder_now_fresh reorder_now_fresh_k). Qed.

(* the OLD witness of F17e (second update of a source file): the identifiers are kept *)
Example C09_ident_fixed_example :
  exists w, run_seq [Open uA LCode (code_text 0) 1; Change uA (code_text 0) 2] (world0 0) = Some w /\
    freshb w uA = true /\
    exists a, lastword w uA = PDiag a /\ dv_ident (a_dict a) = 7 /\ dv_ident (a_ddict a) = 7.
Proof. exact ident_survives_update. Qed.

(* Concurrent clause, _partial: for EVERY interleaving of the handlers' await-to-await segments with up
   to four handlers in flight (xrun = run restricted at admission), provided a message is admitted only
   while no handler in flight concerns the same document, and the messages are
   didOpen/didChange/didSave/didClose/HarperIgnoreLint/HarperRecordLint satisfying op_safeb: when
   everything has been handled, the last word for every document is right.
   Missing for the full clause: handlers of one document in flight together other than the didChange
   batches of C09_versioned_changes (refuted: F17a) and handlers with global effects (dictionary commands,
   configuration changes, deletions) in flight with others *)
Theorem C09_exclusive_concurrency_partial :
  forall h w0 cs y,
  Inv w0 -> xrun cs (init h w0) = Some y -> quiescent y ->
  forall u, lastword (y_world y) u = expected (y_world y) u /\
            (lookup u (w_open (y_world y)) = None -> lastword (y_world y) u = PEmpty).
Proof. exact exclusive_concurrency. Qed.
Check C09_exclusive_concurrency_partial :
  forall h w0 cs y,
  Inv w0 -> xrun cs (init h w0) = Some y -> quiescent y ->
  forall u, lastword (y_world y) u = expected (y_world y) u /\
            (lookup u (w_open (y_world y)) = None -> lastword (y_world y) u = PEmpty).
Print Assumptions C09_exclusive_concurrency_partial.

(* xrun accepts only schedules of the real dispatcher; a fresh server satisfies Inv *)
Theorem C09_exclusive_is_schedule :
  forall cs y y', xrun cs y = Some y' -> run cs y = Some y'.
Proof. exact exclusive_is_schedule. Qed.
Check C09_exclusive_is_schedule :
  forall cs y y', xrun cs y = Some y' -> run cs y = Some y'.
Print Assumptions C09_exclusive_is_schedule.

(* a freshly initialised server is up to date *)
Theorem C09_fresh_server_inv :
  forall c, Inv (world0 c).
Proof. exact inv_world0. Qed.
Check C09_fresh_server_inv :
  forall c, Inv (world0 c).
Print Assumptions C09_fresh_server_inv.

(* three documents (one a source file with identifiers), their handlers interleaved instr by instr *)
Example C09_exclusive_nonvacuous :
  exists y, xrun conc_schedule (init conc_history (world0 0)) = Some y /\ quiescentb y = true /\
    lastword (y_world y) (UFile 0 0) = PDiag (mkargs (mktext 3 0) LMarkdown (mkdict [] [] 0) (mkdict [] [] 0) 0 0 0 [1]) /\
    lastword (y_world y) (UFile 0 1) = PDiag (mkargs (mktext 1 4) LCode (mkdict [] [] 4) (mkdict [] [] 4) 0 0 0 []) /\
    lastword (y_world y) (UUntitled 0) = PEmpty.
Proof. exact conc_schedule_runs. Qed.

(* C09_close_wins: once a document is absent from doc_state (did_close and deletions remove it and
   publish [], close_removes), then for every schedule and whatever else is in flight or queued - didChange,
   didSave, commands, configuration changes, deletions, for any document - as long as no didOpen is in
   flight or queued: the document stays absent, and if its last word was [] it stays [] *)
Theorem C09_close_wins :
  forall cs u y y',
  no_open_pending y -> lookup u (s_docs (y_world y)) = None -> run cs y = Some y' ->
  lookup u (s_docs (y_world y')) = None /\
  (lastword (y_world y) u = PEmpty -> lastword (y_world y') u = PEmpty).
Proof. exact close_wins. Qed.
Check C09_close_wins :
  forall cs u y y',
  no_open_pending y -> lookup u (s_docs (y_world y)) = None -> run cs y = Some y' ->
  lookup u (s_docs (y_world y')) = None /\
  (lastword (y_world y) u = PEmpty -> lastword (y_world y') u = PEmpty).
Print Assumptions C09_close_wins.

(* did_close itself removes the document and publishes [] *)
Theorem C09_close_removes :
  forall l w push l' w',
  exec IClose l w = Some (push, l', w') ->
  lookup (l_url l) (s_docs w') = None /\ lastword w' (l_url l) = PEmpty.
Proof. exact close_removes. Qed.
Check C09_close_removes :
  forall l w push l' w',
  exec IClose l w = Some (push, l', w') ->
  lookup (l_url l) (s_docs w') = None /\ lastword w' (l_url l) = PEmpty.
Print Assumptions C09_close_removes.

(* a didChange is in flight when the didClose is handled; it finishes afterwards *)
Example C09_close_wins_nonvacuous :
  exists y, run cw_prefix (init cw_history (world0 0)) = Some y /\
    (forall hs, In hs (y_flight y) -> l_lang (h_loc hs) = None) /\ y_flight y <> [] /\
    forallb not_open (y_todo y) = true /\
    lookup (UFile 0 0) (s_docs (y_world y)) = None /\ lastword (y_world y) (UFile 0 0) = PEmpty /\
    exists y', run cw_suffix y = Some y' /\ quiescentb y' = true /\ length (s_log (y_world y')) = 3.
Proof. exact close_wins_applies. Qed.

(* ================================================================================================
   Mixed batches (phase 3): didOpen / didChange / didSave / didClose for ANY documents, protocol-conforming or
   not, up to four handlers in flight, completing in ANY order, at await granularity (the unrestricted
   dispatcher `run`), from any up-to-date server (Inv).  Model/C09Batch.v: `trace cs y` = the critical sections
   (update_document under the doc_state lock incl. use_ident_dict; the body of did_close) in the order the
   schedule executes them, with their arguments; `acrit` = what one of them does to a document as the client
   sees it (language, text, ignore list, version); `afold` composes them.
   ================================================================================================ *)

(* SERIALISATION: when everything has been handled, doc_state holds for every document exactly the
   composition of the critical sections in the order they were executed (as an up-to-date entry: current
   dictionaries, identifiers of the installed text, current settings), and the last word of every document is
   what doc_state says.  So whether the last word is right depends on the ORDER OF THE CRITICAL SECTIONS only *)
Theorem C09_batch_serialises :
  forall h w0 cs y,
  Inv w0 -> forallb batch_op h = true -> run cs (init h w0) = Some y -> quiescent y ->
  forall u, lookup u (s_docs (y_world y)) =
              option_map (good_entry (y_world y) u) (afold u (trace cs (init h w0)) (astate0 w0 u)) /\
            lastword (y_world y) u = pubval (y_world y) u.
Proof. exact batch_serialises. Qed.
Check C09_batch_serialises :
  forall h w0 cs y,
  Inv w0 -> forallb batch_op h = true -> run cs (init h w0) = Some y -> quiescent y ->
  forall u, lookup u (s_docs (y_world y)) =
              option_map (good_entry (y_world y) u) (afold u (trace cs (init h w0)) (astate0 w0 u)) /\
            lastword (y_world y) u = pubval (y_world y) u.
Print Assumptions C09_batch_serialises.

(* the trace is complete and sound: every didOpen / didChange / didClose of the history has its critical section
   in it, and every critical section in it is that of a message of the history (a didSave's carries the text it
   read from the file and no version) *)
Theorem C09_batch_all_executed :
  forall h w0 cs y,
  Inv w0 -> forallb batch_op h = true -> run cs (init h w0) = Some y -> quiescent y ->
  (forall o, In o h -> crit_op o = true -> In (event_of o) (trace cs (init h w0))) /\
  (forall e, In e (trace cs (init h w0)) -> from_op h e).
Proof. exact batch_all_executed. Qed.
Check C09_batch_all_executed :
  forall h w0 cs y,
  Inv w0 -> forallb batch_op h = true -> run cs (init h w0) = Some y -> quiescent y ->
  (forall o, In o h -> crit_op o = true -> In (event_of o) (trace cs (init h w0))) /\
  (forall e, In e (trace cs (init h w0)) -> from_op h e).
Print Assumptions C09_batch_all_executed.

(* EXACT SHAPE 1 (both directions): a document whose last word ought to be [] (closed at the end, or in a
   language without parser) has a WRONG last word IFF the last of its didOpen (language with a parser) /
   didClose critical sections is a didOpen's (close_overtaken) - i.e. a didClose overtook the didOpen it follows.
   didChange and didSave of the document, in any number and order, never matter.  This is exactly the class
   `reorder` of the known finding F17a-rest for closed documents (C09_reorder_close_refuted is the instance
   [Open; Close], critical sections in the order [Close; Open]) *)
Theorem C09_batch_closed_exact :
  forall h w0 cs y u,
  Inv w0 -> forallb batch_op h = true -> run cs (init h w0) = Some y -> quiescent y ->
  expected (y_world y) u = PEmpty ->
  (lastword (y_world y) u = expected (y_world y) u <-> close_overtaken w0 u (trace cs (init h w0)) = false).
Proof. exact batch_closed_exact. Qed.
Check C09_batch_closed_exact :
  forall h w0 cs y u,
  Inv w0 -> forallb batch_op h = true -> run cs (init h w0) = Some y -> quiescent y ->
  expected (y_world y) u = PEmpty ->
  (lastword (y_world y) u = expected (y_world y) u <-> close_overtaken w0 u (trace cs (init h w0)) = false).
Print Assumptions C09_batch_closed_exact.

(* EXACT SHAPE 2 (both directions): a document that is open at the end (language with a parser), whose
   messages in the history are didOpen / didChange only - no didSave, no didClose - and carry its newest
   version with its newest text and only with it (sess_ok, init_okb: decidable conditions on the history and
   the initial client state; satisfied by every client that increases the version with every change), has a
   WRONG last word IFF no critical section carrying the newest version is executed while the document has an
   entry (open_overtaken).  For a document opened in the batch, where all critical sections are executed
   (C09_batch_all_executed), that is: the newest didChange executed its critical section BEFORE the didOpen's.
   For a document that is open from the start the shape is empty - this generalises C09_versioned_changes
   to batches in which other documents are opened, saved and closed meanwhile.
   Outside: a didSave of the document in the batch (its file text carries no version:
   C09_reorder_save_refuted; C09_batch_serialises still says what doc_state ends as) and commands /
   configuration changes in flight (C09_dictionary_race_refuted) *)
Theorem C09_batch_open_exact :
  forall h w0 cs y u cd,
  Inv w0 -> forallb batch_op h = true -> run cs (init h w0) = Some y -> quiescent y ->
  lookup u (w_open (y_world y)) = Some cd -> kind (cd_lang cd) <> KNone ->
  sess_ok u cd h = true -> init_okb w0 u cd = true ->
  ((lastword (y_world y) u = expected (y_world y) u /\ pubval (y_world y) u = expected (y_world y) u)
   <-> open_overtaken w0 u (cd_ver cd) (trace cs (init h w0)) = false).
Proof. exact batch_open_exact. Qed.
Check C09_batch_open_exact :
  forall h w0 cs y u cd,
  Inv w0 -> forallb batch_op h = true -> run cs (init h w0) = Some y -> quiescent y ->
  lookup u (w_open (y_world y)) = Some cd -> kind (cd_lang cd) <> KNone ->
  sess_ok u cd h = true -> init_okb w0 u cd = true ->
  ((lastword (y_world y) u = expected (y_world y) u /\ pubval (y_world y) u = expected (y_world y) u)
   <-> open_overtaken w0 u (cd_ver cd) (trace cs (init h w0)) = false).
Print Assumptions C09_batch_open_exact.

(* a mixed batch (two didOpen, one of a source file whose handler holds the mutex inside use_ident_dict; two
   didChange completing newest first; a didSave overtaken by the didClose of its document): all hypotheses
   hold, neither shape occurs, both last words are right *)
Example C09_batch_nonvacuous :
  forallb batch_op mix_history = true /\
  exists y cd, run mix_schedule (init mix_history (world0 0)) = Some y /\ quiescentb y = true /\
    lookup uA (w_open (y_world y)) = Some cd /\ kind (cd_lang cd) = KCode /\
    sess_ok uA cd mix_history = true /\ init_okb (world0 0) uA cd = true /\
    open_overtaken (world0 0) uA (cd_ver cd) (trace mix_schedule (init mix_history (world0 0))) = false /\
    expected (y_world y) uB = PEmpty /\
    close_overtaken (world0 0) uB (trace mix_schedule (init mix_history (world0 0))) = false /\
    trace mix_schedule (init mix_history (world0 0)) =
      [EUpd uA (Some LCode) (mktext 0 7) (Some 1); EUpd uB (Some LPlain) (tx 1) (Some 1); EUpd uA None (mktext 3 8) (Some 3);
       EClose uB; EUpd uB None (tx 1) None; EUpd uA None (mktext 2 8) (Some 2)] /\
    freshb (y_world y) uA = true /\ freshb (y_world y) uB = true.
Proof. exact mix_batch_applies. Qed.

(* the two refuting schedules above (C09_reorder_refuted, C09_reorder_close_refuted) have exactly the two shapes *)
Example C09_batch_overtaken_examples :
  (forallb batch_op open_change_history = true /\
   exists y cd, run open_change_schedule (init open_change_history (world0 0)) = Some y /\ quiescentb y = true /\
     lookup uA (w_open (y_world y)) = Some cd /\ kind (cd_lang cd) = KPlain /\
     sess_ok uA cd open_change_history = true /\ init_okb (world0 0) uA cd = true /\
     open_overtaken (world0 0) uA (cd_ver cd) (trace open_change_schedule (init open_change_history (world0 0))) = true /\
     freshb (y_world y) uA = false) /\
  (forallb batch_op close_open_history = true /\
   exists y, run close_open_schedule (init close_open_history (world0 0)) = Some y /\ quiescentb y = true /\
     expected (y_world y) uA = PEmpty /\
     close_overtaken (world0 0) uA (trace close_open_schedule (init close_open_history (world0 0))) = true /\
     freshb (y_world y) uA = false).
Proof. exact overtaken_witnesses. Qed.

(* ================================================================================================
   Phase 4 (a): one handler at a time, EVERY kind of message, NO side condition on what the messages do.
   Model/C09Seq.v: `sstep o w` = the big-step specification of the handler of o (what pull_config and the
   dictionary files are read as, which documents are re-read from disk, what is installed and published);
   `lagb w u` = the entry doc_state holds for u lags behind the client (text / dictionary files / parser
   settings); `lag_after`, `f17b`, `f17c`, `f17d` = decidable predicates on (message, world before, url).
   `proto_okb` = the client keeps the protocol: didOpen only of a document that is not open, the version of a
   didChange is not older than the previous one - nothing else.
   ================================================================================================ *)

(* EVERY history (protocol-conforming or not): the handlers, run to completion one after the other instr by instr,
   end in exactly the world the big-step specification gives; every entry of doc_state has the shape an update
   leaves (WInv), and the last word of EVERY document is what doc_state would publish now - so whether a last
   word is right is a question about doc_state alone *)
Theorem C09_sequential_serialises :
  forall h c w, run_seq h (world0 c) = Some w ->
  w = sfold h (world0 c) /\ WInv w /\ forall u, lastword w u = pubval w u.
Proof. exact sequential_serialises. Qed.
Check C09_sequential_serialises :
  forall h c w, run_seq h (world0 c) = Some w ->
  w = sfold h (world0 c) /\ WInv w /\ forall u, lastword w u = pubval w u.
Print Assumptions C09_sequential_serialises.

(* The sequential clause at FULL strength, for every kind of message (didOpen/didChange/didSave/didClose/
   didChangeWatchedFiles/HarperAddToUserDict/HarperAddToFileDict/HarperIgnoreLint/HarperRecordLint/
   didChangeConfiguration) and every history of a client that keeps the protocol: a closed or deleted document ends
   with [], a document without parser is right, and an open document is right IFF its entry does not lag (installed
   text = newest client text, dictionary files as loaded = as they are now, parser settings = current settings).
   Replaces the side conditions of C09_sequential_partial by an exact description *)
Theorem C09_sequential_exact :
  forall h c w,
  proto_seqb h (world0 c) = true -> run_seq h (world0 c) = Some w ->
  forall u, (lastword w u = expected w u <-> lagb w u = false) /\
            (lookup u (w_open w) = None -> lastword w u = PEmpty) /\
            (tracked w u = false -> lastword w u = expected w u).
Proof. exact sequential_exact. Qed.
Check C09_sequential_exact :
  forall h c w,
  proto_seqb h (world0 c) = true -> run_seq h (world0 c) = Some w ->
  forall u, (lastword w u = expected w u <-> lagb w u = false) /\
            (lookup u (w_open w) = None -> lastword w u = PEmpty) /\
            (tracked w u = false -> lastword w u = expected w u).
Print Assumptions C09_sequential_exact.

(* one message from any reachable world (Reach = WInv + doc_state tracks exactly the open documents that have a
   parser, with the client's language, ignore list and version): the handler computes sstep, and the world stays reachable *)
Theorem C09_seq_step :
  forall o w w', Reach w -> proto_okb w o = true -> run_op o w = Some w' ->
  w' = sstep o w /\ Reach w'.
Proof. exact reach_step. Qed.
Check C09_seq_step :
  forall o w w', Reach w -> proto_okb w o = true -> run_op o w = Some w' ->
  w' = sstep o w /\ Reach w'.
Print Assumptions C09_seq_step.

(* in every reachable world: right IFF not lagging; closed documents have [] *)
Theorem C09_seq_reach_exact :
  forall w u, Reach w ->
  (lastword w u = expected w u <-> lagb w u = false) /\ (lookup u (w_open w) = None -> lastword w u = PEmpty).
Proof. exact reach_exact. Qed.
Check C09_seq_reach_exact :
  forall w u, Reach w ->
  (lastword w u = expected w u <-> lagb w u = false) /\ (lookup u (w_open w) = None -> lastword w u = PEmpty).
Print Assumptions C09_seq_reach_exact.

(* WHO LAGS AFTER ONE MESSAGE, from any reachable world (lagging documents included): a document the handler
   (re)installs (didOpen/didChange: the client's text; didSave/add-word command of u/didChangeConfiguration: the text
   of the FILE, when it can be read) lags iff that text is not the client's buffer; any other tracked document keeps
   its entry and lags iff that entry lags w.r.t. the dictionary files and settings as they are after the message *)
Theorem C09_seq_step_exact :
  forall o w w' u, Reach w -> proto_okb w o = true -> run_op o w = Some w' ->
  lagb w' u = lag_after o w u.
Proof. exact step_exact. Qed.
Check C09_seq_step_exact :
  forall o w w' u, Reach w -> proto_okb w o = true -> run_op o w = Some w' ->
  lagb w' u = lag_after o w u.
Print Assumptions C09_seq_step_exact.

(* THE EXCEPTIONS, EXACTLY (both directions): a document that does not lag before a message lags after it IFF
   F17b - an add-word command naming it / a configuration change re-reads it from its file while the buffer differs; or
   F17c - HarperAddToUserDict of a new word names ANOTHER document (only that one is re-checked); or
   F17d - an add-word command naming it / a configuration change really changes its dictionaries / the settings but the
          document cannot be read from disk (untitled, or no such file).
   Nothing else makes a sequential last word wrong (for a client that keeps the protocol) *)
Theorem C09_seq_exceptions_exact :
  forall o w w' u, Reach w -> proto_okb w o = true -> run_op o w = Some w' ->
  lagb w u = false ->
  (lagb w' u = true <-> f17b o w u = true \/ f17c o w u = true \/ f17d o w u = true).
Proof. exact step_exceptions_exact. Qed.
Check C09_seq_exceptions_exact :
  forall o w w' u, Reach w -> proto_okb w o = true -> run_op o w = Some w' ->
  lagb w u = false ->
  (lagb w' u = true <-> f17b o w u = true \/ f17c o w u = true \/ f17d o w u = true).
Print Assumptions C09_seq_exceptions_exact.

(* didOpen / didChange of u, and didSave of u when u is a file (a document that stays open: the file has just been
   written from the buffer), end with u not lagging WHATEVER its state was before - F17b/c/d are repaired by the
   next edit or save of the document *)
Theorem C09_seq_heals :
  forall o w w' u, Reach w -> proto_okb w o = true -> run_op o w = Some w' ->
  match o with
  | Open v _ _ _ | Change v _ _ => u = v
  | Save v => u = v /\ is_file v = true
  | _ => False
  end -> lagb w' u = false.
Proof. exact step_heals. Qed.
Check C09_seq_heals :
  forall o w w' u, Reach w -> proto_okb w o = true -> run_op o w = Some w' ->
  match o with
  | Open v _ _ _ | Change v _ _ => u = v
  | Save v => u = v /\ is_file v = true
  | _ => False
  end -> lagb w' u = false.
Print Assumptions C09_seq_heals.

(* every hypothesis above holds on a world with three open documents (unsaved changes / saved / untitled), and each
   exception occurs: F17b, F17c, F17d for HarperAddToUserDict; F17b for HarperAddToFileDict; F17b, F17d for a
   configuration change; none for the saved document, for a configuration change that changes nothing, for
   didSave, for HarperIgnoreLint *)
Example C09_seq_exceptions_nonvacuous :
  let w := sfold sq_prefix (world0 0) in
  proto_seqb sq_prefix (world0 0) = true /\ run_seq sq_prefix (world0 0) = Some w /\
  lagb w sq_uA = false /\ lagb w sq_uB = false /\ lagb w sq_uU = false /\
  f17b (AddUser 5 sq_uA) w sq_uA = true /\ f17c (AddUser 5 sq_uA) w sq_uB = true /\ f17c (AddUser 5 sq_uA) w sq_uU = true /\
  f17d (AddUser 5 sq_uU) w sq_uU = true /\ exception (AddUser 5 sq_uB) w sq_uB = false /\
  f17b (AddFile 6 sq_uA) w sq_uA = true /\ exception (AddFile 6 sq_uA) w sq_uB = false /\ exception (AddFile 6 sq_uB) w sq_uB = false /\
  f17b (CfgChange 1 []) w sq_uA = true /\ f17d (CfgChange 1 []) w sq_uU = true /\ exception (CfgChange 1 []) w sq_uB = false /\
  exception (CfgChange 0 []) w sq_uU = false /\ exception (Save sq_uA) w sq_uA = false /\ exception (Ignore sq_uA 3) w sq_uA = false.
Proof. exact exceptions_demo. Qed.

(* a history with every kind of message: two F17b (healed by the didSave), F17c + F17d on the untitled document (never healed) *)
Example C09_sequential_exact_nonvacuous :
  proto_seqb sq_history (world0 0) = true /\
  exists w, run_seq sq_history (world0 0) = Some w /\ w = sfold sq_history (world0 0) /\
    lagb w sq_uA = false /\ freshb w sq_uA = true /\
    lagb w sq_uU = true /\ freshb w sq_uU = false /\
    freshb w sq_uB = true /\ freshb w (UFile 1 0) = true /\ lastword w sq_uB = PEmpty.
Proof. exact sequential_exact_demo. Qed.

(* ================================================================================================
   Phase 4 (b): Backend.dict_write_lock (cfbe845) is in the model (world.s_dlock: ILoadUD / ILoadFD wait for it
   and take it, IWriteUD / IWriteFD release it).
   ================================================================================================ *)

(* For EVERY history (any messages) and EVERY schedule of the dispatcher (instr granularity, up to four handlers in
   flight, any order): when everything has been handled, the word of every HarperAddToUserDict is in the user
   dictionary file and the word of every HarperAddToFileDict of a file is in that file's dictionary, no word that
   was there is gone, and the lock is free again.  (Invariant: the lock is held iff some handler is between its load
   and its save; there is at most one; what it loaded is still what the file holds.) *)
Theorem C09_add_word_not_lost :
  forall h w0 cs y,
  s_dlock w0 = false -> run cs (init h w0) = Some y -> quiescent y ->
  (forall x u, In (AddUser x u) h -> In x (w_udict (y_world y))) /\
  (forall x u, In (AddFile x u) h -> is_file u = true -> In x (fdict_of (y_world y) u)) /\
  (forall x, In x (w_udict w0) -> In x (w_udict (y_world y))) /\
  (forall x u, In x (fdict_of w0 u) -> In x (fdict_of (y_world y) u)) /\
  s_dlock (y_world y) = false.
Proof. exact add_word_not_lost. Qed.
Check C09_add_word_not_lost :
  forall h w0 cs y,
  s_dlock w0 = false -> run cs (init h w0) = Some y -> quiescent y ->
  (forall x u, In (AddUser x u) h -> In x (w_udict (y_world y))) /\
  (forall x u, In (AddFile x u) h -> is_file u = true -> In x (fdict_of (y_world y) u)) /\
  (forall x, In x (w_udict w0) -> In x (w_udict (y_world y))) /\
  (forall x u, In x (fdict_of w0 u) -> In x (fdict_of (y_world y) u)) /\
  s_dlock (y_world y) = false.
Print Assumptions C09_add_word_not_lost.

(* three add-word commands in flight together: the second and third wait at their load while the first is between
   its load and its save; all three words arrive *)
Example C09_add_word_nonvacuous :
  (exists y, run two_words_schedule (init two_words_history (world0 0)) = Some y /\ quiescentb y = true /\
     w_udict (y_world y) = [5; 6] /\ fdict_of (y_world y) (UFile 0 0) = [7] /\ s_dlock (y_world y) = false) /\
  (exists y, run [CAdmit; CAdmit; CRun 0] (init two_words_history (world0 0)) = Some y /\
     s_dlock (y_world y) = true /\ step (CRun 1) y = None /\ step (CRun 0) y <> None).
Proof. exact (conj two_words_run lock_blocks_second_load). Qed.

(* HISTORY, labelled: with the add-word instrs as they were BEFORE cfbe845 (exec_before_cfbe845: no lock) the schedule
   "both load, then both save" ends with the first word overwritten; the current dispatcher refuses that schedule *)
Example C09_add_word_lost_before_cfbe845 :
  (exists y, run_before_cfbe845 lost_word_schedule (init [AddUser 5 (UFile 0 0); AddUser 6 (UFile 0 1)] (world0 0)) = Some y /\
     quiescentb y = true /\ w_udict (y_world y) = [6]) /\
  run lost_word_schedule (init [AddUser 5 (UFile 0 0); AddUser 6 (UFile 0 1)] (world0 0)) = None.
Proof. exact word_lost_before_cfbe845. Qed.

(* ================================================================================================
   Phase 4 (c): the call skeleton of the handlers in harper-ls/src/backend.rs, re-read from /repo on every run by
   tools/tables/c09handlers.py (Model/Tables_c09handlers.v), is the one the hand-written models follow
   (Proofs/C09Handlers.v says which piece of `prog` / `sstep` each line stands for): who calls update_document /
   update_document_from_file / publish_diagnostics in which order, that pull_config and the dictionary files are read
   BEFORE doc_state is locked and the version check comes first under the lock, that the add-word commands load and save
   under dict_write_lock and drop the guard BEFORE they re-read the document, that did_change_configuration rebuilds
   every linter under the lock and then re-reads and re-publishes every document.
   ================================================================================================ *)
Theorem C09_handler_skeletons :
  c09_skeletons = expected_skeletons.
Proof. exact handler_skeletons. Qed.
Check C09_handler_skeletons :
  c09_skeletons = expected_skeletons.
Print Assumptions C09_handler_skeletons.

(* ================================================================================================
   Phase 5: add-word commands and configuration changes IN FLIGHT with didChange (what remained of F17a: the
   dictionary race of C09_dictionary_race_refuted, "a didChange overtakes a command / a configuration change").
   Model/C09Race.v: `xtrace cs y` = the reads of the dictionary files, the writes of save_dict, the critical sections of
   update_document (with: does it leave the entry with its text, which settings it copied, does it build a new
   linter), the linter rebuilds of did_change_configuration and the publications, in the order the schedule executes
   them.  `race_overtaken w0 wf u tr` (decidable, on the trace): the LAST effective critical section of u does not carry
   the newest text, OR a dictionary file of u was changed after the handler of that critical section read it, OR that
   critical section copied other settings than the final ones, OR the last linter built for u has other settings, OR the
   last publication of u went out under other severity settings.
   ================================================================================================ *)

(* the explorer check_all visits EVERY schedule of the dispatcher `run` (any number of handlers, any world): if it
   answers Some true for P, then P holds of the trace and the final system of every schedule that ends quiescent *)
Theorem C09_race_explorer_complete :
  forall f P acc y, check_all f P acc y = Some true ->
  forall cs y', run cs y = Some y' -> quiescent y' -> P (rev acc ++ xtrace cs y) y' = true.
Proof. exact check_all_sound. Qed.
Check C09_race_explorer_complete :
  forall f P acc y, check_all f P acc y = Some true ->
  forall cs y', run cs y = Some y' -> quiescent y' -> P (rev acc ++ xtrace cs y) y' = true.
Print Assumptions C09_race_explorer_complete.

(* EXACT (both directions), for ALL schedules at await granularity, of every race of the family race_family (14
   members: HarperAddToUserDict / HarperAddToFileDict / didChangeConfiguration sent just before or just after a
   didChange, both in flight together; the command names the document itself (a saved file: it is re-read from disk),
   another document, or an untitled document): the last word of the document is right IFF race_overtaken is false.
   Between 2 002 and 293 930 schedules per member, every one visited (C09_race_explorer_complete).
   PARTIAL: the worlds and messages are those of the family, not arbitrary ones (the general statement needs the
   invariant of C09_batch_serialises with handlers that carry outdated dictionary / settings reads; not done);
   the definition of the shape is general, and the harness compares it with the real server on generated races. *)
Theorem C09_cmd_race_exact_partial :
  forall w0 h u, In (w0, h, u) race_family ->
  forall cs y, run cs (init h w0) = Some y -> quiescent y ->
  (lastword (y_world y) u = expected (y_world y) u <->
   race_overtaken w0 (y_world y) u (xtrace cs (init h w0)) = false).
Proof. exact race_family_all_exact. Qed.
Check C09_cmd_race_exact_partial :
  forall w0 h u, In (w0, h, u) race_family ->
  forall cs y, run cs (init h w0) = Some y -> quiescent y ->
  (lastword (y_world y) u = expected (y_world y) u <->
   race_overtaken w0 (y_world y) u (xtrace cs (init h w0)) = false).
Print Assumptions C09_cmd_race_exact_partial.

(* the family is what the comment says: every member is in the class race_okb, starts with a right last word, has two
   messages *)
Example C09_cmd_race_nonvacuous :
  length race_family = 14 /\
  forallb (fun m => match m with (w0, h, u) => race_okb w0 h u && freshb w0 u && (length h =? 2) end) race_family = true /\
  In (race_wA, [AddUser 5 uA; Change uA (tx 1) 2], uA) race_family /\
  In (race_wS, [Change uA (tx 1) 2; CfgChange 1 []], uA) race_family.
Proof. exact race_family_nonvacuous. Qed.

(* both sides of the IFF occur: of the 2 002 schedules of [AddUser 5 uB; Change uA] 686 leave uA's last word wrong, and
   the shape flags 686 *)
Example C09_cmd_race_counts :
  count_all race_fuel (fun tr y => race_overtaken race_wA (y_world y) uA tr) [] (init [AddUser 5 uB; Change uA (tx 1) 2] race_wA)
    = (2002%N, 686%N) /\
  count_all race_fuel (fun _ y => negb (freshb (y_world y) uA)) [] (init [AddUser 5 uB; Change uA (tx 1) 2] race_wA)
    = (2002%N, 686%N).
Proof. exact race_counts_example. Qed.

(* the witness of C09_dictionary_race_refuted (three handlers in flight, the didOpen among them) is in the class and has
   exactly the flag "dictionary overtaken" *)
Example C09_dictionary_race_shape :
  exists y, run dict_race_schedule (init dict_race_history (world0 0)) = Some y /\ quiescentb y = true /\
    race_okb (world0 0) dict_race_history uA = true /\
    race_shape (world0 0) (y_world y) uA (xtrace dict_race_schedule (init dict_race_history (world0 0)))
      = mkflags false true false false false /\
    freshb (y_world y) uA = false.
Proof. exact dict_race_shape. Qed.

(* ================================================================================================
   Phase 6: the shape for ARBITRARY histories, by induction over the schedule (Proofs/C09RaceGen.v) - no exploration.
   Class: `forallb okop h` = the history has no didOpen of a source-code document and no didChangeWatchedFiles
   (any number of didOpen / didChange / didSave / didClose / HarperAddToUserDict / HarperAddToFileDict / ignore /
   record / didChangeConfiguration, any documents, up to four in flight); start `race_gen_start w0 u` = the dictionary
   write lock is free, doc_state holds no source-code document, the text of u's last word is the text doc_state holds.
   ================================================================================================ *)

(* at the end of EVERY schedule: the text of the last word of u is the text doc_state would publish (ptv), and the text
   doc_state holds is that of the LAST EFFECTIVE critical section of u in the trace (curt; the initial entry's if none) *)
Theorem C09_race_text_last :
  forall w0 h u cs y, race_gen_start w0 u -> forallb okop h = true ->
  run cs (init h w0) = Some y -> quiescent y ->
  ptext (lastword (y_world y) u) = ptv (y_world y) u /\
  forall e, lookup u (s_docs (y_world y)) = Some e -> curt u w0 (xtrace cs (init h w0)) = Some (e_text e).
Proof. exact race_text_last. Qed.
Check C09_race_text_last :
  forall w0 h u cs y, race_gen_start w0 u -> forallb okop h = true ->
  run cs (init h w0) = Some y -> quiescent y ->
  ptext (lastword (y_world y) u) = ptv (y_world y) u /\
  forall e, lookup u (s_docs (y_world y)) = Some e -> curt u w0 (xtrace cs (init h w0)) = Some (e_text e).
Print Assumptions C09_race_text_last.

(* EXACT for the text component, all histories of the class, all schedules: the last word of a document the client has
   open carries the newest text IFF the flag `text overtaken` of race_shape is absent and doc_state publishes
   something for the document.  PARTIAL: one of the five flags, the class above. *)
Theorem C09_race_text_exact_partial :
  forall w0 h u cs y cd, race_gen_start w0 u -> forallb okop h = true ->
  run cs (init h w0) = Some y -> quiescent y ->
  lookup u (w_open (y_world y)) = Some cd ->
  (ptext (lastword (y_world y) u) = Some (cd_text cd) <->
   rf_text (race_shape w0 (y_world y) u (xtrace cs (init h w0))) = false /\ ptv (y_world y) u <> None).
Proof. exact race_text_exact. Qed.
Check C09_race_text_exact_partial :
  forall w0 h u cs y cd, race_gen_start w0 u -> forallb okop h = true ->
  run cs (init h w0) = Some y -> quiescent y ->
  lookup u (w_open (y_world y)) = Some cd ->
  (ptext (lastword (y_world y) u) = Some (cd_text cd) <->
   rf_text (race_shape w0 (y_world y) u (xtrace cs (init h w0))) = false /\ ptv (y_world y) u <> None).
Print Assumptions C09_race_text_exact_partial.

(* the 'if' direction of the shape, first flag: text overtaken -> the last word is wrong *)
Theorem C09_race_text_sound_partial :
  forall w0 h u cs y cd, race_gen_start w0 u -> forallb okop h = true ->
  run cs (init h w0) = Some y -> quiescent y ->
  lookup u (w_open (y_world y)) = Some cd -> kind (cd_lang cd) <> KNone ->
  rf_text (race_shape w0 (y_world y) u (xtrace cs (init h w0))) = true ->
  lastword (y_world y) u <> expected (y_world y) u.
Proof. exact race_text_sound. Qed.
Check C09_race_text_sound_partial :
  forall w0 h u cs y cd, race_gen_start w0 u -> forallb okop h = true ->
  run cs (init h w0) = Some y -> quiescent y ->
  lookup u (w_open (y_world y)) = Some cd -> kind (cd_lang cd) <> KNone ->
  rf_text (race_shape w0 (y_world y) u (xtrace cs (init h w0))) = true ->
  lastword (y_world y) u <> expected (y_world y) u.
Print Assumptions C09_race_text_sound_partial.

(* the hypotheses are satisfiable on a race that is NOT in the explored family: two didChange and a HarperAddToUserDict
   naming the same saved file, all three in flight (31 steps); the command's re-read runs its critical section last *)
Example C09_race_gen_nonvacuous :
  race_gen_start race_wA uA /\ forallb okop gen_example_h = true /\
  exists y cd, run gen_example_cs (init gen_example_h race_wA) = Some y /\ quiescent y /\
    lookup uA (w_open (y_world y)) = Some cd /\ kind (cd_lang cd) <> KNone /\ cd_text cd = tx 2 /\
    length gen_example_cs = 31 /\
    race_shape race_wA (y_world y) uA (xtrace gen_example_cs (init gen_example_h race_wA)) = mkflags true false false false false /\
    ptext (lastword (y_world y) uA) = Some (tx 0).
Proof. exact race_gen_example. Qed.

(* at the end of EVERY schedule the last word of u is what doc_state would publish now, but for the severity settings
   (pstrip / psv drop them): the form `lastword = pubval` (C09_batch_serialises) takes for histories with commands and
   configuration changes - as it stands it is false there: the pull_config of ANY handler moves the severity settings *)
Theorem C09_race_last_is_doc_state :
  forall w0 h u cs y, race_gen_start w0 u -> forallb okop h = true ->
  run cs (init h w0) = Some y -> quiescent y ->
  pstrip (lastword (y_world y) u) = psv (y_world y) u.
Proof. exact race_last_is_doc_state. Qed.
Check C09_race_last_is_doc_state :
  forall w0 h u cs y, race_gen_start w0 u -> forallb okop h = true ->
  run cs (init h w0) = Some y -> quiescent y ->
  pstrip (lastword (y_world y) u) = psv (y_world y) u.
Print Assumptions C09_race_last_is_doc_state.

(* EXACT (both directions) for four of the five flags, all histories of the class, all schedules: when the last word of u
   is a diagnostics array a, the flags parser settings / linter settings / severity settings / text of race_shape ARE the
   comparisons of a's components with the client's current settings resp. the newest client text.
   PARTIAL: the fifth flag (a dictionary file of u changed after the handler of the last effective critical section
   read it  <->  a_dict / a_ddict are not the current files) is not covered: it needs the dictionary reads of every
   handler in flight in the invariant and the monotonicity of the files; with it, and language / ignore list, the 'only
   if' direction (no flag -> last word right) would follow.  Class as above (no source code, no didChangeWatchedFiles). *)
Theorem C09_race_flags_exact_partial :
  forall w0 h u cs y a, race_gen_start w0 u -> forallb okop h = true ->
  run cs (init h w0) = Some y -> quiescent y ->
  lastword (y_world y) u = PDiag a ->
  let f := race_shape w0 (y_world y) u (xtrace cs (init h w0)) in
  rf_pcfg f = negb (a_pcfg a =? w_ccfg (y_world y)) /\
  rf_lcfg f = negb (a_lcfg a =? w_ccfg (y_world y)) /\
  rf_scfg f = negb (a_scfg a =? w_ccfg (y_world y)) /\
  forall cd, lookup u (w_open (y_world y)) = Some cd -> rf_text f = negb (text_eqb (a_text a) (cd_text cd)).
Proof. exact race_flags_exact. Qed.
Check C09_race_flags_exact_partial :
  forall w0 h u cs y a, race_gen_start w0 u -> forallb okop h = true ->
  run cs (init h w0) = Some y -> quiescent y ->
  lastword (y_world y) u = PDiag a ->
  let f := race_shape w0 (y_world y) u (xtrace cs (init h w0)) in
  rf_pcfg f = negb (a_pcfg a =? w_ccfg (y_world y)) /\
  rf_lcfg f = negb (a_lcfg a =? w_ccfg (y_world y)) /\
  rf_scfg f = negb (a_scfg a =? w_ccfg (y_world y)) /\
  forall cd, lookup u (w_open (y_world y)) = Some cd -> rf_text f = negb (text_eqb (a_text a) (cd_text cd)).
Print Assumptions C09_race_flags_exact_partial.

(* the 'if' direction of race_overtaken for four of its five flags, WITHOUT the start condition on the dictionaries:
   text, parser settings, linter settings or severity settings overtaken -> the last word of a document the client has
   open (in a language with a parser) is wrong.
   Any number of commands / configuration changes / didChange / didOpen / didSave / didClose in flight, any documents.
   (Phase 6 name: C09_race_flags_sound_partial; that name now states all five flags, below.) *)
Theorem C09_race_flags4_sound_partial :
  forall w0 h u cs y cd, race_gen_start w0 u -> forallb okop h = true ->
  run cs (init h w0) = Some y -> quiescent y ->
  lookup u (w_open (y_world y)) = Some cd -> kind (cd_lang cd) <> KNone ->
  let f := race_shape w0 (y_world y) u (xtrace cs (init h w0)) in
  rf_text f || rf_pcfg f || rf_lcfg f || rf_scfg f = true ->
  lastword (y_world y) u <> expected (y_world y) u.
Proof. exact race_flags_sound. Qed.
Check C09_race_flags4_sound_partial :
  forall w0 h u cs y cd, race_gen_start w0 u -> forallb okop h = true ->
  run cs (init h w0) = Some y -> quiescent y ->
  lookup u (w_open (y_world y)) = Some cd -> kind (cd_lang cd) <> KNone ->
  let f := race_shape w0 (y_world y) u (xtrace cs (init h w0)) in
  rf_text f || rf_pcfg f || rf_lcfg f || rf_scfg f = true ->
  lastword (y_world y) u <> expected (y_world y) u.
Print Assumptions C09_race_flags4_sound_partial.

(* Phase 7 (Proofs/C09RaceDict.v): the FIFTH flag.  `race_dict_start w0 u`: the entry doc_state holds for u at the start
   (if any) has base_dict = dict and dictionaries not longer than the dictionary files (true when it is up to date with the
   files, `dict_start_uptodate`).  If a dictionary file of u (user dictionary / its file dictionary) is CHANGED by an
   add-word command after the handler of u's last effective critical section read it (no such critical section: at any
   time), the last word of u is wrong - every history of the class, every schedule.  Invariant DInv (dinv_step): the
   dictionary files only grow in length and a changing write makes its file strictly longer (dict_write_lock: the
   holder's copy is the file); a handler that is past its dictionary read and before its critical section holds a
   snapshot not longer than the file, strictly shorter once a changing write followed its read; u's entry carries the
   snapshot of the handler of its last effective critical section, base_dict = dict. *)
Theorem C09_race_dict_sound_partial :
  forall w0 h u cs y cd, race_gen_start w0 u -> race_dict_start w0 u -> forallb okop h = true ->
  run cs (init h w0) = Some y -> quiescent y ->
  lookup u (w_open (y_world y)) = Some cd -> kind (cd_lang cd) <> KNone ->
  rf_dict (race_shape w0 (y_world y) u (xtrace cs (init h w0))) = true ->
  lastword (y_world y) u <> expected (y_world y) u.
Proof. exact race_dict_sound. Qed.
Check C09_race_dict_sound_partial :
  forall w0 h u cs y cd, race_gen_start w0 u -> race_dict_start w0 u -> forallb okop h = true ->
  run cs (init h w0) = Some y -> quiescent y ->
  lookup u (w_open (y_world y)) = Some cd -> kind (cd_lang cd) <> KNone ->
  rf_dict (race_shape w0 (y_world y) u (xtrace cs (init h w0))) = true ->
  lastword (y_world y) u <> expected (y_world y) u.
Print Assumptions C09_race_dict_sound_partial.

(* the complete 'if' direction of the shape: race_overtaken (ANY of the five flags) -> the last word is wrong.
   Partial: the 'only if' direction and source-code documents / didChangeWatchedFiles remain (explored family only). *)
Theorem C09_race_flags_sound_partial :
  forall w0 h u cs y cd, race_gen_start w0 u -> race_dict_start w0 u -> forallb okop h = true ->
  run cs (init h w0) = Some y -> quiescent y ->
  lookup u (w_open (y_world y)) = Some cd -> kind (cd_lang cd) <> KNone ->
  race_overtaken w0 (y_world y) u (xtrace cs (init h w0)) = true ->
  lastword (y_world y) u <> expected (y_world y) u.
Proof. exact race_flags_sound5. Qed.
Check C09_race_flags_sound_partial :
  forall w0 h u cs y cd, race_gen_start w0 u -> race_dict_start w0 u -> forallb okop h = true ->
  run cs (init h w0) = Some y -> quiescent y ->
  lookup u (w_open (y_world y)) = Some cd -> kind (cd_lang cd) <> KNone ->
  race_overtaken w0 (y_world y) u (xtrace cs (init h w0)) = true ->
  lastword (y_world y) u <> expected (y_world y) u.
Print Assumptions C09_race_flags_sound_partial.

(* non-vacuity for the dictionary flag (NOT in the explored family's schedules by construction: instr granularity): a
   didChange has read both dictionaries when HarperAddToUserDict (sent after it, naming another document) saves the user
   dictionary; the didChange then runs its critical section and publishes (15 steps): flag `dictionary` alone, the last
   word has the newest text but a user dictionary without word 5 *)
Example C09_race_dict_nonvacuous :
  race_gen_start race_wA uA /\ race_dict_start race_wA uA /\ forallb okop dict_example_h = true /\
  exists y cd a, run dict_example_cs (init dict_example_h race_wA) = Some y /\ quiescent y /\
    lookup uA (w_open (y_world y)) = Some cd /\ kind (cd_lang cd) <> KNone /\
    lastword (y_world y) uA = PDiag a /\
    race_shape race_wA (y_world y) uA (xtrace dict_example_cs (init dict_example_h race_wA)) = mkflags false true false false false /\
    (a_text a, dv_user (a_dict a), w_udict (y_world y)) = (tx 1, [], [5]).
Proof. exact race_dict_example. Qed.

(* Phase 7 (Proofs/C09RaceOnlyIf.v): the 'ONLY IF' direction for the text flag alone.  `forallb (noclose u) h`: the history
   has no didClose of u (any other message, any other document, as before); `race_text_start w0 u`: the entry doc_state
   holds for u at the start (if any) has a language with a parser and a text.  Then an entry of u, once there, stays
   (invariant EInv: no handler in flight / queued closes u; an update that finds u's entry never removes it), so the
   side condition `doc_state publishes something for u` of C09_race_text_exact_partial is discharged:
   text flag absent -> the last word of u carries the newest text.
   Partial: the other four components have no 'only if' yet (dictionaries: needs `unchanged -> equal`, language and
   ignore list), and histories WITH a didClose of u (re-opened documents) are outside. *)
Theorem C09_race_text_onlyif_partial :
  forall w0 h u cs y cd, race_gen_start w0 u -> race_text_start w0 u ->
  forallb okop h = true -> forallb (noclose u) h = true ->
  run cs (init h w0) = Some y -> quiescent y ->
  lookup u (w_open (y_world y)) = Some cd ->
  rf_text (race_shape w0 (y_world y) u (xtrace cs (init h w0))) = false ->
  ptext (lastword (y_world y) u) = Some (cd_text cd).
Proof. exact race_text_onlyif. Qed.
Check C09_race_text_onlyif_partial :
  forall w0 h u cs y cd, race_gen_start w0 u -> race_text_start w0 u ->
  forallb okop h = true -> forallb (noclose u) h = true ->
  run cs (init h w0) = Some y -> quiescent y ->
  lookup u (w_open (y_world y)) = Some cd ->
  rf_text (race_shape w0 (y_world y) u (xtrace cs (init h w0))) = false ->
  ptext (lastword (y_world y) u) = Some (cd_text cd).
Print Assumptions C09_race_text_onlyif_partial.

(* both directions, text component: for such histories the last word has the newest text IFF the flag is absent *)
Theorem C09_race_text_iff_partial :
  forall w0 h u cs y cd, race_gen_start w0 u -> race_text_start w0 u ->
  forallb okop h = true -> forallb (noclose u) h = true ->
  run cs (init h w0) = Some y -> quiescent y ->
  lookup u (w_open (y_world y)) = Some cd ->
  (ptext (lastword (y_world y) u) = Some (cd_text cd) <->
   rf_text (race_shape w0 (y_world y) u (xtrace cs (init h w0))) = false).
Proof. exact race_text_iff. Qed.
Check C09_race_text_iff_partial :
  forall w0 h u cs y cd, race_gen_start w0 u -> race_text_start w0 u ->
  forallb okop h = true -> forallb (noclose u) h = true ->
  run cs (init h w0) = Some y -> quiescent y ->
  lookup u (w_open (y_world y)) = Some cd ->
  (ptext (lastword (y_world y) u) = Some (cd_text cd) <->
   rf_text (race_shape w0 (y_world y) u (xtrace cs (init h w0))) = false).
Print Assumptions C09_race_text_iff_partial.

(* non-vacuity, both sides of the IFF, three / two handlers in flight: the dictionary race above has no text flag and the
   last word has the newest text 1; the schedule of C09_race_gen_nonvacuous has the flag and the last word has text 0 *)
Example C09_race_text_onlyif_nonvacuous :
  race_gen_start race_wA uA /\ race_text_start race_wA uA /\
  forallb okop dict_example_h = true /\ forallb (noclose uA) dict_example_h = true /\
  forallb okop gen_example_h = true /\ forallb (noclose uA) gen_example_h = true /\
  (exists y cd, run dict_example_cs (init dict_example_h race_wA) = Some y /\ quiescent y /\
     lookup uA (w_open (y_world y)) = Some cd /\ cd_text cd = tx 1 /\
     rf_text (race_shape race_wA (y_world y) uA (xtrace dict_example_cs (init dict_example_h race_wA))) = false /\
     ptext (lastword (y_world y) uA) = Some (tx 1)) /\
  (exists y cd, run gen_example_cs (init gen_example_h race_wA) = Some y /\ quiescent y /\
     lookup uA (w_open (y_world y)) = Some cd /\ cd_text cd = tx 2 /\
     rf_text (race_shape race_wA (y_world y) uA (xtrace gen_example_cs (init gen_example_h race_wA))) = true /\
     ptext (lastword (y_world y) uA) = Some (tx 0)).
Proof. exact race_text_onlyif_example. Qed.

(* Phase 7 (Proofs/C09RaceDictEq.v): the dictionary flag is EXACT, both directions.  `race_dict_start_eq w0 u`: the entry
   doc_state holds for u at the start (if any) is up to date with the dictionary files (base_dict = dict = the dictionary
   the document was parsed with = (user dictionary file, u's file dictionary, no identifiers); decidable: dict_start_eqb).
   When the last word of u is a diagnostics array: the flag `dictionary overtaken` is set IFF one of the two dictionaries of
   its provenance is not what the dictionary files hold at the end.  The new half by EQUALITY (invariant QInv): a handler
   past its dictionary read and before its critical section holds exactly the file as long as no changing save followed
   its read; a step without a changing save leaves the files as they are.  With C09_race_flags_exact_partial: ALL FIVE
   flags of race_shape are the comparisons of the corresponding components of the last word. *)
Theorem C09_race_dict_exact_partial :
  forall w0 h u cs y a, race_gen_start w0 u -> race_dict_start_eq w0 u -> forallb okop h = true ->
  run cs (init h w0) = Some y -> quiescent y ->
  lastword (y_world y) u = PDiag a ->
  let cur := mkdict (w_udict (y_world y)) (fdict_of (y_world y) u) 0 in
  rf_dict (race_shape w0 (y_world y) u (xtrace cs (init h w0))) = negb (dictv_eqb (a_dict a) cur && dictv_eqb (a_ddict a) cur).
Proof. exact race_dict_exact. Qed.
Check C09_race_dict_exact_partial :
  forall w0 h u cs y a, race_gen_start w0 u -> race_dict_start_eq w0 u -> forallb okop h = true ->
  run cs (init h w0) = Some y -> quiescent y ->
  lastword (y_world y) u = PDiag a ->
  let cur := mkdict (w_udict (y_world y)) (fdict_of (y_world y) u) 0 in
  rf_dict (race_shape w0 (y_world y) u (xtrace cs (init h w0))) = negb (dictv_eqb (a_dict a) cur && dictv_eqb (a_ddict a) cur).
Print Assumptions C09_race_dict_exact_partial.

(* hence the shape is exact up to the two components it does not look at: for a plain-text / markdown document whose last
   word is a diagnostics array, the last word is right IFF race_overtaken is absent AND the language and the ignore list of
   its provenance are the client's.  Partial: language / ignore list (the ignore race, a didOpen with another language
   overtaken) and `the last word is not []` are not yet read off the trace; source code / didChangeWatchedFiles outside. *)
Theorem C09_race_shape_exact_partial :
  forall w0 h u cs y a cd, race_gen_start w0 u -> race_dict_start_eq w0 u -> forallb okop h = true ->
  run cs (init h w0) = Some y -> quiescent y ->
  lastword (y_world y) u = PDiag a ->
  lookup u (w_open (y_world y)) = Some cd -> kind (cd_lang cd) = KPlain ->
  (lastword (y_world y) u = expected (y_world y) u <->
   race_overtaken w0 (y_world y) u (xtrace cs (init h w0)) = false /\ a_lang a = cd_lang cd /\ a_ign a = cd_ign cd).
Proof. exact race_shape_exact_mod. Qed.
Check C09_race_shape_exact_partial :
  forall w0 h u cs y a cd, race_gen_start w0 u -> race_dict_start_eq w0 u -> forallb okop h = true ->
  run cs (init h w0) = Some y -> quiescent y ->
  lastword (y_world y) u = PDiag a ->
  lookup u (w_open (y_world y)) = Some cd -> kind (cd_lang cd) = KPlain ->
  (lastword (y_world y) u = expected (y_world y) u <->
   race_overtaken w0 (y_world y) u (xtrace cs (init h w0)) = false /\ a_lang a = cd_lang cd /\ a_ign a = cd_ign cd).
Print Assumptions C09_race_shape_exact_partial.

(* non-vacuity, both sides: the dictionary race of C09_race_dict_nonvacuous (flag set, both dictionaries of the last word
   lack word 5, the last word is wrong) and the same two messages the other way round one after the other (15 steps: no
   flag at all, dictionaries [5], the last word is right) *)
Example C09_race_dict_exact_nonvacuous :
  race_gen_start race_wA uA /\ race_dict_start_eq race_wA uA /\
  forallb okop dict_example_h = true /\ forallb okop dict_example_h2 = true /\
  (exists y cd a, run dict_example_cs (init dict_example_h race_wA) = Some y /\ quiescent y /\
     lastword (y_world y) uA = PDiag a /\ lookup uA (w_open (y_world y)) = Some cd /\ kind (cd_lang cd) = KPlain /\
     race_shape race_wA (y_world y) uA (xtrace dict_example_cs (init dict_example_h race_wA)) = mkflags false true false false false /\
     (a_dict a, a_ddict a, w_udict (y_world y), fdict_of (y_world y) uA) = (mkdict [] [] 0, mkdict [] [] 0, [5], []) /\
     freshb (y_world y) uA = false) /\
  (exists y cd a, run dict_example_cs2 (init dict_example_h2 race_wA) = Some y /\ quiescent y /\
     lastword (y_world y) uA = PDiag a /\ lookup uA (w_open (y_world y)) = Some cd /\ kind (cd_lang cd) = KPlain /\
     race_overtaken race_wA (y_world y) uA (xtrace dict_example_cs2 (init dict_example_h2 race_wA)) = false /\
     (a_dict a, a_ddict a, w_udict (y_world y)) = (mkdict [5] [] 0, mkdict [5] [] 0, [5]) /\
     freshb (y_world y) uA = true).
Proof. exact race_dict_exact_example. Qed.

(* non-vacuity for the settings flags: a didChange whose configuration round-trip was answered before a
   didChangeConfiguration arrived goes on only after that handler has finished (23 steps): it writes the old settings
   back, parses and publishes under them - flags parser settings + severity settings, the last word has exactly these
   components outdated *)
Example C09_race_gen_settings_nonvacuous :
  race_gen_start race_wS uA /\ forallb okop gen_example2_h = true /\
  exists y cd a, run gen_example2_cs (init gen_example2_h race_wS) = Some y /\ quiescent y /\
    lookup uA (w_open (y_world y)) = Some cd /\ kind (cd_lang cd) <> KNone /\
    lastword (y_world y) uA = PDiag a /\
    race_shape race_wS (y_world y) uA (xtrace gen_example2_cs (init gen_example2_h race_wS)) = mkflags false false true false true /\
    (a_text a, a_pcfg a, a_lcfg a, a_scfg a, w_ccfg (y_world y)) = (tx 1, 0, 1, 0, 1).
Proof. exact race_gen_example2. Qed.
