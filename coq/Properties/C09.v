(* C09 — The language server's last word on a document reflects the latest text.
   This file pins the statements; it contains nothing but `exact`.
   Model: Model/Server.v (handlers of harper-ls/src/backend.rs split at their awaits, at most four in
   flight, any enabled one may advance).  `lastword w u` is what the client shows for u (the most
   recent publishDiagnostics, by provenance), `expected w u` what the property demands. *)
Require Import Base Server ServerProofs ServerSeq ServerConc ServerClose.

(* F17a — two didChange in flight, handled in the opposite order: the server's last word (and its
   doc_state) is the OLDER text.  `reorder_schedule` admits both, then runs the second to completion
   before the first. *)
Theorem C09_reorder_refuted :
  exists y, run reorder_schedule (init reorder_history (world0 0)) = Some y /\ quiescent y /\
    exists a b, lastword (y_world y) uA = PDiag a /\ expected (y_world y) uA = PDiag b /\
                a_text a = tx 1 /\ a_text b = tx 2 /\ pubval (y_world y) uA = PDiag a.
Proof. exact reorder_refuted. Qed.
Check C09_reorder_refuted :
  exists y, run reorder_schedule (init reorder_history (world0 0)) = Some y /\ quiescent y /\
    exists a b, lastword (y_world y) uA = PDiag a /\ expected (y_world y) uA = PDiag b /\
                a_text a = tx 1 /\ a_text b = tx 2 /\ pubval (y_world y) uA = PDiag a.
Print Assumptions C09_reorder_refuted.

(* the same at the granularity the harness executes on the real Backend *)
Theorem C09_reorder_refuted_client_granularity :
  exists y, krun reorder_kschedule (init reorder_history (world0 0)) = Some y /\ quiescent y /\
    freshb (y_world y) uA = false.
Proof. exact reorder_refuted_k. Qed.
Check C09_reorder_refuted_client_granularity :
  exists y, krun reorder_kschedule (init reorder_history (world0 0)) = Some y /\ quiescent y /\
    freshb (y_world y) uA = false.
Print Assumptions C09_reorder_refuted_client_granularity.

(* F17b — HarperAddToUserDict / HarperAddToFileDict / didChangeConfiguration re-read the FILE: with an
   unsaved buffer (text 1) the last word is that of the text on disk (text 9), one handler at a time *)
Theorem C09_disk_refuted :
  shows_disk_text (AddUser 5 uA) /\ shows_disk_text (AddFile 5 uA) /\ shows_disk_text (CfgChange 1 []).
Proof. exact disk_refuted. Qed.
Check C09_disk_refuted :
  shows_disk_text (AddUser 5 uA) /\ shows_disk_text (AddFile 5 uA) /\ shows_disk_text (CfgChange 1 []).
Print Assumptions C09_disk_refuted.

(* F17c — the user dictionary is global, but only the document named in the command is re-checked *)
Theorem C09_other_document_refuted :
  exists w, run_seq [Open uA LPlain (tx 0); Open uB LPlain (tx 1); Save uA; Save uB; AddUser 5 uA] (world0 0) = Some w /\
    freshb w uA = true /\
    exists a b, lastword w uB = PDiag a /\ expected w uB = PDiag b /\
                dv_user (a_dict a) = [] /\ dv_user (a_dict b) = [5].
Proof. exact other_document_stale. Qed.
Check C09_other_document_refuted :
  exists w, run_seq [Open uA LPlain (tx 0); Open uB LPlain (tx 1); Save uA; Save uB; AddUser 5 uA] (world0 0) = Some w /\
    freshb w uA = true /\
    exists a b, lastword w uB = PDiag a /\ expected w uB = PDiag b /\
                dv_user (a_dict a) = [] /\ dv_user (a_dict b) = [5].
Print Assumptions C09_other_document_refuted.

(* F17d — a document that cannot be read from disk (untitled:) is re-published from the old check *)
Theorem C09_untitled_refuted :
  exists w, run_seq [Open (UUntitled 1) LPlain (tx 0); AddUser 5 (UUntitled 1)] (world0 0) = Some w /\
    exists a b, lastword w (UUntitled 1) = PDiag a /\ expected w (UUntitled 1) = PDiag b /\
                dv_user (a_dict a) = [] /\ dv_user (a_dict b) = [5].
Proof. exact untitled_stale. Qed.
Check C09_untitled_refuted :
  exists w, run_seq [Open (UUntitled 1) LPlain (tx 0); AddUser 5 (UUntitled 1)] (world0 0) = Some w /\
    exists a b, lastword w (UUntitled 1) = PDiag a /\ expected w (UUntitled 1) = PDiag b /\
                dv_user (a_dict a) = [] /\ dv_user (a_dict b) = [5].
Print Assumptions C09_untitled_refuted.

(* F17e — the second update of a source-code document drops its identifier dictionary: the same text
   is checked differently after open;change than after open *)
Theorem C09_ident_refuted :
  exists w, run_seq [Open uA LCode code_text; Change uA code_text] (world0 0) = Some w /\
    exists a b, lastword w uA = PDiag a /\ expected w uA = PDiag b /\
                a_text a = a_text b /\ dv_ident (a_dict a) = 0 /\ dv_ident (a_dict b) = 7.
Proof. exact ident_refuted. Qed.
Check C09_ident_refuted :
  exists w, run_seq [Open uA LCode code_text; Change uA code_text] (world0 0) = Some w /\
    exists a b, lastword w uA = PDiag a /\ expected w uA = PDiag b /\
                a_text a = a_text b /\ dv_ident (a_dict a) = 0 /\ dv_ident (a_dict b) = 7.
Print Assumptions C09_ident_refuted.

(* ================================================================================================
   What DOES hold.
   ================================================================================================ *)

(* Sequential clause, _partial: one handler at a time (run_seq), from a freshly initialised server.
   For every history whose messages satisfy the side conditions `op_safeb` in the world they are sent
   in (Proofs/ServerSeq.v):
     didOpen of a document that is not open; didChange of one that is; didSave, didClose,
     didChangeWatchedFiles, HarperIgnoreLint, HarperRecordLint: always;
     HarperAddToUserDict x u: u is closed, has no parser, or is saved (file on disk = buffer), AND the word
       is already there or every OTHER open document has no parser;
     HarperAddToFileDict x u: u is closed, has no parser, is saved, or is untitled;
     didChangeConfiguration: every open document with a parser is saved;
     texts of source-code documents define no identifiers (t_ident = 0),
   the last publication for every document is computed from the newest client text, the current
   dictionary files and the current settings (linter, parser and severity alike) and the client's ignore
   list; doc_state agrees (pubval); documents that are not open end with [].
   Missing for the full clause: exactly the excluded cases, each refuted above (F17b-e). *)
Theorem C09_sequential_partial : forall h c w,
  seq_safeb h (world0 c) = true -> run_seq h (world0 c) = Some w ->
  forall u, lastword w u = expected w u /\ pubval w u = expected w u /\
            (lookup u (w_open w) = None -> lastword w u = PEmpty).
Proof. exact sequential. Qed.
Check C09_sequential_partial : forall h c w,
  seq_safeb h (world0 c) = true -> run_seq h (world0 c) = Some w ->
  forall u, lastword w u = expected w u /\ pubval w u = expected w u /\
            (lookup u (w_open w) = None -> lastword w u = PEmpty).
Print Assumptions C09_sequential_partial.

(* the same in the property's words: whatever function `diag` of (text, language, dictionaries,
   configuration, ignore list) the diagnostics are, the diagnostics shown last are diag of the newest *)
Theorem C09_sequential_diag_partial : forall (D : Type) (diag : dargs -> D) (none : D) h c w,
  seq_safeb h (world0 c) = true -> run_seq h (world0 c) = Some w ->
  forall u, shown D diag none (lastword w u) = shown D diag none (expected w u).
Proof. exact sequential_diag. Qed.
Check C09_sequential_diag_partial : forall (D : Type) (diag : dargs -> D) (none : D) h c w,
  seq_safeb h (world0 c) = true -> run_seq h (world0 c) = Some w ->
  forall u, shown D diag none (lastword w u) = shown D diag none (expected w u).
Print Assumptions C09_sequential_diag_partial.

(* the hypotheses are satisfiable by a history that contains every kind of message *)
Example C09_sequential_nonvacuous :
  seq_safeb demo_history (world0 0) = true /\
  exists w, run_seq demo_history (world0 0) = Some w /\
    lastword w (UFile 0 0) = PDiag (mkargs (mktext 6 0) LMarkdown (mkdict [3] [4] 0) 2 2 2 [1]) /\
    lastword w (UFile 0 1) = PEmpty /\ lastword w (UFile 1 0) = PEmpty.
Proof. exact demo_history_safe. Qed.

(* Concurrent clause, _partial: for EVERY interleaving of the handlers' await-to-await segments with up
   to four handlers in flight (xrun = run restricted at admission), provided a message is admitted only
   while no handler in flight concerns the same document, and the messages are
   didOpen/didChange/didSave/didClose/HarperIgnoreLint/HarperRecordLint satisfying op_safeb: when
   everything has been handled, the last word for every document is right.
   Missing for the full clause: two handlers for one document in flight (refuted: F17a) and handlers
   with global effects (dictionary commands, configuration changes, deletions) in flight with others. *)
Theorem C09_exclusive_concurrency_partial : forall h w0 cs y,
  Inv w0 -> xrun cs (init h w0) = Some y -> quiescent y ->
  forall u, lastword (y_world y) u = expected (y_world y) u /\
            (lookup u (w_open (y_world y)) = None -> lastword (y_world y) u = PEmpty).
Proof. exact exclusive_concurrency. Qed.
Check C09_exclusive_concurrency_partial : forall h w0 cs y,
  Inv w0 -> xrun cs (init h w0) = Some y -> quiescent y ->
  forall u, lastword (y_world y) u = expected (y_world y) u /\
            (lookup u (w_open (y_world y)) = None -> lastword (y_world y) u = PEmpty).
Print Assumptions C09_exclusive_concurrency_partial.

(* xrun accepts only schedules of the real dispatcher; a fresh server satisfies Inv *)
Theorem C09_exclusive_is_schedule : forall cs y y', xrun cs y = Some y' -> run cs y = Some y'.
Proof. exact exclusive_is_schedule. Qed.
Check C09_exclusive_is_schedule : forall cs y y', xrun cs y = Some y' -> run cs y = Some y'.
Print Assumptions C09_exclusive_is_schedule.

Theorem C09_fresh_server_inv : forall c, Inv (world0 c).
Proof. exact inv_world0. Qed.
Check C09_fresh_server_inv : forall c, Inv (world0 c).
Print Assumptions C09_fresh_server_inv.

Example C09_exclusive_nonvacuous :
  exists y, xrun conc_schedule (init conc_history (world0 0)) = Some y /\ quiescentb y = true /\
    lastword (y_world y) (UFile 0 0) = PDiag (mkargs (mktext 3 0) LMarkdown (mkdict [] [] 0) 0 0 0 [1]) /\
    lastword (y_world y) (UFile 0 1) = PDiag (mkargs (mktext 1 0) LPlain (mkdict [] [] 0) 0 0 0 []) /\
    lastword (y_world y) (UUntitled 0) = PEmpty.
Proof. exact conc_schedule_runs. Qed.

(* C09_close_wins: once a document is absent from doc_state (did_close and deletions remove it and
   publish [], close_removes), then for every schedule and whatever else is in flight or queued - didChange,
   didSave, commands, configuration changes, deletions, for any document - as long as no didOpen is in
   flight or queued: the document stays absent, and if its last word was [] it stays []. *)
Theorem C09_close_wins : forall cs u y y',
  no_open_pending y -> lookup u (s_docs (y_world y)) = None -> run cs y = Some y' ->
  lookup u (s_docs (y_world y')) = None /\
  (lastword (y_world y) u = PEmpty -> lastword (y_world y') u = PEmpty).
Proof. exact close_wins. Qed.
Check C09_close_wins : forall cs u y y',
  no_open_pending y -> lookup u (s_docs (y_world y)) = None -> run cs y = Some y' ->
  lookup u (s_docs (y_world y')) = None /\
  (lastword (y_world y) u = PEmpty -> lastword (y_world y') u = PEmpty).
Print Assumptions C09_close_wins.

Theorem C09_close_removes : forall l w push l' w',
  exec IClose l w = Some (push, l', w') ->
  lookup (l_url l) (s_docs w') = None /\ lastword w' (l_url l) = PEmpty.
Proof. exact close_removes. Qed.
Check C09_close_removes : forall l w push l' w',
  exec IClose l w = Some (push, l', w') ->
  lookup (l_url l) (s_docs w') = None /\ lastword w' (l_url l) = PEmpty.
Print Assumptions C09_close_removes.

Example C09_close_wins_nonvacuous :
  exists y, run cw_prefix (init cw_history (world0 0)) = Some y /\
    (forall hs, In hs (y_flight y) -> l_lang (h_loc hs) = None) /\ y_flight y <> [] /\
    forallb not_open (y_todo y) = true /\
    lookup (UFile 0 0) (s_docs (y_world y)) = None /\ lastword (y_world y) (UFile 0 0) = PEmpty /\
    exists y', run cw_suffix y = Some y' /\ quiescentb y' = true /\ length (s_log (y_world y')) = 3.
Proof. exact close_wins_applies. Qed.
