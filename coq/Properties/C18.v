(* C18 — Title-casing only changes letter case and is idempotent.
   This file pins the statements; it contains nothing but `exact` (and vm_compute Examples).

   The model (Model/TitleCase.v) is make_title_case over abstract tokens; `lower`, `is_lowercase`
   (char::to_lowercase / is_lowercase, used only on the looked-up word) and the two dictionary
   methods are universally quantified.  toks_ok n toks is the C02 token invariant: spans in bounds
   of a text of length n, ordered, disjoint, word-like tokens non-empty. *)
Require Import Base Tables_titlecase TitleCase TitleCaseProofs.
From Coq Require Import Sorting.Sorted.

(* no panic: for tokens satisfying the C02 invariant, provided the canonical spelling the
   dictionary returns for a word is at least as long as the word (H_canon_len; the harness
   monitors equality of lengths, on every lookup and over the whole curated dictionary) *)
Theorem C18_total : forall lower is_lowercase dict_canon dict_meta toks src,
  toks_ok (length src) toks ->
  (forall w cc, dict_canon w = Some cc -> length w <= length cc) ->
  exists out, make_title_case lower is_lowercase dict_canon dict_meta toks src = Ok out.
Proof. exact mtc_total. Qed.
Check C18_total : forall lower is_lowercase dict_canon dict_meta toks src,
  toks_ok (length src) toks ->
  (forall w cc, dict_canon w = Some cc -> length w <= length cc) ->
  exists out, make_title_case lower is_lowercase dict_canon dict_meta toks src = Ok out.
Print Assumptions C18_total.

(* the same with H_canon_len derived from how the dictionary finds a word: the canonical spelling
   found for w has the same folded form (char_to_normalized, then to_lowercase: the pre-image of
   WordId) as w, each of its characters lower-cases to exactly one character, and to_lowercase never
   yields the empty string — the three facts the harness monitors (every look-up; every entry of the
   curated dictionary; all code points) *)
Theorem C18_total_word_id : forall lower is_lowercase dict_canon dict_meta toks src,
  toks_ok (length src) toks ->
  (forall c, lower c <> []) ->
  (forall w cc, dict_canon w = Some cc ->
                fold_word lower cc = fold_word lower w /\
                Forall (fun c => length (lower (normalize_char c)) = 1) cc) ->
  exists out, make_title_case lower is_lowercase dict_canon dict_meta toks src = Ok out.
Proof. exact mtc_total_word_id. Qed.
Check C18_total_word_id : forall lower is_lowercase dict_canon dict_meta toks src,
  toks_ok (length src) toks ->
  (forall c, lower c <> []) ->
  (forall w cc, dict_canon w = Some cc ->
                fold_word lower cc = fold_word lower w /\
                Forall (fun c => length (lower (normalize_char c)) = 1) cc) ->
  exists out, make_title_case lower is_lowercase dict_canon dict_meta toks src = Ok out.
Print Assumptions C18_total_word_id.

(* the output has the length of the hull of the tokens — for ANY token list: text outside the hull
   is dropped (Markdown: "A\n" gives "A") and an empty token list gives the empty string *)
Theorem C18_length : forall lower is_lowercase dict_canon dict_meta toks src out,
  make_title_case lower is_lowercase dict_canon dict_meta toks src = Ok out ->
  length out = hull_end toks - hull_start toks.
Proof. exact mtc_length. Qed.
Check C18_length : forall lower is_lowercase dict_canon dict_meta toks src out,
  make_title_case lower is_lowercase dict_canon dict_meta toks src = Ok out ->
  length out = hull_end toks - hull_start toks.
Print Assumptions C18_length.

(* hence: when the tokens tile the text (PlainEnglish), input and output have the same length *)
Theorem C18_length_tiling : forall lower is_lowercase dict_canon dict_meta toks src out,
  make_title_case lower is_lowercase dict_canon dict_meta toks src = Ok out ->
  hull_start toks = 0 -> hull_end toks = length src ->
  length out = length src.
Proof. exact mtc_length_tiling. Qed.
Check C18_length_tiling : forall lower is_lowercase dict_canon dict_meta toks src out,
  make_title_case lower is_lowercase dict_canon dict_meta toks src = Ok out ->
  hull_start toks = 0 -> hull_end toks = length src ->
  length out = length src.
Print Assumptions C18_length_tiling.

(* case only — for ANY token list: output character k is the source character at hull_start + k up
   to ASCII case (case_img a c: c = a, to_ascii_uppercase a or to_ascii_lowercase a), or — inside a
   word-like token w for which the proper-noun block found a canonical spelling cc — the character
   of cc at the same offset into w, up to ASCII case.  (first_start = start of the first token, the
   anchor of the code's index arithmetic; equal to hull_start under the token invariant.) *)
Theorem C18_case_only : forall lower is_lowercase dict_canon dict_meta toks src out,
  make_title_case lower is_lowercase dict_canon dict_meta toks src = Ok out ->
  forall k c, nth_error out k = Some c ->
    (exists a, nth_error src (hull_start toks + k) = Some a /\ case_img a c) \/
    (exists w cc b,
        In w toks /\ tok_word_like w = true /\ canon_for dict_canon w src = Ok (Some cc) /\
        tstart w <= first_start toks + k < tend w /\
        nth_error cc (first_start toks + k - tstart w) = Some b /\ case_img b c).
Proof. exact mtc_case_only. Qed.
Check C18_case_only : forall lower is_lowercase dict_canon dict_meta toks src out,
  make_title_case lower is_lowercase dict_canon dict_meta toks src = Ok out ->
  forall k c, nth_error out k = Some c ->
    (exists a, nth_error src (hull_start toks + k) = Some a /\ case_img a c) \/
    (exists w cc b,
        In w toks /\ tok_word_like w = true /\ canon_for dict_canon w src = Ok (Some cc) /\
        tstart w <= first_start toks + k < tend w /\
        nth_error cc (first_start toks + k - tstart w) = Some b /\ case_img b c).
Print Assumptions C18_case_only.

(* the first word-like token starts with to_ascii_uppercase of its first character (of the first
   character of its canonical spelling when the proper-noun block replaced it) *)
Theorem C18_first_upper : forall lower is_lowercase dict_canon dict_meta toks src out w0 rest,
  toks_ok (length src) toks ->
  make_title_case lower is_lowercase dict_canon dict_meta toks src = Ok out ->
  filter tok_word_like toks = w0 :: rest ->
  exists oc b,
    canon_for dict_canon w0 src = Ok oc /\
    match oc with Some cc => nth_error cc 0 | None => nth_error src (tstart w0) end = Some b /\
    nth_error out (tstart w0 - first_start toks) = Some (ascii_upper b).
Proof. exact mtc_first_upper. Qed.
Check C18_first_upper : forall lower is_lowercase dict_canon dict_meta toks src out w0 rest,
  toks_ok (length src) toks ->
  make_title_case lower is_lowercase dict_canon dict_meta toks src = Ok out ->
  filter tok_word_like toks = w0 :: rest ->
  exists oc b,
    canon_for dict_canon w0 src = Ok oc /\
    match oc with Some cc => nth_error cc 0 | None => nth_error src (tstart w0) end = Some b /\
    nth_error out (tstart w0 - first_start toks) = Some (ascii_upper b).
Print Assumptions C18_first_upper.

(* ... and to_ascii_uppercase of an ASCII letter is an ASCII upper-case letter, of anything else the
   character itself; it is never an ASCII lower-case letter *)
Theorem C18_ascii_upper_spec : forall c,
  is_ascii_lower (ascii_upper c) = false /\
  (is_ascii_alpha c = true -> is_ascii_upper (ascii_upper c) = true) /\
  (is_ascii_lower c = false -> ascii_upper c = c).
Proof. exact ascii_upper_spec. Qed.
Check C18_ascii_upper_spec : forall c,
  is_ascii_lower (ascii_upper c) = false /\
  (is_ascii_alpha c = true -> is_ascii_upper (ascii_upper c) = true) /\
  (is_ascii_lower c = false -> ascii_upper c = c).
Print Assumptions C18_ascii_upper_spec.

(* the tie to the source (table regenerated from title_case.rs / token_kind.rs / char_string.rs on
   every run): characters of the output are only ever written through to_ascii_uppercase /
   to_ascii_lowercase (one char to one char) or copied from the canonical spelling; the first and the
   last word-like token are forced upper; the word-like kinds and the special conjunctions are the
   ones the model and the harness use *)
Theorem C18_source_shape :
  tc_uses_unicode_case_on_output = false /\ tc_ascii_upper_sites = 1 /\ tc_ascii_lower_sites = 1 /\
  tc_output_index_writes = 2 /\ tc_canonical_overwrite_present = true /\ tc_first_last_forced = true /\
  tc_token_kind_count = 12 /\ tc_word_like_codes = [0; 6; 8; 2; 3] /\
  tc_special_conjunctions = [[97; 110; 100]; [98; 117; 116]; [102; 111; 114]; [111; 114]; [110; 111; 114]]%N /\
  tc_short_preposition_max = 4 /\
  tc_normalize_table = [(8217, 39); (8216, 39); (65287, 39)]%N.
Proof. exact tc_source_shape. Qed.
Check C18_source_shape :
  tc_uses_unicode_case_on_output = false /\ tc_ascii_upper_sites = 1 /\ tc_ascii_lower_sites = 1 /\
  tc_output_index_writes = 2 /\ tc_canonical_overwrite_present = true /\ tc_first_last_forced = true /\
  tc_token_kind_count = 12 /\ tc_word_like_codes = [0; 6; 8; 2; 3] /\
  tc_special_conjunctions = [[97; 110; 100]; [98; 117; 116]; [102; 111; 114]; [111; 114]; [110; 111; 114]]%N /\
  tc_short_preposition_max = 4 /\
  tc_normalize_table = [(8217, 39); (8216, 39); (65287, 39)]%N.
Print Assumptions C18_source_shape.

(* idempotence, PARTIAL: a second pass changes nothing PROVIDED (H_case_stable, monitored, not
   proved) re-tokenising the output yields the same token list — the theorem reuses `toks` — and, for
   each word-like token, the proper-noun look-up and should_capitalize_token answer on the output's
   text as they did on the input's.  Further premises: C02 token invariant; the tokens tile the text
   (PlainEnglish; otherwise the output is shorter than the input and cannot carry the same spans).
   Missing for the full property: the lexer's case-stability (Lexer.v is not part of this model). *)
Theorem C18_idempotent_partial : forall lower is_lowercase dict_canon dict_meta toks src out,
  toks_ok (length src) toks ->
  hull_start toks = 0 -> hull_end toks = length src ->
  make_title_case lower is_lowercase dict_canon dict_meta toks src = Ok out ->
  (forall w, In w toks -> tok_word_like w = true ->
     canon_for dict_canon w out = canon_for dict_canon w src /\
     should_capitalize_token lower is_lowercase dict_meta w out
     = should_capitalize_token lower is_lowercase dict_meta w src) ->
  make_title_case lower is_lowercase dict_canon dict_meta toks out = Ok out.
Proof. exact mtc_idempotent. Qed.
Check C18_idempotent_partial : forall lower is_lowercase dict_canon dict_meta toks src out,
  toks_ok (length src) toks ->
  hull_start toks = 0 -> hull_end toks = length src ->
  make_title_case lower is_lowercase dict_canon dict_meta toks src = Ok out ->
  (forall w, In w toks -> tok_word_like w = true ->
     canon_for dict_canon w out = canon_for dict_canon w src /\
     should_capitalize_token lower is_lowercase dict_meta w out
     = should_capitalize_token lower is_lowercase dict_meta w src) ->
  make_title_case lower is_lowercase dict_canon dict_meta toks out = Ok out.
Print Assumptions C18_idempotent_partial.

(* the decision depends on the word only through case-insensitive data: when to_lowercase ignores
   ASCII case (lower_ascii_law), is the identity on is_lowercase characters (lowercase_fixed), and
   the dictionary's canonical-spelling look-up ignores ASCII case (dict_ascii_ci) — all three
   monitored — the stability premise is only needed for the tokens whose text the proper-noun block
   replaced by a canonical spelling *)
Theorem C18_idempotent_case_insensitive_partial : forall lower is_lowercase dict_canon dict_meta toks src out,
  toks_ok (length src) toks ->
  hull_start toks = 0 -> hull_end toks = length src ->
  lower_ascii_law lower -> lowercase_fixed lower is_lowercase -> dict_ascii_ci dict_canon ->
  make_title_case lower is_lowercase dict_canon dict_meta toks src = Ok out ->
  (forall w cc, In w toks -> tok_word_like w = true -> canon_for dict_canon w src = Ok (Some cc) ->
     canon_for dict_canon w out = Ok (Some cc) /\
     should_capitalize_token lower is_lowercase dict_meta w out
     = should_capitalize_token lower is_lowercase dict_meta w src) ->
  make_title_case lower is_lowercase dict_canon dict_meta toks out = Ok out.
Proof. exact mtc_idempotent_ci. Qed.
Check C18_idempotent_case_insensitive_partial : forall lower is_lowercase dict_canon dict_meta toks src out,
  toks_ok (length src) toks ->
  hull_start toks = 0 -> hull_end toks = length src ->
  lower_ascii_law lower -> lowercase_fixed lower is_lowercase -> dict_ascii_ci dict_canon ->
  make_title_case lower is_lowercase dict_canon dict_meta toks src = Ok out ->
  (forall w cc, In w toks -> tok_word_like w = true -> canon_for dict_canon w src = Ok (Some cc) ->
     canon_for dict_canon w out = Ok (Some cc) /\
     should_capitalize_token lower is_lowercase dict_meta w out
     = should_capitalize_token lower is_lowercase dict_meta w src) ->
  make_title_case lower is_lowercase dict_canon dict_meta toks out = Ok out.
Print Assumptions C18_idempotent_case_insensitive_partial.

(* case only at the strength of the property text, OUTSIDE the known class: for every relation S
   between an input and an output character that contains "ASCII case image" — S is what the property
   allows — if no canonical spelling that the proper-noun block copies takes a source character out of
   S (after the ASCII case write that may follow), every output character is S-related to the source
   character at the same position.  (~ KnownClass = that premise; the harness instantiates S with
   "lower/upper-case mapping, or curly apostrophe -> ' inside a proper noun".) *)
Theorem C18_case_only_outside_known_class :
  forall lower is_lowercase dict_canon dict_meta (S : char -> char -> Prop) toks src out,
  (forall a c, case_img a c -> S a c) ->
  toks_ok (length src) toks ->
  make_title_case lower is_lowercase dict_canon dict_meta toks src = Ok out ->
  (forall w cc i a b c,
      In w toks -> tok_word_like w = true -> canon_for dict_canon w src = Ok (Some cc) ->
      tstart w + i < tend w ->
      nth_error src (tstart w + i) = Some a -> nth_error cc i = Some b -> case_img b c -> S a c) ->
  forall k c, nth_error out k = Some c ->
    exists a, nth_error src (hull_start toks + k) = Some a /\ S a c.
Proof. exact mtc_case_only_rel. Qed.
Check C18_case_only_outside_known_class :
  forall lower is_lowercase dict_canon dict_meta (S : char -> char -> Prop) toks src out,
  (forall a c, case_img a c -> S a c) ->
  toks_ok (length src) toks ->
  make_title_case lower is_lowercase dict_canon dict_meta toks src = Ok out ->
  (forall w cc i a b c,
      In w toks -> tok_word_like w = true -> canon_for dict_canon w src = Ok (Some cc) ->
      tstart w + i < tend w ->
      nth_error src (tstart w + i) = Some a -> nth_error cc i = Some b -> case_img b c -> S a c) ->
  forall k c, nth_error out k = Some c ->
    exists a, nth_error src (hull_start toks + k) = Some a /\ S a c.
Print Assumptions C18_case_only_outside_known_class.

(* KNOWN CLASS (findings FC18a, FC18b), witness "b the.Kelvin" written with U+212A KELVIN SIGN; the
   tables are the facts the real implementation dumps for this input and for its output
   (corpus/C18/kelvin.json replays both on the implementation):
   - the proper-noun block copies the canonical spelling "kelvin" over "Kelvin" (same WordId: both
     lower-case to "kelvin"), the first-letter write makes it 'K': U+212A has become U+004B, which is
     not a case image of U+212A;
   - the output "B the.Kelvin" is now all-ASCII around the dot and re-lexes as Word Space
     Hostname("the.Kelvin"); the second pass upper-cases the hostname's first letter: "B The.Kelvin". *)
Theorem C18_idempotent_refuted :
  exists chars canon meta toks toks' src out out',
    run_title_case chars canon meta toks src = Ok out /\
    run_title_case chars canon meta toks' out = Ok out' /\ out' <> out.
Proof. exact mtc_idempotent_refuted. Qed.
Check C18_idempotent_refuted :
  exists chars canon meta toks toks' src out out',
    run_title_case chars canon meta toks src = Ok out /\
    run_title_case chars canon meta toks' out = Ok out' /\ out' <> out.
Print Assumptions C18_idempotent_refuted.

Theorem C18_case_only_strict_refuted :
  exists chars canon meta toks src out k a c,
    run_title_case chars canon meta toks src = Ok out /\
    nth_error src k = Some a /\ nth_error out k = Some c /\ ~ case_img a c.
Proof. exact mtc_case_only_strict_refuted. Qed.
Check C18_case_only_strict_refuted :
  exists chars canon meta toks src out k a c,
    run_title_case chars canon meta toks src = Ok out /\
    nth_error src k = Some a /\ nth_error out k = Some c /\ ~ case_img a c.
Print Assumptions C18_case_only_strict_refuted.

(* ---------- non-vacuity ---------- *)
(* "the wordpress of a" -> "The WordPress of A": the hypotheses of every theorem above hold on it
   (token invariant, tiling, H_canon_len, the stability premise), first/last/determiner/preposition/
   proper-noun paths are all exercised, and the second pass is the identity *)
Example C18_nonvacuous :
  toks_ok (length ex_src) ex_toks /\ hull_start ex_toks = 0 /\ hull_end ex_toks = length ex_src /\
  (forall w cc, ex_canon w = Some cc -> length w <= length cc) /\
  make_title_case ex_lower ex_islower ex_canon ex_meta ex_toks ex_src = Ok ex_out /\
  Forall (fun w => canon_for ex_canon w ex_out = canon_for ex_canon w ex_src /\
                   should_capitalize_token ex_lower ex_islower ex_meta w ex_out
                   = should_capitalize_token ex_lower ex_islower ex_meta w ex_src) ex_toks /\
  make_title_case ex_lower ex_islower ex_canon ex_meta ex_toks ex_out = Ok ex_out.
Proof.
  split; [exact ex_toks_ok|]. split; [reflexivity|]. split; [reflexivity|]. split; [exact ex_canon_len|].
  split; [vm_compute; reflexivity|]. split; [repeat constructor; vm_compute; reflexivity|].
  vm_compute; reflexivity.
Qed.

(* H_canon_len is needed: a proper-noun token of 3 characters ("i" + U+0307 + "x") whose canonical
   spelling has 2 ("İx" — same lower-cased form, the only Unicode character whose to_lowercase is two
   characters) makes `correct_caps[idx]` panic; the real function panics on the same input with a
   hand-made dictionary (corpus/C18/edge.json, synthetic stream) — the curated dictionary has no such
   entry (swept on every run) *)
Example C18_canon_len_needed :
  let src := [105; 775; 120]%N in
  let toks := [mktok (mkspan 0 3) (KWord (Some (mkmeta true false false)))] in
  toks_ok (length src) toks /\
  make_title_case ex_lower ex_islower (fun _ => Some [304; 120]%N) (fun _ => None) toks src = Panic PIndex.
Proof.
  cbv zeta. split; [|vm_compute; reflexivity].
  split; [repeat constructor|]. repeat constructor; cbn; lia.
Qed.

(* text outside the hull of the tokens is dropped (Markdown front-end: "A\n" -> "A"); an empty token
   list gives the empty string whatever the text *)
Example C18_hull_only :
  make_title_case ex_lower ex_islower ex_canon ex_meta [mktok (mkspan 0 1) (KWord None)] [97; 10]%N = Ok [65]%N /\
  make_title_case ex_lower ex_islower ex_canon ex_meta [] [97; 10]%N = Ok [].
Proof. split; vm_compute; reflexivity. Qed.

(* the witness of the known class, spelled out *)
Example C18_known_class_witness :
  run_title_case kw_chars kw_canon kw_meta kw_toks1 kw_src = Ok kw_out /\
  run_title_case kw_chars kw_canon kw_meta kw_toks2 kw_out = Ok kw_out2 /\
  kw_out2 <> kw_out /\
  nth_error kw_src 6 = Some 8490%N /\ nth_error kw_out 6 = Some 75%N /\ ~ case_img 8490%N 75%N.
Proof. exact kelvin_witness. Qed.
